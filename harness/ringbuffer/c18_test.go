package ringbuffer

// C18 driver: replays operation histories (from TLC behaviours and from the seed) on the real
// shared-memory RingBuffer and records every call with its arguments and result as NDJSON for
// RingBufferTrace.tla.  Bytes written carry their global index (mod 251).

import (
	"encoding/json"
	"fmt"
	"math/rand"
	"os"
	"runtime"
	"strconv"
	"sync/atomic"
	"testing"
	"time"
)

type c18op struct {
	Op string `json:"op"`
	N  int    `json:"n"`
}
type c18scen struct {
	Cap int     `json:"cap"`
	Ops []c18op `json:"ops"`
}

func c18ints(b []byte) []int {
	out := make([]int, len(b))
	for i, v := range b {
		out[i] = int(v)
	}
	return out
}

func c18run(t *testing.T, enc *json.Encoder, id int, sc c18scen) {
	name := fmt.Sprintf("verif_c18_%d_%d", os.Getpid(), id)
	rb, err := NewRingBuffer(name+"_raw", name+"_desc")
	if err != nil {
		t.Fatalf("NewRingBuffer: %v", err)
	}
	if err = rb.Create(sc.Cap); err != nil {
		t.Fatalf("Create: %v", err)
	}
	defer rb.Unlink()
	defer rb.Close()
	// the reader is an object of its own that attaches to the regions (as dastard's Abaco ring source does); it stays
	// the SAME object when the writer goes away and the ring is created again (Close, then Open)
	rd, err := NewRingBuffer(name+"_raw", name+"_desc")
	if err != nil {
		t.Fatalf("NewRingBuffer: %v", err)
	}
	if err = rd.Open(); err != nil {
		t.Fatalf("Open: %v", err)
	}
	defer rd.Close()
	enc.Encode(map[string]any{"ev": "Create", "scen": id, "cap": sc.Cap})
	acc, off := 0, 0
	for _, op := range sc.Ops {
		func() {
			defer func() {
				if r := recover(); r != nil {
					enc.Encode(map[string]any{"ev": "Panic", "op": op.Op, "n": op.N, "msg": fmt.Sprint(r)})
				}
			}()
			switch op.Op {
			case "Write":
				if rb.BytesWriteable() < 0 {
					return // completely full (the external producer filled it): the test-only Write is not meant for that state
				}
				data := make([]byte, op.N)
				for i := range data {
					data[i] = byte((off + acc + i) % 251)
				}
				k, _ := rb.Write(data)
				acc += k
				enc.Encode(map[string]any{"ev": "Write", "n": op.N, "ret": k})
			case "XWrite":
				// the producer of the real system is another process that writes into the shared region and publishes
				// writePointer itself; it may use the last byte as well (a completely full ring)
				w, r := rb.desc.writePointer, rb.desc.readPointer
				capb := rb.desc.bufferSize
				k := op.N
				if free := int(capb - (w - r)); k > free {
					k = free
				}
				for i := 0; i < k; i++ {
					rb.raw[(w+uint64(i))%capb] = byte((off + acc + i) % 251)
				}
				rb.desc.writePointer = w + uint64(k)
				acc += k
				enc.Encode(map[string]any{"ev": "XWrite", "n": op.N, "ret": k})
			case "Read":
				d, _ := rd.Read(op.N)
				enc.Encode(map[string]any{"ev": "Read", "n": op.N, "data": c18ints(d)})
			case "ReadAll":
				d, _ := rd.ReadAll()
				enc.Encode(map[string]any{"ev": "ReadAll", "n": 0, "data": c18ints(d)})
			case "ReadMult":
				d, e := rd.ReadMultipleOf(op.N)
				enc.Encode(map[string]any{"ev": "ReadMult", "n": op.N, "data": c18ints(d), "err": e != nil})
			case "Recreate":
				// the writer goes away without Unlink (its regions stay behind) and a new writer calls Create on the same
				// names: whatever the regions hold, the new ring starts empty.  Written bytes carry a new offset, so that
				// stale bytes are told from new ones.
				rd.Close() // the reader detaches ...
				rb.Close()
				rb2, err := NewRingBuffer(name+"_raw", name+"_desc")
				if err != nil {
					t.Fatalf("NewRingBuffer: %v", err)
				}
				if err = rb2.Create(op.N); err != nil {
					t.Fatalf("Create: %v", err)
				}
				*rb = *rb2 // (the deferred Close / Unlink act on the current ring)
				if err = rd.Open(); err != nil { // ... and the same reader object attaches to the new ring
					t.Fatalf("Open after re-create: %v", err)
				}
				acc = 0
				off += 97
				enc.Encode(map[string]any{"ev": "Recreate", "cap": op.N, "off": off % 251, "readable": rd.BytesReadable(), "writeable": rb.BytesWriteable()})
			case "Discard":
				rd.DiscardStride(uint64(op.N))
				enc.Encode(map[string]any{"ev": "Discard", "n": op.N, "rp": int(rd.desc.readPointer), "wp": int(rd.desc.writePointer)})
			}
		}()
	}
	// final drain: everything accepted and not discarded must come out
	all := []int{}
	for i := 0; i < 4; i++ {
		d, _ := rd.ReadAll()
		all = append(all, c18ints(d)...)
	}
	enc.Encode(map[string]any{"ev": "Drain", "n": 0, "data": all})
}

func TestVerifC18(t *testing.T) {
	out, err := os.Create(os.Getenv("VERIF_OUT"))
	if err != nil {
		t.Fatal(err)
	}
	defer out.Close()
	enc := json.NewEncoder(out)
	var scens []c18scen
	if p := os.Getenv("VERIF_SCEN"); p != "" {
		b, err := os.ReadFile(p)
		if err != nil {
			t.Fatal(err)
		}
		if err = json.Unmarshal(b, &scens); err != nil {
			t.Fatal(err)
		}
	}
	seed, _ := strconv.ParseInt(os.Getenv("VERIF_SEED"), 10, 64)
	nrand, _ := strconv.Atoi(os.Getenv("VERIF_NRANDOM"))
	rng := rand.New(rand.NewSource(seed))
	for i := 0; i < nrand; i++ {
		caps := []int{2, 3, 4, 5, 7, 8, 16, 33, 64, 100, 251, 256, 1000}
		c := caps[rng.Intn(len(caps))]
		n := 5 + rng.Intn(40)
		sc := c18scen{Cap: c}
		stride := 1 + rng.Intn(c+2)
		for j := 0; j < n; j++ {
			var op c18op
			sz := rng.Intn(c + 3)
			switch x := rng.Intn(10); {
			case x < 4:
				op = c18op{"Write", sz}
				if rng.Intn(4) == 0 { // exactly fill
					op.N = rb18free(c, sc)
				}
			case x < 6:
				op = c18op{"Read", sz}
			case x < 7:
				op = c18op{"ReadAll", 0}
			case x < 9:
				k := stride
				if rng.Intn(3) == 0 {
					k = 1 + rng.Intn(c+2)
				}
				op = c18op{"ReadMult", k}
			default:
				k := stride
				if rng.Intn(2) == 0 {
					k = 1 + rng.Intn(c+2)
				}
				op = c18op{"Discard", k}
			}
			if rng.Intn(8) == 0 {
				op = c18op{"XWrite", c + rng.Intn(3)} // fill the ring to the last byte
			}
			if rng.Intn(25) == 0 {
				c = caps[rng.Intn(len(caps))] // a new writer on the regions left behind, possibly with another size
				op = c18op{"Recreate", c}
			}
			sc.Ops = append(sc.Ops, op)
		}
		scens = append(scens, sc)
	}
	for i, sc := range scens {
		c18run(t, enc, i+1, sc)
	}
}

// rb18free is only a generator hint (a size likely to fill the buffer exactly); it is not an oracle.
func rb18free(c int, sc c18scen) int { return c - 1 }

// TestVerifC18Conc: the ring buffer as it is used, a writer and a reader at the same time on two RingBuffer objects that
// map the same shared memory (spec/RingConc.tla: Write and Read as the steps in which they touch the shared memory).
// The writer sends large blocks of a position-dependent pattern (copying one takes long enough for the reader to look
// in between); the reader polls and compares every byte it gets with the pattern.  One event per session:
//
//	Conc  cap, blocks, bytes read, bad = stream position of the first wrong byte (-1: none), got, want
func c18pattern(p uint64) byte { return byte(p*7+(p>>8)*13+(p>>16)*29+(p>>24)) | 1 }

func TestVerifC18Conc(t *testing.T) {
	out, err := os.Create(os.Getenv("VERIF_OUT"))
	if err != nil {
		t.Fatal(err)
	}
	defer out.Close()
	enc := json.NewEncoder(out)
	nsess, _ := strconv.Atoi(os.Getenv("VERIF_NRANDOM"))
	seed, _ := strconv.ParseInt(os.Getenv("VERIF_SEED"), 10, 64)
	rng := rand.New(rand.NewSource(seed + 18))
	for s := 1; s <= nsess; s++ {
		name := fmt.Sprintf("verif_c18c_%d_%d", os.Getpid(), s)
		wr, err := NewRingBuffer(name+"_raw", name+"_desc")
		if err != nil {
			t.Fatal(err)
		}
		ringSize := 8<<20 + 1 + rng.Intn(9000) // not a power of two, not a multiple of the block size
		if err = wr.Create(ringSize); err != nil {
			t.Fatal(err)
		}
		rd, err := NewRingBuffer(name+"_raw", name+"_desc")
		if err != nil {
			t.Fatal(err)
		}
		if err = rd.Open(); err != nil {
			t.Fatal(err)
		}
		blockSize := 2<<20 + rng.Intn(100000)
		nBlocks := 14 // several laps, several wrapping writes
		var produced, consumed, stop int64
		type res struct {
			bad       int64
			got, want int
			nread     int64
		}
		done := make(chan res, 1)
		go func() {
			var pos uint64
			r := res{bad: -1}
			for atomic.LoadInt64(&stop) == 0 || uint64(atomic.LoadInt64(&produced)) > pos {
				data, err := rd.Read(ringSize)
				if err != nil || len(data) == 0 {
					continue
				}
				for i := range data {
					if data[i] != c18pattern(pos+uint64(i)) {
						r.bad, r.got, r.want = int64(pos)+int64(i), int(data[i]), int(c18pattern(pos+uint64(i)))
						r.nread = int64(pos) + int64(len(data))
						atomic.StoreInt64(&consumed, -1)
						done <- r
						return
					}
				}
				pos += uint64(len(data))
				atomic.StoreInt64(&consumed, int64(pos))
			}
			r.nread = int64(pos)
			done <- r
		}()
		block := make([]byte, blockSize)
		deadline := time.Now().Add(20 * time.Second)
	writing:
		for k := 0; k < nBlocks; k++ {
			start := uint64(atomic.LoadInt64(&produced))
			for i := range block {
				block[i] = c18pattern(start + uint64(i))
			}
			n, err := wr.Write(block)
			if err != nil {
				break
			}
			atomic.AddInt64(&produced, int64(n))
			for atomic.LoadInt64(&consumed) != atomic.LoadInt64(&produced) { // next block once the reader has seen everything
				if atomic.LoadInt64(&consumed) < 0 || time.Now().After(deadline) {
					break writing
				}
				runtime.Gosched()
			}
		}
		atomic.StoreInt64(&stop, 1)
		var r res
		select {
		case r = <-done:
		case <-time.After(5 * time.Second):
			r = res{bad: -2}
		}
		enc.Encode(map[string]any{"ev": "Conc", "scen": 1000000 + s, "cap": ringSize, "block": blockSize, "produced": atomic.LoadInt64(&produced), "nread": r.nread,
			"bad": r.bad, "got": r.got, "want": r.want})
		rd.Close()
		wr.Close()
		wr.Unlink()
	}
}
