package asyncbufio

// C07 driver for asyncbufio.Writer itself: a gated in-memory io.Writer plays the disk, so the driver decides
// exactly when the consumer can make progress (queue empty / partly full / exactly full).  Schedules come from
// TLC behaviours of AsyncWriter.tla (VERIF_SCEN) and from the seed.

import (
	"encoding/binary"
	"encoding/json"
	"math/rand"
	"os"
	"strconv"
	"sync"
	"testing"
	"time"
)

type c07gate struct {
	mu      sync.Mutex
	cond    *sync.Cond
	tokens  int
	open    bool
	got     []byte
	blocked int
	calls   int
}

func (g *c07gate) Write(p []byte) (int, error) {
	g.mu.Lock()
	defer g.mu.Unlock()
	for !g.open && g.tokens == 0 {
		g.blocked++
		g.cond.Wait()
		g.blocked--
	}
	if !g.open {
		g.tokens--
	}
	g.got = append(g.got, p...)
	g.calls++
	return len(p), nil
}
func (g *c07gate) setOpen(o bool) { g.mu.Lock(); g.open = o; g.cond.Broadcast(); g.mu.Unlock() }
func (g *c07gate) release(k int) { g.mu.Lock(); g.tokens += k; g.cond.Broadcast(); g.mu.Unlock() }
func (g *c07gate) content() []byte {
	g.mu.Lock()
	defer g.mu.Unlock()
	return append([]byte{}, g.got...)
}

func c07item(id, size int) []byte {
	b := make([]byte, 8+size)
	binary.LittleEndian.PutUint32(b, uint32(id))
	binary.LittleEndian.PutUint32(b[4:], uint32(size))
	for i := 8; i < len(b); i++ {
		b[i] = byte(id)
	}
	return b
}

func c07parse(b []byte) (ids []int, garbled int, trailing int) {
	ids = []int{}
	for len(b) >= 8 {
		id := int(binary.LittleEndian.Uint32(b))
		size := int(binary.LittleEndian.Uint32(b[4:]))
		if size > 100000 || len(b) < 8+size {
			break
		}
		for i := 8; i < 8+size; i++ {
			if b[i] != byte(id) {
				garbled++
				break
			}
		}
		ids = append(ids, id)
		b = b[8+size:]
	}
	return ids, garbled, len(b)
}

type c07op struct {
	Op string `json:"op"`
	N  int    `json:"n"`
}
type c07scen struct {
	Cap    int     `json:"cap"`
	Ops    []c07op `json:"ops"`
	Origin string  `json:"origin"`
}

func c07settle(aw *Writer, g *c07gate) {
	// wait until the loop is parked (blocked on the gate, or idle with an empty queue)
	for i := 0; i < 400; i++ {
		g.mu.Lock()
		b, tok := g.blocked, g.tokens
		g.mu.Unlock()
		if (b > 0 && tok == 0) || (len(aw.datachannel) == 0 && tok >= 0 && b == 0 && i > 3) {
			return
		}
		time.Sleep(50 * time.Microsecond)
	}
}

func c07untilDone(g *c07gate, call func()) bool {
	done := make(chan struct{})
	go func() { call(); close(done) }()
	g.setOpen(true)
	defer g.setOpen(false)
	select {
	case <-done:
		return true
	case <-time.After(5 * time.Second):
		return false
	}
}

func c07run(enc *json.Encoder, id int, sc c07scen, rng *rand.Rand) {
	g := &c07gate{}
	g.cond = sync.NewCond(&g.mu)
	aw := NewWriter(g, sc.Cap, 2*time.Millisecond)
	enc.Encode(map[string]any{"ev": "Open", "scen": id, "kind": "asyncbufio", "nsamp": sc.Cap, "origin": sc.Origin})
	next := 0
	okIDs, failIDs := []int{}, []int{}
	flushBatch := func() {
		if len(okIDs)+len(failIDs) > 0 {
			enc.Encode(map[string]any{"ev": "WRB", "ok": okIDs, "fail": failIDs})
			okIDs, failIDs = []int{}, []int{}
		}
	}
	report := func(ev string, returned bool) {
		ids, garbled, trailing := c07parse(g.content())
		enc.Encode(map[string]any{"ev": ev, "recs": ids, "garbled": garbled, "trailing": trailing, "header": true, "returned": returned})
	}
	closed := false
	for _, op := range sc.Ops {
		switch op.Op {
		case "W":
			next++
			size := op.N
			if size == 0 {
				size = []int{0, 10, 100, 5000}[rng.Intn(4)]
			}
			// Write either accepts or refuses, also while the disk is stalled: it is called under a watchdog, so that a Write
			// that waits for the disk is an observation and not a hang of the driver
			item := c07item(next, size)
			wres := make(chan error, 1)
			go func() { _, err := aw.Write(item); wres <- err }()
			select {
			case err := <-wres:
				if err == nil {
					okIDs = append(okIDs, next)
				} else {
					failIDs = append(failIDs, next)
				}
			case <-time.After(2 * time.Second):
				flushBatch()
				enc.Encode(map[string]any{"ev": "WriteBlocked", "id": next})
				g.setOpen(true) // let it finish, end the scenario
				<-wres
				closed = true
			}
		case "R":
			g.release(op.N)
			c07settle(aw, g)
		case "K":
			// let the periodic flush fire while the disk is stalled: the loop ends up blocked inside the
			// underlying writer (spill or bufio.Flush); what is written next is accepted during that stall
			time.Sleep(3 * time.Millisecond)
			c07settle(aw, g)
		case "T":
			g.setOpen(true)
			time.Sleep(7 * time.Millisecond)
			g.setOpen(false)
		case "F":
			flushBatch()
			enc.Encode(map[string]any{"ev": "FlushCall"})
			ok := c07untilDone(g, func() { aw.Flush() })
			report("FlushReturn", ok)
		case "S", "D":
			// a flush (S) or close (D) that meets a stalled disk: the disk stays shut for op.N milliseconds after the call
			// was made.  The content of the disk is read at the moment the call returns, whenever that is.
			if closed {
				break
			}
			flushBatch()
			name := map[string]string{"S": "Flush", "D": "Close"}[op.Op]
			enc.Encode(map[string]any{"ev": name + "Call"})
			type sres struct {
				ids               []int
				garbled, trailing int
				err               string
			}
			done := make(chan sres, 1)
			go func() {
				var err error
				if op.Op == "S" {
					err = aw.Flush()
				} else {
					aw.Close()
				}
				ids, garbled, trailing := c07parse(g.content())
				r := sres{ids: ids, garbled: garbled, trailing: trailing}
				if err != nil {
					r.err = err.Error()
				}
				done <- r
			}()
			opened := false
			stall := time.After(time.Duration(op.N) * time.Millisecond)
			limit := time.After(time.Duration(op.N)*time.Millisecond + 5*time.Second)
			var r sres
			returned, early := false, false
		waitS:
			for {
				select {
				case r = <-done:
					returned, early = true, !opened
					break waitS
				case <-stall:
					g.setOpen(true)
					opened = true
				case <-limit:
					break waitS
				}
			}
			g.setOpen(false)
			if !returned {
				r.ids = []int{}
			}
			enc.Encode(map[string]any{"ev": name + "Return", "recs": r.ids, "garbled": r.garbled, "trailing": r.trailing, "header": true,
				"returned": returned, "err": r.err, "early": early, "stallms": op.N})
			if op.Op == "D" {
				closed = true
			}
		case "C":
			if !closed {
				flushBatch()
				enc.Encode(map[string]any{"ev": "CloseCall"})
				ok := c07untilDone(g, aw.Close)
				report("CloseReturn", ok)
				closed = true
			}
		}
		if closed {
			break
		}
	}
	if !closed {
		flushBatch()
		enc.Encode(map[string]any{"ev": "CloseCall"})
		ok := c07untilDone(g, aw.Close)
		report("CloseReturn", ok)
	}
}

func TestVerifC07(t *testing.T) {
	fp, err := os.Create(os.Getenv("VERIF_OUT"))
	if err != nil {
		t.Fatal(err)
	}
	defer fp.Close()
	enc := json.NewEncoder(fp)
	seed, _ := strconv.ParseInt(os.Getenv("VERIF_SEED"), 10, 64)
	n, _ := strconv.Atoi(os.Getenv("VERIF_NRANDOM"))
	rng := rand.New(rand.NewSource(seed))
	var scens []c07scen
	if p := os.Getenv("VERIF_SCEN"); p != "" {
		b, _ := os.ReadFile(p)
		if err := json.Unmarshal(b, &scens); err != nil {
			t.Fatal(err)
		}
	}
	for i := 0; i < n; i++ {
		sc := c07scen{Cap: 1 + rng.Intn(4), Origin: "random"}
		for j := 5 + rng.Intn(40); j > 0; j-- {
			switch x := rng.Intn(10); {
			case x < 5:
				sc.Ops = append(sc.Ops, c07op{"W", 0})
			case x < 8:
				sc.Ops = append(sc.Ops, c07op{"R", 1 + rng.Intn(3)})
			case x < 9:
				sc.Ops = append(sc.Ops, c07op{"F", 0})
			default:
				if rng.Intn(2) == 0 {
					sc.Ops = append(sc.Ops, c07op{"K", 0})
				} else {
					sc.Ops = append(sc.Ops, c07op{"T", 0})
				}
			}
		}
		scens = append(scens, sc)
	}
	// a flush / close that meets a disk stall of various lengths, followed by more writes and another stalled flush or close
	stalls := []int{25, 1250}
	if os.Getenv("VERIF_TIER") != "quick" {
		stalls = []int{25, 300, 1250, 2600, 5600}
	}
	for _, ms := range stalls {
		for _, last := range []string{"S", "D"} {
			scens = append(scens, c07scen{Cap: 3, Origin: "stalled-flush", Ops: []c07op{{"W", 10}, {"W", 100}, {"S", ms}, {"W", 10}, {"S", 25}, {"W", 100}, {"W", 10}, {last, 25}, {"W", 10}}})
		}
		scens = append(scens, c07scen{Cap: 2, Origin: "stalled-flush", Ops: []c07op{{"W", 5000}, {"R", 1}, {"W", 10}, {"S", ms}, {"S", 25}, {"W", 10}, {"D", 40}}})
	}
	for i, sc := range scens {
		c07run(enc, i+1, sc, rng)
	}
}
