package dastard

// Driver for C05 / C06 / C20: executes write-control histories (START/STOP/PAUSE/UNPAUSE/label/blocks)
// on a real AnySource through WriteControl + ProcessSegments, records what was requested, what was
// reported, what was published, and -- decoded by independent readers written from the format
// documents -- what ended up in the output files and the side files.

import (
	"bufio"
	"bytes"
	"encoding/binary"
	"encoding/json"
	"fmt"
	"hash/crc32"
	"math"
	"os"
	"path/filepath"
	"sort"
	"strconv"
	"strings"
	"testing"
	"time"

	"gonum.org/v1/gonum/mat"
)

type wcStep struct {
	K     string   `json:"k"`
	Req   string   `json:"req"`
	Types []string `json:"types"`
	Label string   `json:"label"`
	Ext   []int64  `json:"ext"`
	Drop  int      `json:"drop"`
	Len   int      `json:"len"`
	Path  string   `json:"path"` // START: "" or "A" = the base path, "B" = a second one, "keep" = no path in the request, "bad" = uncreatable
}
type wcScen struct {
	Nchan  int      `json:"nchan"`
	Proj   []int    `json:"proj"`
	Npre   int      `json:"npre"`
	Nsamp  int      `json:"nsamp"`
	Nbases int      `json:"nbases"`
	Rows   int      `json:"rows"`
	Cols   int      `json:"cols"`
	SubDiv int      `json:"subdiv"`
	Frame0 int64    `json:"frame0"`
	Time0  int64    `json:"time0"` // unix ns of the first sample
	Rate   float64  `json:"rate"`
	Signed bool     `json:"signed"`
	Steps  []wcStep `json:"steps"`
	Origin string   `json:"origin"`
	EMVar  bool     `json:"emvar"` // edge-multi trigger in variable-length mode: records shorter than nsamp are published
}

func crc(b []byte) int { return int(crc32.ChecksumIEEE(b) & 0x3fffffff) }

func has(xs []string, s string) bool {
	for _, x := range xs {
		if x == s {
			return true
		}
	}
	return false
}

// ---- independent encoders of one record, from doc/LJH.md, the LJH3 record comment and the OFF package doc
func wcLJH22Bytes(r *DataRecord, subdiv, suboff int) []byte {
	var b bytes.Buffer
	binary.Write(&b, binary.LittleEndian, int64(r.trigFrame)*int64(subdiv)+int64(suboff))
	binary.Write(&b, binary.LittleEndian, r.trigTime.UnixNano()/1000)
	for _, v := range r.data {
		binary.Write(&b, binary.LittleEndian, uint16(v))
	}
	return b.Bytes()
}
func wcLJH3Bytes(r *DataRecord) []byte {
	var b bytes.Buffer
	binary.Write(&b, binary.LittleEndian, int32(len(r.data)))
	binary.Write(&b, binary.LittleEndian, int32(r.presamples+1))
	binary.Write(&b, binary.LittleEndian, int64(r.trigFrame))
	binary.Write(&b, binary.LittleEndian, r.trigTime.UnixNano()/1000)
	for _, v := range r.data {
		binary.Write(&b, binary.LittleEndian, uint16(v))
	}
	return b.Bytes()
}
func wcOFFBytes(r *DataRecord) []byte {
	var b bytes.Buffer
	binary.Write(&b, binary.LittleEndian, int32(len(r.data)))
	binary.Write(&b, binary.LittleEndian, int32(r.presamples))
	binary.Write(&b, binary.LittleEndian, int64(r.trigFrame))
	binary.Write(&b, binary.LittleEndian, r.trigTime.UnixNano())
	binary.Write(&b, binary.LittleEndian, float32(r.pretrigMean))
	binary.Write(&b, binary.LittleEndian, float32(r.pretrigDelta))
	binary.Write(&b, binary.LittleEndian, float32(r.residualStdDev))
	for _, v := range r.modelCoefs {
		binary.Write(&b, binary.LittleEndian, float32(v))
	}
	return b.Bytes()
}

// ---- independent decoders
type wcFile struct {
	Exists   bool
	ParseErr string
	Hdr      map[string]any
	Recs     [][]int // [relative frame, crc of the record's bytes]
	Trailing int
}

func wcDecodeLJH22(path string, frame0 int64) wcFile {
	out := wcFile{Hdr: map[string]any{}, Recs: [][]int{}}
	raw, err := os.ReadFile(path)
	if err != nil {
		return out
	}
	out.Exists = true
	tag := []byte("#End of Header\n")
	i := bytes.Index(raw, tag)
	if i < 0 || !bytes.HasPrefix(raw, []byte("#LJH Memorial File Format\n")) {
		out.ParseErr = "no header"
		return out
	}
	kv := map[string]string{}
	for _, line := range strings.Split(string(raw[:i]), "\n") {
		if j := strings.Index(line, ": "); j > 0 {
			kv[line[:j]] = line[j+2:]
		}
	}
	geti := func(k string) int {
		v, err := strconv.Atoi(strings.TrimSpace(kv[k]))
		if err != nil {
			out.ParseErr = "bad int for " + k
		}
		return v
	}
	for k := range kv {
		if strings.HasPrefix(k, "Row number") {
			out.Hdr["row"] = geti(k)
		}
		if strings.HasPrefix(k, "Column number") {
			out.Hdr["col"] = geti(k)
		}
	}
	out.Hdr["npre"] = geti("Presamples")
	out.Hdr["nsamp"] = geti("Total Samples")
	out.Hdr["rows"] = geti("Number of rows")
	out.Hdr["cols"] = geti("Number of columns")
	out.Hdr["nchan"] = geti("Number of channels")
	out.Hdr["channum"] = geti("Channel")
	out.Hdr["chanidx"] = geti("ChannelIndex (in dastard)")
	out.Hdr["subdiv"] = geti("Subframe divisions")
	out.Hdr["suboff"] = geti("Subframe offset")
	out.Hdr["fps"] = geti("Number of samples per point")
	out.Hdr["name"] = kv["Channel name"]
	out.Hdr["version"] = kv["Save File Format Version"]
	tb, err := strconv.ParseFloat(strings.TrimSpace(kv["Timebase"]), 64)
	if err != nil {
		out.ParseErr = "bad timebase"
	}
	out.Hdr["timebase_f"] = tb
	ws := 2
	if s, ok := kv["Digitized Word Size in Bytes"]; ok {
		ws, _ = strconv.Atoi(s)
	} else if s, ok := kv["Digitized Word Size In Bytes"]; ok {
		ws, _ = strconv.Atoi(s)
	}
	body := raw[i+len(tag):]
	nsamp, _ := out.Hdr["nsamp"].(int)
	subdiv, _ := out.Hdr["subdiv"].(int)
	suboff, _ := out.Hdr["suboff"].(int)
	rl := 16 + ws*nsamp
	if rl <= 16 || subdiv <= 0 {
		out.ParseErr = "bad record length"
		return out
	}
	for len(body) >= rl {
		sf := int64(binary.LittleEndian.Uint64(body[:8]))
		fr := (sf - int64(suboff)) / int64(subdiv)
		out.Recs = append(out.Recs, []int{int(fr - frame0), crc(body[:rl])})
		body = body[rl:]
	}
	out.Trailing = len(body)
	return out
}

func wcDecodeLJH3(path string, frame0 int64) wcFile {
	out := wcFile{Hdr: map[string]any{}, Recs: [][]int{}}
	raw, err := os.ReadFile(path)
	if err != nil {
		return out
	}
	out.Exists = true
	dec := json.NewDecoder(bytes.NewReader(raw))
	var h map[string]any
	if err := dec.Decode(&h); err != nil {
		out.ParseErr = "json header: " + err.Error()
		return out
	}
	off := int(dec.InputOffset())
	if off >= len(raw) || raw[off] != '\n' {
		out.ParseErr = "no newline after header"
		return out
	}
	body := raw[off+1:]
	out.Hdr["timebase_f"], _ = h["frameperiod"].(float64)
	out.Hdr["format"], _ = h["File Format"].(string)
	if tdm, ok := h["TDM"].(map[string]any); ok {
		f := func(k string) int { v, _ := tdm[k].(float64); return int(v) }
		out.Hdr["rows"] = f("NumberOfRows")
		out.Hdr["cols"] = f("NumberOfColumns")
		out.Hdr["subdiv"] = f("SubframeDivisions")
		out.Hdr["suboff"] = f("SubframeOffset")
		out.Hdr["row"] = f("Row")
		out.Hdr["col"] = f("Column")
	} else {
		out.ParseErr = "no TDM"
	}
	for len(body) >= 24 {
		n := int(int32(binary.LittleEndian.Uint32(body[:4])))
		rl := 24 + 2*n
		if n < 0 || len(body) < rl {
			break
		}
		fr := int64(binary.LittleEndian.Uint64(body[8:16]))
		out.Recs = append(out.Recs, []int{int(fr - frame0), crc(body[:rl])})
		body = body[rl:]
	}
	out.Trailing = len(body)
	return out
}

func wcDecodeOFF(path string, frame0 int64) wcFile {
	out := wcFile{Hdr: map[string]any{}, Recs: [][]int{}}
	raw, err := os.ReadFile(path)
	if err != nil {
		return out
	}
	out.Exists = true
	dec := json.NewDecoder(bytes.NewReader(raw))
	var h map[string]any
	if err := dec.Decode(&h); err != nil {
		out.ParseErr = "json header: " + err.Error()
		return out
	}
	off := int(dec.InputOffset())
	if off >= len(raw) || raw[off] != '\n' {
		out.ParseErr = "no newline after header"
		return out
	}
	body := raw[off+1:]
	fi := func(m map[string]any, k string) int { v, _ := m[k].(float64); return int(v) }
	out.Hdr["chanidx"] = fi(h, "ChannelIndex")
	out.Hdr["channum"] = fi(h, "ChannelNumberMatchingName")
	out.Hdr["name"], _ = h["ChannelName"].(string)
	out.Hdr["npre"] = fi(h, "MaxPresamples")
	out.Hdr["nsamp"] = fi(h, "MaxSamples")
	out.Hdr["nbases"] = fi(h, "NumberOfBases")
	out.Hdr["timebase_f"], _ = h["FramePeriodSeconds"].(float64)
	out.Hdr["format"], _ = h["FileFormat"].(string)
	out.Hdr["version"], _ = h["FileFormatVersion"].(string)
	prow, pcol, brow, bcol := 0, 0, 0, 0
	if mi, ok := h["ModelInfo"].(map[string]any); ok {
		if p, ok := mi["Projectors"].(map[string]any); ok {
			prow, pcol = fi(p, "Rows"), fi(p, "Cols")
		}
		if p, ok := mi["Basis"].(map[string]any); ok {
			brow, bcol = fi(p, "Rows"), fi(p, "Cols")
		}
		out.Hdr["desc"], _ = mi["Description"].(string)
	}
	out.Hdr["prow"], out.Hdr["pcol"], out.Hdr["brow"], out.Hdr["bcol"] = prow, pcol, brow, bcol
	if ri, ok := h["ReadoutInfo"].(map[string]any); ok {
		out.Hdr["rows"] = fi(ri, "NumberOfRows")
		out.Hdr["cols"] = fi(ri, "NumberOfColumns")
		out.Hdr["nchan"] = fi(ri, "NumberOfChans")
		out.Hdr["subdiv"] = fi(ri, "SubframeDivisions")
		out.Hdr["suboff"] = fi(ri, "SubframeOffset")
		out.Hdr["row"] = fi(ri, "RowNum")
		out.Hdr["col"] = fi(ri, "ColumnNum")
	}
	np, nb := 8*prow*pcol, 8*brow*bcol
	if len(body) < np+nb {
		out.ParseErr = "matrices truncated"
		return out
	}
	out.Hdr["pcrc"] = crc(body[:np])
	out.Hdr["bcrc"] = crc(body[np : np+nb])
	body = body[np+nb:]
	rl := 36 + 4*prow
	for len(body) >= rl {
		fr := int64(binary.LittleEndian.Uint64(body[8:16]))
		out.Recs = append(out.Recs, []int{int(fr - frame0), crc(body[:rl])})
		body = body[rl:]
	}
	out.Trailing = len(body)
	return out
}

func wcMatBytes(m *mat.Dense) []byte {
	r, c := m.Dims()
	var b bytes.Buffer
	for i := 0; i < r; i++ {
		for j := 0; j < c; j++ {
			binary.Write(&b, binary.LittleEndian, m.At(i, j))
		}
	}
	return b.Bytes()
}

func wcPPM(got float64, want float64) int {
	if want == 0 || math.IsNaN(got) {
		return 999999
	}
	x := math.Round(1e6 * (got - want) / want)
	if math.Abs(x) > 999999 {
		return 999999
	}
	return int(x)
}

// wcEmitFiles decodes everything in the session directory and logs it.
func wcEmitFiles(sc *wcScen, ds *AnySource, pattern string, dirIdx int, projs map[int]*mat.Dense, bases map[int]*mat.Dense) {
	if pattern == "" {
		return
	}
	timebase := 1.0 / sc.Rate
	for c := 0; c < sc.Nchan; c++ {
		name := ds.chanNames[c]
		for _, t := range []string{"L22", "L3", "OFF"} {
			var f wcFile
			switch t {
			case "L22":
				f = wcDecodeLJH22(fmt.Sprintf(pattern, name, "ljh"), sc.Frame0)
			case "L3":
				f = wcDecodeLJH3(fmt.Sprintf(pattern, name, "ljh3"), sc.Frame0)
			case "OFF":
				f = wcDecodeOFF(fmt.Sprintf(pattern, name, "off"), sc.Frame0)
			}
			if tb, ok := f.Hdr["timebase_f"].(float64); ok {
				f.Hdr["timebase_ppm"] = wcPPM(tb, timebase)
				delete(f.Hdr, "timebase_f")
			}
			vEmit(vmap{"ev": "File", "dir": dirIdx, "c": c, "t": t, "exists": f.Exists, "perr": f.ParseErr,
				"hdr": f.Hdr, "recs": f.Recs, "trailing": f.Trailing})
		}
	}
	// side files
	side := vmap{"ev": "Side", "dir": dirIdx}
	stateLines := []string{}
	stateOK := true
	if b, err := os.ReadFile(fmt.Sprintf(pattern, "experiment_state", "txt")); err == nil {
		lines := strings.Split(strings.TrimSuffix(string(b), "\n"), "\n")
		if len(lines) == 0 || !strings.HasPrefix(lines[0], "#") {
			stateOK = false
		}
		last := int64(0)
		for _, l := range lines[1:] {
			parts := strings.SplitN(l, ", ", 2)
			ts, err := strconv.ParseInt(parts[0], 10, 64)
			if len(parts) != 2 || err != nil || ts < last {
				stateOK = false
				continue
			}
			last = ts
			stateLines = append(stateLines, parts[1])
		}
		side["state_exists"] = true
	} else {
		side["state_exists"] = false
	}
	side["state"] = stateLines
	side["state_ok"] = stateOK
	ext := []int{}
	extOK := true
	if b, err := os.ReadFile(fmt.Sprintf(pattern, "external_trigger", "bin")); err == nil {
		i := bytes.IndexByte(b, '\n')
		if i < 0 || b[0] != '#' {
			extOK = false
		} else {
			body := b[i+1:]
			if len(body)%8 != 0 {
				extOK = false
			}
			for len(body) >= 8 {
				ext = append(ext, int(int64(binary.LittleEndian.Uint64(body[:8]))-sc.Frame0))
				body = body[8:]
			}
		}
		side["ext_exists"] = true
	} else {
		side["ext_exists"] = false
	}
	side["ext"] = ext
	side["ext_ok"] = extOK
	drops := [][]int{}
	dropOK := true
	if b, err := os.ReadFile(fmt.Sprintf(pattern, "data_drop", "txt")); err == nil {
		sc2 := bufio.NewScanner(bytes.NewReader(b))
		first := true
		for sc2.Scan() {
			l := sc2.Text()
			if first {
				first = false
				if !strings.HasPrefix(l, "#") {
					dropOK = false
				}
				continue
			}
			fs := strings.Fields(l)
			if len(fs) != 2 {
				dropOK = false
				continue
			}
			a, e1 := strconv.ParseInt(fs[0], 10, 64)
			n, e2 := strconv.Atoi(fs[1])
			if e1 != nil || e2 != nil {
				dropOK = false
				continue
			}
			drops = append(drops, []int{int(a - sc.Frame0), n})
		}
		side["drop_exists"] = true
	} else {
		side["drop_exists"] = false
	}
	side["drops"] = drops
	side["drop_ok"] = dropOK
	vEmit(side)
}

// wcGeom: row, column and array size of data stream i.  Every other scenario has a source of MIXED geometry (cards of
// different size, channel groups of unequal length): the streams of the second half belong to an array with one more
// row and its own column count.
func wcGeom(sc *wcScen, i int) (row, col, nrows, ncols int) {
	if sc.Nchan < 2 || (sc.Nchan+sc.Npre)%2 == 0 {
		return i % sc.Rows, i / sc.Rows, sc.Rows, sc.Cols
	}
	half := sc.Nchan / 2
	if i < half {
		nc := (half + sc.Rows - 1) / sc.Rows
		return i % sc.Rows, i / sc.Rows, sc.Rows, nc
	}
	j, nr := i-half, sc.Rows+1
	nc := (sc.Nchan - half + nr - 1) / nr
	return j % nr, j / nr, nr, nc
}

func wcRun(id int, sc *wcScen) {
	base, err := os.MkdirTemp("", "verifwc")
	if err != nil {
		panic(err)
	}
	defer os.RemoveAll(base)
	ds := &AnySource{nchan: sc.Nchan, name: "VerifSource"}
	ds.sampleRate = sc.Rate
	ds.samplePeriod = time.Duration(roundint(1e9 / sc.Rate))
	ds.PrepareChannels()
	ds.subframeDivisions = sc.SubDiv
	ds.rowColCodes = make([]RowColCode, sc.Nchan)
	for i := 0; i < sc.Nchan; i++ {
		r, c, nr, nc := wcGeom(sc, i)
		ds.rowColCodes[i] = rcCode(r, c, nr, nc)
		ds.subframeOffsets[i] = (i * 3) % sc.SubDiv
		ds.chanNumbers[i] = 10 + i
		ds.chanNames[i] = fmt.Sprintf("chan%d", 10+i)
		if sc.Nchan >= 2 && (sc.Nchan+sc.Nsamp)%2 == 0 {
			// a TDM-like source: error / feedback partners share one channel number and differ in their names
			ds.chanNumbers[i] = 10 + i/2
			ds.chanNames[i] = fmt.Sprintf([]string{"err%d", "chan%d"}[i%2], 10+i/2)
		}
	}
	if err := ds.PrepareRun(sc.Npre, sc.Nsamp); err != nil {
		panic(err)
	}
	all := make([]int, sc.Nchan)
	for i := range all {
		all[i] = i
	}
	ts := TriggerState{AutoTrigger: true, AutoDelay: 0}
	if sc.EMVar {
		ts = TriggerState{EdgeMulti: true, EMTState: EMTState{mode: EMTRecordsVariableLength, threshold: 12, nmonotone: 1}}
	}
	if err := ds.ChangeTriggerState(&FullTriggerState{ChannelIndices: all, TriggerState: ts}); err != nil {
		panic(err)
	}
	projs := map[int]*mat.Dense{}
	bases := map[int]*mat.Dense{}
	chans := []vmap{}
	for _, c := range sc.Proj {
		p := mat.NewDense(sc.Nbases, sc.Nsamp, nil)
		b := mat.NewDense(sc.Nsamp, sc.Nbases, nil)
		for i := 0; i < sc.Nbases; i++ {
			for j := 0; j < sc.Nsamp; j++ {
				p.Set(i, j, float64((i+1)*(j+c+1)%7)-3+0.125*float64(c))
				b.Set(j, i, float64((i+2)*(j+1)%5)-2+0.25*float64(i))
			}
		}
		if err := ds.ConfigureProjectorsBases(c, p, b, fmt.Sprintf("model for %d", c)); err != nil {
			panic(err)
		}
		projs[c], bases[c] = p, b
	}
	for i := 0; i < sc.Nchan; i++ {
		gr, gc, gnr, gnc := wcGeom(sc, i)
		cm := vmap{"c": i, "name": ds.chanNames[i], "channum": ds.chanNumbers[i], "row": gr, "col": gc, "nrows": gnr, "ncols": gnc,
			"suboff": ds.subframeOffsets[i], "hasproj": projs[i] != nil, "pcrc": 0, "bcrc": 0, "desc": ""}
		if projs[i] != nil {
			cm["pcrc"] = crc(wcMatBytes(projs[i]))
			cm["bcrc"] = crc(wcMatBytes(bases[i]))
			cm["desc"] = fmt.Sprintf("model for %d", i)
		}
		chans = append(chans, cm)
	}
	projList := append([]int{}, sc.Proj...)
	sort.Ints(projList)
	vEmit(vmap{"ev": "Config", "scen": id, "origin": sc.Origin, "nchan": sc.Nchan, "proj": projList, "npre": sc.Npre, "nsamp": sc.Nsamp,
		"nbases": sc.Nbases, "rows": sc.Rows, "cols": sc.Cols, "subdiv": sc.SubDiv, "chans": chans, "signed": sc.Signed, "emvar": sc.EMVar})
	vTakeRecords()

	dirIdx := map[string]int{}
	dirCounter := 0
	today := time.Now().Format("20060102")
	baseB := filepath.Join(base, "second")
	os.MkdirAll(baseB, 0775)
	blocker := filepath.Join(base, "a-regular-file")
	os.WriteFile(blocker, []byte("x"), 0664)
	badPath := filepath.Join(blocker, "data") // no directory can be made below a regular file
	baseIdx := func(p string) int { // 0 none, 1 base, 2 second base, 3 the uncreatable one, 4 anything else
		switch p {
		case "":
			return 0
		case base:
			return 1
		case baseB:
			return 2
		case badPath:
			return 3
		}
		return 4
	}
	listDirs := func() map[string]bool {
		m := map[string]bool{}
		for _, b := range []string{base, baseB} {
			es, _ := os.ReadDir(filepath.Join(b, today))
			for _, e := range es {
				m[filepath.Join(b, today, e.Name())] = true
			}
		}
		return m
	}
	report := func() (vmap, string) {
		ws := ds.ComputeWritingState()
		d := 0
		dir := ""
		if ws.FilenamePattern != "" {
			dir = filepath.Dir(ws.FilenamePattern)
			if _, ok := dirIdx[dir]; !ok {
				dirCounter++
				dirIdx[dir] = dirCounter
			}
			d = dirIdx[dir]
		}
		return vmap{"active": ws.Active, "paused": ws.Paused, "l22": ws.WriteLJH22, "l3": ws.WriteLJH3, "off": ws.WriteOFF, "dir": d, "base": baseIdx(ws.BasePath)}, ws.FilenamePattern
	}
	nextFrame := FrameIndex(sc.Frame0)
	t0 := time.Unix(0, sc.Time0)
	extCounter := int64(0)
	lastPattern := ""
	lastDir := 0
	allPatterns := map[string]int{}
	crashed := false
	for _, st := range sc.Steps {
		if crashed {
			break
		}
		func() {
			defer func() {
				if r := recover(); r != nil {
					vEmit(vmap{"ev": "Panic", "step": st.K, "msg": fmt.Sprint(r)})
					crashed = true
				}
			}()
			switch st.K {
			case "rmrun":
				// the operator removes the directory of the earliest run of the day that is not being written
				ws := ds.ComputeWritingState()
				cur := ""
				if ws.FilenamePattern != "" {
					cur = filepath.Dir(ws.FilenamePattern)
				}
				victim := ""
				for d := range dirIdx {
					if d != cur && (victim == "" || d < victim) {
						victim = d
					}
				}
				if victim != "" {
					os.RemoveAll(victim)
					vEmit(vmap{"ev": "RmRun", "dir": dirIdx[victim]})
					delete(dirIdx, victim)
					for p := range allPatterns {
						if filepath.Dir(p) == victim {
							delete(allPatterns, p)
						}
					}
				}
			case "req":
				before := listDirs()
				req := st.Req
				if st.Label != "" {
					req = st.Req + " " + st.Label
				}
				reqPath, wantBase := base, 1
				switch st.Path {
				case "B":
					reqPath, wantBase = baseB, 2
				case "keep":
					reqPath, wantBase = "", 0
					if ds.ComputeWritingState().BasePath == "" {
						reqPath, wantBase = base, 1 // never let a START without a path run before a base path exists (it would write below the working directory)
					}
				case "bad":
					reqPath, wantBase = badPath, 3
				}
				cfg := &WriteControlConfig{Request: req, Path: reqPath, WriteLJH22: has(st.Types, "L22"), WriteLJH3: has(st.Types, "L3"), WriteOFF: has(st.Types, "OFF")}
				_, patBefore := report()
				dBefore := 0
				if patBefore != "" {
					dBefore = dirIdx[filepath.Dir(patBefore)]
				}
				err := ds.WriteControl(cfg)
				rep, pat := report()
				isnew := false
				if pat != "" {
					isnew = !before[filepath.Dir(pat)]
				}
				types := append([]string{}, st.Types...)
				sort.Strings(types)
				open := 0
				for _, dsp := range ds.processors {
					if dsp.HasLJH22() || dsp.HasLJH3() || dsp.HasOFF() {
						open++
					}
				}
				dirBase := 0
				if pat != "" {
					dirBase = baseIdx(filepath.Dir(filepath.Dir(filepath.Dir(pat)))) // <base>/<date>/<run>/<pattern>
				}
				vEmit(vmap{"ev": "Req", "req": strings.ToUpper(st.Req), "label": st.Label, "types": types, "ok": err == nil, "rep": rep, "dirnew": isnew, "open": open,
					"wantbase": wantBase, "dirbase": dirBase})
				if pat != "" {
					lastPattern, lastDir = pat, dirIdx[filepath.Dir(pat)]
					allPatterns[pat] = lastDir
				}
				if strings.ToUpper(st.Req) == "PAUSE" && err == nil && pat != "" {
					// PAUSE flushes: a client pauses in order to read complete files.  What each file of the session holds at
					// the moment the request has returned (C07: everything accepted before a flush call returns is in the file)
					for c := 0; c < sc.Nchan; c++ {
						name := ds.chanNames[c]
						for _, t := range []string{"L22", "L3", "OFF"} {
							var f wcFile
							switch t {
							case "L22":
								f = wcDecodeLJH22(fmt.Sprintf(pat, name, "ljh"), sc.Frame0)
							case "L3":
								f = wcDecodeLJH3(fmt.Sprintf(pat, name, "ljh3"), sc.Frame0)
							case "OFF":
								f = wcDecodeOFF(fmt.Sprintf(pat, name, "off"), sc.Frame0)
							}
							frames := []any{}
							for _, r := range f.Recs {
								frames = append(frames, r[0])
							}
							vEmit(vmap{"ev": "FilePause", "dir": dirIdx[filepath.Dir(pat)], "c": c, "t": t, "frames": frames, "trailing": f.Trailing})
						}
					}
				}
				if strings.ToUpper(st.Req) == "STOP" && err == nil && patBefore != "" {
					wcEmitFiles(sc, ds, patBefore, dBefore, projs, bases)
					lastPattern = ""
				}
			case "label":
				err := ds.SetExperimentStateLabel(time.Now(), st.Label)
				vEmit(vmap{"ev": "Label", "label": st.Label, "ok": err == nil})
			case "block":
				L := st.Len
				if L <= 0 {
					L = sc.Nsamp
				}
				block := new(dataBlock)
				block.segments = make([]DataSegment, sc.Nchan)
				elapsed := time.Duration(int64(nextFrame)-sc.Frame0) * ds.samplePeriod
				for c := 0; c < sc.Nchan; c++ {
					data := make([]RawType, L)
					for i := range data {
						f := int64(nextFrame) + int64(i)
						data[i] = RawType((f*int64(7+c) + int64(c)*1000 + (f%13)*(f%5)) & 0xffff)
					}
					block.segments[c] = DataSegment{rawData: data, framesPerSample: 1, framePeriod: ds.samplePeriod,
						firstFrameIndex: nextFrame, firstTime: t0.Add(elapsed), signed: sc.Signed, droppedFrames: st.Drop}
				}
				block.nSamp = L
				ext := []int{}
				for range st.Ext {
					extCounter++
					block.externalTriggerRowcounts = append(block.externalTriggerRowcounts, sc.Frame0+extCounter)
					ext = append(ext, int(extCounter))
				}
				vEmit(vmap{"ev": "Block", "first": int(int64(nextFrame) - sc.Frame0), "n": L, "ext": ext, "drop": st.Drop})
				if err := ds.ProcessSegments(block); err != nil {
					vEmit(vmap{"ev": "Panic", "step": "block", "msg": "ProcessSegments error: " + err.Error()})
					crashed = true
					return
				}
				nextFrame += FrameIndex(L)
				for _, batch := range vTakeRecords() {
					for _, r := range batch {
						c := r.channelIndex
						vEmit(vmap{"ev": "Pub", "c": c, "f": int(int64(r.trigFrame) - sc.Frame0), "n": len(r.data), "npre": r.presamples,
							"x22": crc(wcLJH22Bytes(r, sc.SubDiv, ds.subframeOffsets[c])), "x3": crc(wcLJH3Bytes(r)), "xoff": crc(wcOFFBytes(r))})
					}
				}
				vEmit(vmap{"ev": "BlockEnd"})
			}
		}()
	}
	// final STOP so that files are complete, then decode the last session
	func() {
		defer func() {
			if r := recover(); r != nil {
				vEmit(vmap{"ev": "Panic", "step": "final", "msg": fmt.Sprint(r)})
			}
		}()
		if lastPattern != "" && !crashed {
			err := ds.WriteControl(&WriteControlConfig{Request: "STOP"})
			rep, _ := report()
			vEmit(vmap{"ev": "Req", "req": "STOP", "label": "", "types": []string{}, "ok": err == nil, "rep": rep, "dirnew": false, "open": 0})
			wcEmitFiles(sc, ds, lastPattern, lastDir, projs, bases)
		}
	}()
	// every session directory once more: nothing may have been stored there after its session ended
	if !crashed {
		pats := []string{}
		for p := range allPatterns {
			pats = append(pats, p)
		}
		sort.Strings(pats)
		for _, p := range pats {
			for c := 0; c < sc.Nchan; c++ {
				name := ds.chanNames[c]
				for _, t := range []string{"L22", "L3", "OFF"} {
					var f wcFile
					switch t {
					case "L22":
						f = wcDecodeLJH22(fmt.Sprintf(p, name, "ljh"), sc.Frame0)
					case "L3":
						f = wcDecodeLJH3(fmt.Sprintf(p, name, "ljh3"), sc.Frame0)
					case "OFF":
						f = wcDecodeOFF(fmt.Sprintf(p, name, "off"), sc.Frame0)
					}
					frames := []any{}
					for _, r := range f.Recs {
						frames = append(frames, r[0])
					}
					vEmit(vmap{"ev": "FileFinal", "dir": allPatterns[p], "c": c, "t": t, "frames": frames})
				}
			}
		}
	}
	vEmit(vmap{"ev": "End"})
}

func wcRandom(rng interface{ Intn(int) int }, i int) *wcScen {
	sc := &wcScen{Origin: "random"}
	sc.Nchan = 1 + rng.Intn(3)
	for c := 0; c < sc.Nchan; c++ {
		if rng.Intn(2) == 0 {
			sc.Proj = append(sc.Proj, c)
		}
	}
	if rng.Intn(5) == 0 {
		sc.EMVar = true
		sc.Proj = nil // projections of variable-length records are not defined
	}
	sc.Npre = 3 + rng.Intn(4)
	sc.Nsamp = sc.Npre + 1 + rng.Intn(8)
	sc.Nbases = 1 + rng.Intn(3)
	sc.Rows = 1 + rng.Intn(3)
	sc.Cols = (sc.Nchan + sc.Rows - 1) / sc.Rows
	sc.SubDiv = 1 + rng.Intn(64)
	frames := []int64{0, 1, 1000, 1 << 31, 1 << 40, (1 << 62) / int64(sc.SubDiv+1)}
	sc.Frame0 = frames[rng.Intn(len(frames))]
	times := []int64{0, 1, 1700000000123456789, 4102444800000000000, 9000000000000000000}
	sc.Time0 = times[rng.Intn(len(times))]
	// incl. rates whose period is not a whole number of nanoseconds (the header must state 1/rate, not a rounded period)
	rates := []float64{1000, 12500, 244140.625, 1e6, 3.3, 150000, 30000, 245760}
	sc.Rate = rates[rng.Intn(len(rates))]
	sc.Signed = rng.Intn(2) == 0
	n := 4 + rng.Intn(24)
	alltypes := []string{"L22", "L3", "OFF"}
	started := false
	for j := 0; j < n; j++ {
		var st wcStep
		x := rng.Intn(20)
		if j > 0 && sc.Steps[j-1].K == "req" && sc.Steps[j-1].Req == "PAUSE" && rng.Intn(3) == 0 {
			// a rejected UNPAUSE right after a PAUSE, then data: the refusal must leave the channels paused
			sc.Steps = append(sc.Steps, wcStep{K: "req", Req: []string{"UNPAUSEX", "UNPAUSE ", "UNPAUSE\tlabel"}[rng.Intn(3)]})
			j++
			x = 19
		}
		switch {
		case x < 5:
			st = wcStep{K: "req", Req: "START"}
			for _, t := range alltypes {
				if rng.Intn(2) == 0 {
					st.Types = append(st.Types, t)
				}
			}
			if rng.Intn(3) == 0 {
				st.Req = "start"
			}
			switch y := rng.Intn(10); {
			case y < 2:
				st.Path = "B"
			case y < 4 && started:
				st.Path = "keep"
			case y < 5:
				st.Path = "bad"
			}
			if st.Path != "bad" && len(st.Types) > 0 {
				started = true // (an approximation of "a START has been accepted": a first START without a path is never generated)
			}
		case x < 7:
			st = wcStep{K: "req", Req: "STOP"}
		case x < 9:
			st = wcStep{K: "req", Req: "PAUSE"}
		case x < 11:
			st = wcStep{K: "req", Req: "UNPAUSE"}
			if rng.Intn(2) == 0 {
				st.Label = []string{"A", "B", "calibration run", "x,y"}[rng.Intn(4)]
			}
		case x < 12:
			st = wcStep{K: "req", Req: []string{"BOGUS", "", "STAR", "UNPAUSEX"}[rng.Intn(4)]}
		case x < 14 && rng.Intn(4) == 0:
			st = wcStep{K: "rmrun"}
		case x < 14:
			st = wcStep{K: "label", Label: []string{"A", "B", "STOP", "state 3"}[rng.Intn(4)]}
		default:
			st = wcStep{K: "block", Drop: 0, Len: 1 + rng.Intn(3*sc.Nsamp)}
			for k := rng.Intn(3); k > 0; k-- {
				st.Ext = append(st.Ext, 1)
			}
			if rng.Intn(12) == 0 { // a burst: more external triggers in one block than the file's write buffer holds
				for k := 500 + rng.Intn(300); k > 0; k-- {
					st.Ext = append(st.Ext, 1)
				}
			}
			if rng.Intn(4) == 0 {
				st.Drop = 1 + rng.Intn(5)
			}
		}
		sc.Steps = append(sc.Steps, st)
	}
	return sc
}

func TestVerifWC(t *testing.T) {
	var scens []*wcScen
	vLoadScen(&scens)
	for _, sc := range scens {
		// defaults for model-generated histories
		if sc.Npre == 0 {
			sc.Npre, sc.Nsamp = 3, 6
		}
		if sc.Nbases == 0 {
			sc.Nbases = 2
		}
		if sc.Rows == 0 {
			sc.Rows, sc.Cols = sc.Nchan, 1
		}
		if sc.SubDiv == 0 {
			sc.SubDiv = 4
		}
		if sc.Rate == 0 {
			sc.Rate = 10000
		}
		if sc.Time0 == 0 {
			sc.Time0 = 1700000000000000000
		}
	}
	rng := vRng()
	for i := 0; i < vNRandom; i++ {
		scens = append(scens, wcRandom(rng, i))
	}
	for i, sc := range scens {
		wcRun(i+1, sc)
	}
}
