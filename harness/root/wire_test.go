package dastard

// Driver for C14: records with extreme fields through the real message builders, directly and over a real ZMQ
// PUB/SUB pair; the field bytes are computed independently here (encoding/binary, math.Float32bits).

import (
	"bytes"
	"encoding/binary"
	"math"
	"math/rand"
	"os"
	"sync"
	"testing"
	"time"

	"github.com/pebbe/zmq4"
)

func wiBytes(b []byte) []int {
	out := make([]int, len(b))
	for i, v := range b {
		out[i] = int(v)
	}
	return out
}
func wiU(n int, v uint64) []int {
	b := make([]byte, 8)
	binary.LittleEndian.PutUint64(b, v)
	return wiBytes(b[:n])
}
func wiF32(v float32) []int { return wiU(4, uint64(math.Float32bits(v))) }

func wiRecord(rng *rand.Rand, i int) *DataRecord {
	chans := []int{0, 1, 255, 256, 4095, 65535, rng.Intn(65536)}
	lens := []int{0, 1, 2, 7, 100, 1000, 5000}
	frames := []int64{0, 1, -1, 1 << 31, 1 << 40, math.MaxInt64, math.MinInt64, rng.Int63()}
	times := []int64{0, 1, 1700000000123456789, -1, math.MaxInt64, 4102444800000000000}
	floats := []float64{0, 1, -1, 1e-30, 1e30, math.NaN(), math.Inf(1), math.Inf(-1), 65535.5, float64(rng.Intn(1000)) / 7}
	n := lens[rng.Intn(len(lens))]
	r := &DataRecord{data: make([]RawType, n), trigFrame: FrameIndex(frames[rng.Intn(len(frames))]), trigTime: time.Unix(0, times[rng.Intn(len(times))]),
		signed: rng.Intn(2) == 0, channelIndex: chans[rng.Intn(len(chans))], presamples: []int{0, 1, n / 2, n, 1 << 20}[rng.Intn(5)],
		voltsPerArb: float32(floats[rng.Intn(len(floats))]), sampPeriod: float32(floats[rng.Intn(len(floats))]),
		pretrigMean: floats[rng.Intn(len(floats))], pulseAverage: floats[rng.Intn(len(floats))], pulseRMS: floats[rng.Intn(len(floats))],
		peakValue: floats[rng.Intn(len(floats))], residualStdDev: floats[rng.Intn(len(floats))]}
	for k := range r.data {
		r.data[k] = RawType(rng.Intn(65536))
	}
	nc := []int{0, 1, 3, 40}[rng.Intn(4)]
	r.modelCoefs = make([]float64, nc)
	for k := range r.modelCoefs {
		r.modelCoefs[k] = floats[rng.Intn(len(floats))]
	}
	return r
}

// wiStreamSamples, when set, is the independent statement of the samples a record must carry (the stream's content at
// the record's frames): the payload expectation then does not read the record's own data slice.
var wiStreamSamples []RawType

func wiEmit(id int, kind, via string, r *DataRecord, parts [][]byte) {
	var hdr, pay []byte
	if len(parts) > 0 {
		hdr = parts[0]
	}
	if len(parts) > 1 {
		pay = parts[1]
	}
	fields := vmap{"channel": wiU(2, uint64(uint16(r.channelIndex))), "npre": wiU(4, uint64(uint32(r.presamples))), "nsamp": wiU(4, uint64(uint32(len(r.data)))),
		"time": wiU(8, uint64(r.trigTime.UnixNano())), "frame": wiU(8, uint64(r.trigFrame))}
	var expect []int
	if kind == "record" {
		dt := 3
		if r.signed {
			dt = 2
		}
		fields["version"], fields["dtype"] = wiU(1, 0), wiU(1, uint64(dt))
		fields["period"], fields["vpa"] = wiF32(r.sampPeriod), wiF32(r.voltsPerArb)
		samples := r.data
		if wiStreamSamples != nil {
			samples = wiStreamSamples
		}
		for _, v := range samples {
			expect = append(expect, int(v&0xff), int(v>>8))
		}
	} else {
		fields["version"] = wiU(2, 0)
		fields["ptmean"], fields["peak"], fields["rms"] = wiF32(float32(r.pretrigMean)), wiF32(float32(r.peakValue)), wiF32(float32(r.pulseRMS))
		fields["avg"], fields["resid"] = wiF32(float32(r.pulseAverage)), wiF32(float32(r.residualStdDev))
		for _, v := range r.modelCoefs {
			expect = append(expect, wiU(8, math.Float64bits(v))...)
		}
	}
	if expect == nil {
		expect = []int{}
	}
	vEmit(vmap{"ev": "Msg", "scen": id, "kind": kind, "via": via, "nparts": len(parts), "header": wiBytes(hdr), "payload": wiBytes(pay), "fields": fields,
		"signed": r.signed, "payload_expect": expect, "chan2": wiU(2, uint64(uint16(r.channelIndex)))})
}

func TestVerifWire(t *testing.T) {
	rng := vRng()
	n := vNRandom
	id := 0
	recs := []*DataRecord{}
	for i := 0; i < n; i++ {
		r := wiRecord(rng, i)
		recs = append(recs, r)
		id++
		wiEmit(id, "record", "direct", r, messageRecords(r))
		id++
		wiEmit(id, "summary", "direct", r, messageSummaries(r))
	}
	// the publisher lags behind: records cut from a real stream by ProcessSegments wait in the publication queue while
	// the source processes (trims, appends) further blocks, and only then are the messages built.  A message must
	// carry the samples the stream had at the record's frames when the record was made.
	{
		const nchan, npre, nsamp = 2, 4, 16
		val := func(c int, f int64) RawType { return RawType((f*7 + int64(c)*1000 + (f%13)*(f%5) + 17) & 0xffff) }
		owned := false
		if PubRecordsChan == nil { // (real-socket mode: this stage owns the queues, the sockets are opened further down)
			PubRecordsChan = make(chan []*DataRecord, 500)
			PubSummariesChan = make(chan []*DataRecord, 500)
			owned = true
		}
		ds := &AnySource{nchan: nchan, name: "VerifWire"}
		ds.sampleRate = 10000
		ds.samplePeriod = 100 * time.Microsecond
		ds.PrepareChannels()
		ds.rowColCodes = make([]RowColCode, nchan)
		if err := ds.PrepareRun(npre, nsamp); err != nil {
			t.Fatal(err)
		}
		if err := ds.ChangeTriggerState(&FullTriggerState{ChannelIndices: []int{0, 1}, TriggerState: TriggerState{AutoTrigger: true, AutoDelay: 0}}); err != nil {
			t.Fatal(err)
		}
		vTakeRecords()
		frame0 := int64(1) << 33
		next := frame0
		t0 := time.Unix(1700000000, 0)
		held := []*DataRecord{}
		for b, L := range []int{64, 200, 48, 130, 31, 90} {
			block := new(dataBlock)
			block.segments = make([]DataSegment, nchan)
			for c := 0; c < nchan; c++ {
				data := make([]RawType, L)
				for i := range data {
					data[i] = val(c, next+int64(i))
				}
				block.segments[c] = DataSegment{rawData: data, framesPerSample: 1, framePeriod: ds.samplePeriod, firstFrameIndex: FrameIndex(next),
					firstTime: t0.Add(time.Duration(next-frame0) * ds.samplePeriod)}
			}
			block.nSamp = L
			if err := ds.ProcessSegments(block); err != nil {
				t.Fatal(err)
			}
			next += int64(L)
			if b%2 == 1 { // the queue is looked at only every other block, and nothing is encoded yet
				time.Sleep(5 * time.Millisecond)
				for _, batch := range vTakeRecords() {
					held = append(held, batch...)
				}
			}
		}
		time.Sleep(5 * time.Millisecond)
		for _, batch := range vTakeRecords() {
			held = append(held, batch...)
		}
		for _, r := range held {
			want := make([]RawType, len(r.data))
			for i := range want {
				want[i] = val(r.channelIndex, int64(r.trigFrame)-int64(r.presamples)+int64(i))
			}
			wiStreamSamples = want
			id++
			wiEmit(id, "record", "pipeline-lagging", r, messageRecords(r))
			wiStreamSamples = nil
		}
		if owned {
			PubRecordsChan, PubSummariesChan = nil, nil
		}
		if len(held) < 20 {
			t.Fatalf("pipeline-lagging stage: only %d records", len(held))
		}
	}
	// messages are values: one that has been built must not change when further ones are built (a publisher holds a
	// message while others are encoded).  Build batches with both builders interleaved, look at them afterwards.
	for b := 0; b+8 <= len(recs) && b < 160; b += 8 {
		type held struct {
			kind  string
			r     *DataRecord
			parts [][]byte
		}
		var hs []held
		for k := 0; k < 8; k++ {
			r := recs[b+k]
			hs = append(hs, held{"record", r, messageRecords(r)}, held{"summary", r, messageSummaries(r)})
		}
		for _, h := range hs {
			id++
			wiEmit(id, h.kind, "held", h.r, h.parts)
		}
	}
	// the two publishers are two goroutines that encode the same batch at the same time (startSocket runs one goroutine
	// per PUB socket): both builders run concurrently here, many rounds, every message is logged afterwards
	{
		type built struct {
			r     *DataRecord
			parts [][]byte
		}
		rounds := 400
		sub := recs
		if len(sub) > 24 {
			sub = sub[:24]
		}
		outR := make([][]built, rounds)
		outS := make([][]built, rounds)
		var wg sync.WaitGroup
		wg.Add(2)
		go func() {
			defer wg.Done()
			for k := 0; k < rounds; k++ {
				for _, r := range sub {
					outR[k] = append(outR[k], built{r, messageRecords(r)})
				}
			}
		}()
		go func() {
			defer wg.Done()
			for k := 0; k < rounds; k++ {
				for _, r := range sub {
					outS[k] = append(outS[k], built{r, messageSummaries(r)})
				}
			}
		}()
		wg.Wait()
		// log every message of a few rounds, and of the others only those that differ from the sequentially built one
		same := func(a, b [][]byte) bool {
			if len(a) != len(b) {
				return false
			}
			for i := range a {
				if !bytes.Equal(a[i], b[i]) {
					return false
				}
			}
			return true
		}
		for k := 0; k < rounds; k++ {
			for _, x := range outR[k] {
				if k < 2 || !same(x.parts, messageRecords(x.r)) {
					id++
					wiEmit(id, "record", "concurrent", x.r, x.parts)
				}
			}
			for _, x := range outS[k] {
				if k < 2 || !same(x.parts, messageSummaries(x.r)) {
					id++
					wiEmit(id, "summary", "concurrent", x.r, x.parts)
				}
			}
		}
	}
	// the same records through the real publishers: DataPublisher.SetPubRecords / SetPubSummaries open the PUB sockets
	// (VERIF_REAL_ZMQ=1: TestMain leaves the publication channels to the code), PublishData hands slices to the two
	// publisher goroutines, SUB sockets receive.  Single-record slices first, then slices with several records of
	// DIFFERENT lengths and channels, as PublishData gets them for one segment of edge-multi variable-length records:
	// every message must describe its own record.
	if os.Getenv("VERIF_REAL_ZMQ") != "" {
		Ports.Trigs, Ports.Summaries = vFreePort("tcp"), vFreePort("tcp")
		dp := &DataPublisher{}
		dp.SetPubRecords()
		dp.SetPubSummaries()
		subs := map[string]*zmq4.Socket{}
		for kind, port := range map[string]int{"record": Ports.Trigs, "summary": Ports.Summaries} {
			sub, err := zmq4.NewSocket(zmq4.SUB)
			if err != nil {
				t.Fatal(err)
			}
			sub.SetSubscribe("")
			sub.SetRcvhwm(10000)
			if err = sub.Connect("tcp://localhost:" + itoa(port)); err != nil {
				t.Fatal(err)
			}
			subs[kind] = sub
		}
		time.Sleep(400 * time.Millisecond)
		recvOne := func(sub *zmq4.Socket) [][]byte {
			deadline := time.Now().Add(2 * time.Second)
			for time.Now().Before(deadline) {
				if p, err := sub.RecvMessageBytes(zmq4.DONTWAIT); err == nil {
					return p
				}
				time.Sleep(time.Millisecond)
			}
			return nil
		}
		m := 40
		if m > len(recs) {
			m = len(recs)
		}
		send := func(batch []*DataRecord, via string) {
			if err := dp.PublishData(batch); err != nil {
				t.Fatal(err)
			}
			for _, kind := range []string{"record", "summary"} {
				for k := range batch {
					id++
					wiEmit(id, kind, via, batch[k], recvOne(subs[kind]))
				}
			}
		}
		for k := 0; k < m; k++ {
			send([]*DataRecord{recs[k]}, "zmq")
		}
		for b := 0; b+5 <= m; b += 5 {
			send(recs[b:b+5], "zmq-batch")
		}
		for _, sub := range subs {
			sub.Close()
		}
	}
}

func itoa(i int) string {
	s := ""
	for i > 0 {
		s = string(rune('0'+i%10)) + s
		i /= 10
	}
	return s
}
