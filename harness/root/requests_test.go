package dastard

// Request-matrix driver for C11: every control request kind x argument class x arrival time (no source ever /
// running / after Stop / after the source ended by itself) x single I/O failure, issued through the real
// SourceControl methods against a free-running source.  The active source is a thin wrapper around the real
// TriangleSource that only records who calls what and when (request handlers vs ProcessSegments).
// Each call runs under a watchdog; after each call the driver probes that blocks are still processed and that a
// valid request is still answered.  Nothing is judged here; RequestsTrace.tla judges.

import (
	"encoding/base64"
	"fmt"
	"os"
	"path/filepath"
	"strings"
	"sync"
	"sync/atomic"
	"testing"
	"time"

	"gonum.org/v1/gonum/mat"
)

type rqMon struct {
	fast     bool // no artificial processing time (cases that need the source's own block rate)
	mu       sync.Mutex
	inPS     bool
	inReq    int
	coreGid  uint64
	overlap  int // a request handler and ProcessSegments ran at the same time
	foreign  int // a request handler ran on a goroutine that is not the core loop's
	nblocks  int64
	lastName string
}

type rqSource struct {
	*TriangleSource
	m *rqMon
}

func (w *rqSource) ProcessSegments(b *dataBlock) error {
	w.m.mu.Lock()
	w.m.coreGid = lcGid()
	if w.m.inReq > 0 {
		w.m.overlap++
	}
	w.m.inPS = true
	w.m.mu.Unlock()
	err := w.TriangleSource.ProcessSegments(b)
	if !w.m.fast {
		time.Sleep(8 * time.Millisecond) // keep the "processing" window wide so that an unserialised request is likely to hit it
	}
	w.m.mu.Lock()
	w.m.inPS = false
	w.m.mu.Unlock()
	atomic.AddInt64(&w.m.nblocks, 1)
	return err
}

func (w *rqSource) enter(name string) {
	w.m.mu.Lock()
	if w.m.inPS {
		w.m.overlap++
	}
	if w.m.coreGid != 0 && lcGid() != w.m.coreGid {
		w.m.foreign++
	}
	w.m.inReq++
	w.m.lastName = name
	w.m.mu.Unlock()
}
func (w *rqSource) exit() {
	w.m.mu.Lock()
	w.m.inReq--
	w.m.mu.Unlock()
}

func (w *rqSource) ChangeTriggerState(s *FullTriggerState) error {
	w.enter("ChangeTriggerState")
	defer w.exit()
	return w.TriangleSource.ChangeTriggerState(s)
}
func (w *rqSource) ConfigurePulseLengths(a, b int) error {
	w.enter("ConfigurePulseLengths")
	defer w.exit()
	return w.TriangleSource.ConfigurePulseLengths(a, b)
}
func (w *rqSource) ConfigureProjectorsBases(i int, p *mat.Dense, b *mat.Dense, d string) error {
	w.enter("ConfigureProjectorsBases")
	defer w.exit()
	return w.TriangleSource.ConfigureProjectorsBases(i, p, b, d)
}
func (w *rqSource) WriteControl(c *WriteControlConfig) error {
	w.enter("WriteControl")
	defer w.exit()
	return w.TriangleSource.WriteControl(c)
}
func (w *rqSource) SetCoupling(c CouplingStatus) error {
	w.enter("SetCoupling")
	defer w.exit()
	return w.TriangleSource.SetCoupling(c)
}
func (w *rqSource) ChangeGroupTrigger(on bool, g *GroupTriggerState) error {
	w.enter("ChangeGroupTrigger")
	defer w.exit()
	return w.TriangleSource.ChangeGroupTrigger(on, g)
}
func (w *rqSource) StopTriggerCoupling() error {
	w.enter("StopTriggerCoupling")
	defer w.exit()
	return w.TriangleSource.StopTriggerCoupling()
}
func (w *rqSource) SetExperimentStateLabel(t time.Time, s string) error {
	w.enter("SetExperimentStateLabel")
	defer w.exit()
	return w.TriangleSource.SetExperimentStateLabel(t, s)
}
func (w *rqSource) ArchiveDataBlock(n int, f *os.File, s string) error {
	w.enter("ArchiveDataBlock")
	defer w.exit()
	return w.TriangleSource.ArchiveDataBlock(n, f, s)
}

type rqCase struct {
	Timing string `json:"timing"` // never | running | stopped | selfterm
	Kind   string `json:"kind"`
	Arg    string `json:"arg"`
	Expect string `json:"expect"` // ok | err | any
}

func rqMatrix(nr, nc int) string {
	m := mat.NewDense(nr, nc, nil)
	for i := 0; i < nr; i++ {
		for j := 0; j < nc; j++ {
			m.Set(i, j, float64(i+j)/7)
		}
	}
	b, _ := m.MarshalBinary()
	return base64.StdEncoding.EncodeToString(b)
}

// rqIssue performs one request; dir is the scenario's scratch directory.
func rqIssue(ctl *SourceControl, c rqCase, dir string, nsamp int) error {
	ok := false
	trig := TriggerState{AutoTrigger: true, AutoDelay: 20 * time.Millisecond}
	switch c.Kind {
	case "trigger":
		idx := map[string][]int{"valid": {0}, "all": {0, 1}, "toolarge": {2}, "huge": {1 << 30}, "negative": {-1}, "mixed": {0, -5}, "empty": {}, "nil": nil}[c.Arg]
		return ctl.ConfigureTriggers(&FullTriggerState{ChannelIndices: idx, TriggerState: trig}, &ok)
	case "trigger-em":
		ts := TriggerState{EdgeMulti: true}
		switch c.Arg {
		case "both-modes":
			ts.EMTBackwardCompatibleRPCFields = EMTBackwardCompatibleRPCFields{EdgeMultiMakeShortRecords: true, EdgeMultiMakeContaminatedRecords: true}
		case "noise":
			ts.EMTBackwardCompatibleRPCFields = EMTBackwardCompatibleRPCFields{EdgeMultiNoise: true}
		default:
			ts.EMTBackwardCompatibleRPCFields = EMTBackwardCompatibleRPCFields{EdgeMultiLevel: 100, EdgeMultiVerifyNMonotone: 1}
		}
		return ctl.ConfigureTriggers(&FullTriggerState{ChannelIndices: []int{0}, TriggerState: ts}, &ok)
	case "pulselengths":
		so := map[string]SizeObject{"nsamp-only": {Nsamp: ctl.status.Nsamples + 7, Npre: ctl.status.Npresamp}, "npre-only": {Nsamp: ctl.status.Nsamples, Npre: ctl.status.Npresamp + 2},
			"both": {Nsamp: ctl.status.Nsamples + 9, Npre: ctl.status.Npresamp + 3}, "valid": {Nsamp: 50, Npre: 10}, "same": {Nsamp: nsamp, Npre: 10}, "zero": {Nsamp: 0, Npre: 0}, "negative": {Nsamp: -5, Npre: -1},
			"pre-ge-samp": {Nsamp: 10, Npre: 10}, "pre-too-small": {Nsamp: 50, Npre: 1}, "huge": {Nsamp: 1 << 20, Npre: 100}}[c.Arg]
		return ctl.ConfigurePulseLengths(so, &ok)
	case "projectors":
		if c.Arg == "current" || c.Arg == "current1" {
			nsamp = ctl.status.Nsamples
		}
		pbo := ProjectorsBasisObject{ChannelIndex: 0, ProjectorsBase64: rqMatrix(3, nsamp), BasisBase64: rqMatrix(nsamp, 3), ModelDescription: "x"}
		switch c.Arg {
		case "current1":
			pbo.ChannelIndex = 1
		case "index-toolarge":
			pbo.ChannelIndex = 2
		case "index-negative":
			pbo.ChannelIndex = -1
		case "bad-base64":
			pbo.ProjectorsBase64 = "!!!not base64!!!"
		case "not-a-matrix":
			pbo.BasisBase64 = base64.StdEncoding.EncodeToString([]byte("hello world, this is not a gonum matrix"))
		case "wrong-shape":
			pbo.ProjectorsBase64 = rqMatrix(3, nsamp+1)
		case "mismatched":
			pbo.BasisBase64 = rqMatrix(nsamp, 2)
		case "empty":
			pbo.ProjectorsBase64, pbo.BasisBase64 = "", ""
		}
		return ctl.ConfigureProjectorsBasis(&pbo, &ok)
	case "writecontrol":
		w := WriteControlConfig{Request: "Start", Path: filepath.Join(dir, "data"), WriteLJH22: true}
		switch c.Arg {
		case "start-badpath":
			w.Path = "/proc/verif-no-such-dir/x"
		case "start-nostatefile":
			// a base path so long that the run directory (base/<date>/<run>) can still be made but the name of the
			// experiment-state file in it exceeds PATH_MAX: the one I/O step of START that fails is the state file
			p := filepath.Join(dir, "data")
			for len(p) < 4050-201 {
				p = filepath.Join(p, strings.Repeat("d", 200))
			}
			if n := 4050 - len(p) - 1; n > 0 {
				p = filepath.Join(p, strings.Repeat("e", n))
			}
			w.Path = p
		case "start-notypes":
			w.WriteLJH22 = false
		case "bogus":
			w.Request = "FROBNICATE"
		case "empty":
			w.Request = ""
		case "pause":
			w.Request = "Pause"
		case "unpause":
			w.Request = "Unpause label"
		case "stop":
			w.Request = "Stop"
		}
		return ctl.WriteControl(&w, &ok)
	case "statelabel":
		l := map[string]string{"valid": "RUN1", "empty": ""}[c.Arg]
		return ctl.SetExperimentStateLabel(&StateLabelConfig{Label: l, WaitForError: true}, &ok)
	case "comment":
		s := map[string]string{"valid": "a comment", "empty": "", "uncreatable": "cannot be stored"}[c.Arg]
		return ctl.WriteComment(&s, &ok)
	case "coupling":
		b := c.Arg == "on"
		if c.Arg == "fb2err" {
			b = true
			return ctl.CoupleFBToErr(&b, &ok)
		}
		return ctl.CoupleErrToFB(&b, &ok)
	case "stopcoupling":
		b := true
		return ctl.StopTriggerCoupling(&b, &ok)
	case "grouptrigger":
		g := map[string]map[int][]int{"valid": {0: {1}}, "src-toolarge": {5: {1}}, "rx-toolarge": {0: {7}}, "src-eq-nchan": {2: {1}}, "rx-eq-nchan": {0: {2}}, "negative": {-1: {0}}, "rx-negative": {0: {-3}}, "self": {1: {1}}, "empty": {}}[c.Arg]
		return ctl.AddGroupTriggerCoupling(GroupTriggerState{Connections: g}, &ok)
	case "grouptrigger-del":
		g := map[string]map[int][]int{"valid": {0: {1}}, "absent": {1: {0}}, "src-toolarge": {9: {0}}, "src-eq-nchan": {2: {0}}, "rx-eq-nchan": {0: {2}}, "negative": {-2: {-2}}}[c.Arg]
		return ctl.DeleteGroupTriggerCoupling(&GroupTriggerState{Connections: g}, &ok)
	case "mix":
		mfo := map[string]MixFractionObject{"valid": {ChannelIndices: []int{1}, MixFractions: []float64{0.5}}, "mismatched": {ChannelIndices: []int{1, 3}, MixFractions: []float64{0.5}},
			"empty": {}}[c.Arg]
		return ctl.ConfigureMixFraction(&mfo, &ok)
	case "rawblock":
		n := map[string]int{"valid": 100, "small": 40, "zero": 0, "negative": -10, "large": 300000}[c.Arg]
		var name string
		err := ctl.StoreRawDataBlock(n, &name)
		if c.Arg == "large" {
			// the request is answered at once; the block is then acquired (1.5 s here) and written by a goroutine of its
			// own while data keep coming every 0.5 ms: wait until that has happened before looking for progress
			time.Sleep(2800 * time.Millisecond)
		}
		if name != "" {
			defer os.Remove(name)
		}
		return err
	}
	panic("unknown request kind " + c.Kind)
}

func rqCases() []rqCase {
	out := []rqCase{}
	add := func(kind string, args map[string]string) {
		for a, e := range args {
			out = append(out, rqCase{Kind: kind, Arg: a, Expect: e})
		}
	}
	add("trigger", map[string]string{"valid": "ok", "all": "ok", "toolarge": "err", "huge": "err", "negative": "err", "mixed": "err", "empty": "err", "nil": "err"})
	add("trigger-em", map[string]string{"valid": "any", "both-modes": "err", "noise": "err"})
	add("pulselengths", map[string]string{"valid": "ok", "same": "ok", "zero": "err", "negative": "err", "pre-ge-samp": "err", "pre-too-small": "any", "huge": "any"})
	add("projectors", map[string]string{"valid": "ok", "index-toolarge": "err", "index-negative": "err", "bad-base64": "err", "not-a-matrix": "err", "wrong-shape": "err", "mismatched": "err", "empty": "err"})
	add("writecontrol", map[string]string{"start": "ok", "start-badpath": "err", "start-nostatefile": "err", "start-notypes": "any", "bogus": "err", "empty": "err", "pause": "any", "unpause": "any", "stop": "any"})
	add("statelabel", map[string]string{"valid": "any", "empty": "err"})
	add("comment", map[string]string{"valid": "ok", "empty": "err"})
	add("coupling", map[string]string{"off": "ok", "on": "err", "fb2err": "err"})
	add("stopcoupling", map[string]string{"x": "ok"})
	add("grouptrigger", map[string]string{"valid": "ok", "src-toolarge": "err", "rx-toolarge": "err", "src-eq-nchan": "err", "rx-eq-nchan": "err", "negative": "err", "rx-negative": "err", "self": "any", "empty": "any"})
	add("grouptrigger-del", map[string]string{"valid": "ok", "absent": "any", "src-toolarge": "any", "src-eq-nchan": "any", "rx-eq-nchan": "any", "negative": "any"})
	add("mix", map[string]string{"valid": "err", "mismatched": "err", "empty": "err"})
	add("rawblock", map[string]string{"valid": "ok", "zero": "any", "negative": "any", "large": "ok"})
	return out
}

var rqCur struct {
	mu  sync.Mutex
	rig *rqRig
}

// rqInstallRecover installs ONE recover hook for the whole test; it forwards to the rig that is current.
func rqInstallRecover() {
	VRecover = func(name string, p any) {
		rqCur.mu.Lock()
		r := rqCur.rig
		rqCur.mu.Unlock()
		if r != nil {
			r.pmu.Lock()
			r.panics = append(r.panics, fmt.Sprintf("%s: %v", name, p))
			r.pmu.Unlock()
		}
	}
}
func rqSetCurrent(r *rqRig) { rqCur.mu.Lock(); rqCur.rig = r; rqCur.mu.Unlock() }

// rqVPoint learns which goroutine is the core loop from the hook at the top of its select (before any block has been
// processed): a request handler that runs on another goroutine is "foreign" from the first request on.
func rqVPoint(name string) {
	if name != "CoreLoop.select" {
		return
	}
	rqCur.mu.Lock()
	r := rqCur.rig
	rqCur.mu.Unlock()
	if r != nil {
		g := lcGid()
		r.mon.mu.Lock()
		r.mon.coreGid = g
		r.mon.mu.Unlock()
	}
}

type rqRig struct {
	ctl    *SourceControl
	src    *rqSource
	mon    *rqMon
	stopHB chan struct{}
	dir    string
	panics []string
	pmu    sync.Mutex
}

func rqNewRig(dir string, erroring bool) *rqRig {
	r := &rqRig{dir: dir, mon: &rqMon{}, stopHB: make(chan struct{})}
	ctl := NewSourceControl()
	ctl.clientUpdates = clientMessageChan
	ctl.mapServer = newMapServer()
	ctl.status.Npresamp, ctl.status.Nsamples = 10, 40
	r.ctl = ctl
	go func() {
		for {
			select {
			case <-ctl.heartbeats:
			case <-r.stopHB:
				return
			}
		}
	}()
	if err := ctl.triangle.Configure(&TriangleSourceConfig{Nchan: 2, SampleRate: 20000, Min: 100, Max: 400}); err != nil {
		panic(err)
	}
	r.src = &rqSource{TriangleSource: ctl.triangle, m: r.mon}
	return r
}

// start replicates the essential lines of SourceControl.Start for the wrapped source.
func (r *rqRig) start() error {
	r.ctl.ActiveSource = r.src
	r.ctl.status.Running = true
	if err := Start(r.src, r.ctl.queuedRequests, r.ctl.status.Npresamp, r.ctl.status.Nsamples); err != nil {
		r.ctl.status.Running = false
		return err
	}
	r.ctl.isSourceActive = true
	r.ctl.status.Nchannels = r.src.Nchan()
	return nil
}

func (r *rqRig) startErroring() error {
	name := "ERRORINGSOURCE"
	ok := false
	return r.ctl.Start(&name, &ok)
}

func (r *rqRig) stop() bool {
	done := make(chan struct{})
	go func() { d := "x"; ok := false; r.ctl.Stop(&d, &ok); close(done) }()
	select {
	case <-done:
		return true
	case <-time.After(2 * time.Second):
		return false
	}
}

// call runs f under a watchdog; returns (returned, error text, milliseconds).
func rqCall(f func() error, limit time.Duration) (bool, string, int) {
	type res struct{ err error }
	ch := make(chan res, 1)
	t0 := time.Now()
	go func() {
		defer func() {
			if p := recover(); p != nil {
				ch <- res{fmt.Errorf("PANIC in caller: %v", p)}
			}
		}()
		ch <- res{f()}
	}()
	select {
	case r := <-ch:
		msg := ""
		if r.err != nil {
			msg = r.err.Error()
			if msg == "" {
				msg = "(empty error)"
			}
		}
		return true, msg, int(time.Since(t0).Milliseconds())
	case <-time.After(limit):
		return false, "", int(time.Since(t0).Milliseconds())
	}
}

func (r *rqRig) probe(running bool) vmap {
	out := vmap{}
	if running {
		n0 := atomic.LoadInt64(&r.mon.nblocks)
		progress := false
		for i := 0; i < 200; i++ {
			time.Sleep(10 * time.Millisecond)
			if atomic.LoadInt64(&r.mon.nblocks) > n0 {
				progress = true
				break
			}
		}
		out["progress"] = progress
		ret, msg, _ := rqCall(func() error {
			return rqIssue(r.ctl, rqCase{Kind: "coupling", Arg: "off"}, r.dir, r.ctl.status.Nsamples)
		}, 1500*time.Millisecond)
		switch {
		case !ret:
			out["sentinel"] = "hang"
		case msg != "":
			out["sentinel"] = "err:" + msg
		default:
			out["sentinel"] = "ok"
		}
	} else {
		out["progress"] = true
		out["sentinel"] = "n/a"
	}
	r.mon.mu.Lock()
	out["overlap"], out["foreign"] = r.mon.overlap, r.mon.foreign
	r.mon.mu.Unlock()
	r.pmu.Lock()
	out["panics"] = append([]string{}, r.panics...)
	r.pmu.Unlock()
	return out
}

// rqSequences: random sequences of individually valid requests on a running, triggering source: interactions between
// requests (projectors then a length change, pause then label, ...) followed by data that exercises what they configured.
func rqSequences(t *testing.T, base string, id *int) {
	pool := []rqCase{{Kind: "trigger", Arg: "all"}, {Kind: "pulselengths", Arg: "nsamp-only"}, {Kind: "pulselengths", Arg: "npre-only"},
		{Kind: "pulselengths", Arg: "both"}, {Kind: "pulselengths", Arg: "same"}, {Kind: "projectors", Arg: "current"}, {Kind: "projectors", Arg: "current1"},
		{Kind: "writecontrol", Arg: "start"}, {Kind: "writecontrol", Arg: "stop"}, {Kind: "writecontrol", Arg: "pause"}, {Kind: "writecontrol", Arg: "unpause"},
		{Kind: "statelabel", Arg: "valid"}, {Kind: "comment", Arg: "valid"}, {Kind: "grouptrigger", Arg: "valid"}, {Kind: "grouptrigger-del", Arg: "valid"},
		{Kind: "stopcoupling", Arg: "x"}, {Kind: "rawblock", Arg: "valid"}, {Kind: "coupling", Arg: "off"}}
	rng := vRng()
	nseq := 60
	if os.Getenv("VERIF_TIER") == "quick" {
		nseq = 14
	}
	fixed := [][]rqCase{
		{pool[5], pool[1], pool[0]}, {pool[5], pool[2], pool[0]}, {pool[6], pool[3], pool[0]}, {pool[7], pool[5], pool[1], pool[0]},
		{pool[7], pool[9], pool[11], pool[10], pool[8]}, {pool[13], pool[0], pool[14], pool[15]},
		// a raw block, then the same source object restarted with another number of channels, then a smaller raw block
		{{Kind: "rawblock", Arg: "valid"}, {Kind: "restart", Arg: "nchan3"}, {Kind: "rawblock", Arg: "small"}},
		{{Kind: "rawblock", Arg: "valid"}, {Kind: "restart", Arg: "nchan1"}, {Kind: "rawblock", Arg: "valid"}, {Kind: "projectors", Arg: "current"}},
	}
	for k := 0; k < nseq+len(fixed); k++ {
		var seq []rqCase
		if k < len(fixed) {
			seq = fixed[k]
			if os.Getenv("VERIF_NORESTART") != "" && len(seq) > 1 && seq[1].Kind == "restart" {
				continue // (race-detector workload: histories within one acquisition only)
			}
		} else {
			for j := 2 + rng.Intn(4); j > 0; j-- {
				seq = append(seq, pool[rng.Intn(len(pool))])
			}
		}
		*id++
		dir := filepath.Join(base, fmt.Sprintf("rqs%d", *id))
		os.MkdirAll(dir, 0775)
		rig := rqNewRig(dir, false)
		rqSetCurrent(rig)
		if err := rig.start(); err != nil {
			t.Fatal(err)
		}
		names := ""
		for _, c := range seq {
			names += c.Kind + ":" + c.Arg + " "
		}
		vEmit(vmap{"ev": "Case", "scen": *id, "timing": "running", "kind": "sequence", "arg": names, "expect": "any"})
		allRet := true
		lastErr := ""
		ms := 0
		for _, c := range seq {
			if c.Kind == "restart" {
				// Stop, another channel count, Start: the source object (and what it remembers of earlier requests) lives on
				time.Sleep(150 * time.Millisecond) // (let the raw block of the run that ends be completed)
				rig.stop()
				nch := map[string]int{"nchan3": 3, "nchan1": 1}[c.Arg]
				if err := rig.ctl.triangle.Configure(&TriangleSourceConfig{Nchan: nch, SampleRate: 20000, Min: 100, Max: 400}); err != nil {
					t.Fatal(err)
				}
				if err := rig.start(); err != nil {
					t.Fatal(err)
				}
				continue
			}
			ret, msg, m := rqCall(func() error { return rqIssue(rig.ctl, c, dir, rig.ctl.status.Nsamples) }, 2500*time.Millisecond)
			ms += m
			if !ret {
				allRet = false
				break
			}
			lastErr = msg
		}
		// make sure records flow through whatever was configured
		if allRet {
			ret, _, _ := rqCall(func() error { return rqIssue(rig.ctl, rqCase{Kind: "trigger", Arg: "all"}, dir, 0) }, 2500*time.Millisecond)
			allRet = ret
			time.Sleep(120 * time.Millisecond)
		}
		vEmit(vmap{"ev": "Ret", "returned": allRet, "err": lastErr, "ms": ms})
		pr := rig.probe(true)
		pr["ev"] = "Probe"
		vEmit(pr)
		vEmit(vmap{"ev": "CaseEnd", "stopped": rig.stop()})
		close(rig.stopHB)
	}
}

func TestVerifRequests(t *testing.T) {
	base, err := os.MkdirTemp("", "verif_rq")
	if err != nil {
		t.Fatal(err)
	}
	defer os.RemoveAll(base)
	cases := rqCases()
	id := 0
	rqInstallRecover() // once, before any goroutine of the code under test exists
	VPoint = rqVPoint
	// one rig per (timing, case): a wedged core loop must not spoil the following cases
	for _, timing := range []string{"running", "never", "stopped", "selfterm"} {
		for _, c := range cases {
			if timing != "running" && os.Getenv("VERIF_TIER") == "quick" && (id%3 != 0) {
				id++
				continue
			}
			id++
			c.Timing = timing
			dir := filepath.Join(base, fmt.Sprintf("rq%d", id))
			os.MkdirAll(dir, 0775)
			rig := rqNewRig(dir, timing == "selfterm")
			rqSetCurrent(rig)
			expect := c.Expect
			switch timing {
			case "running":
				if c.Kind == "rawblock" && c.Arg == "large" {
					// a fast source: 1 ms blocks, so that writing the file takes many block periods
					if err := rig.ctl.triangle.Configure(&TriangleSourceConfig{Nchan: 8, SampleRate: 1e6, Min: 100, Max: 600}); err != nil {
						t.Fatal(err)
					}
					rig.mon.fast = true
				}
				if err := rig.start(); err != nil {
					t.Fatal(err)
				}
				for k := 0; k < 100 && atomic.LoadInt64(&rig.mon.nblocks) < 1; k++ {
					time.Sleep(5 * time.Millisecond) // data are flowing when the request arrives
				}
				// preconditions of some cases
				switch {
				case c.Kind == "comment" || c.Kind == "statelabel" || (c.Kind == "writecontrol" && (c.Arg == "pause" || c.Arg == "unpause" || c.Arg == "stop")):
					rqCall(func() error { return rqIssue(rig.ctl, rqCase{Kind: "writecontrol", Arg: "start"}, dir, 40) }, 2*time.Second)
				case c.Kind == "grouptrigger-del":
					rqCall(func() error { return rqIssue(rig.ctl, rqCase{Kind: "grouptrigger", Arg: "valid"}, dir, 40) }, 2*time.Second)
				}
				if c.Kind == "comment" && c.Arg == "valid" {
					// second variant of the same request: the comment file cannot be created (a directory sits there)
				}
			case "stopped":
				if err := rig.start(); err != nil {
					t.Fatal(err)
				}
				time.Sleep(40 * time.Millisecond)
				rig.stop()
				expect = "err"
			case "never":
				rig.ctl.ActiveSource = rig.ctl.triangle
				expect = "err"
			case "selfterm":
				if err := rig.startErroring(); err != nil {
					t.Fatal(err)
				}
				time.Sleep(30 * time.Millisecond) // the erroring source has sent its error block and the core loop is gone
				expect = "err"
			}
			if c.Kind == "statelabel" && c.Arg == "valid" && timing == "running" {
				expect = "ok"
			}
			if c.Kind == "pulselengths" && c.Arg == "same" && timing != "running" {
				expect = "any" // a request for the lengths already in force changes nothing, with or without a source
			}
			vEmit(vmap{"ev": "Case", "scen": id, "timing": timing, "kind": c.Kind, "arg": c.Arg, "expect": expect})
			ret, msg, ms := rqCall(func() error { return rqIssue(rig.ctl, c, dir, 40) }, 6500*time.Millisecond)
			vEmit(vmap{"ev": "Ret", "returned": ret, "err": msg, "ms": ms})
			if ret && expect == "err" && timing == "running" && c.Kind != "rawblock" {
				// a refused request leaves nothing behind: the same request once more is refused again
				ret2, msg2, ms2 := rqCall(func() error { return rqIssue(rig.ctl, c, dir, 40) }, 6500*time.Millisecond)
				vEmit(vmap{"ev": "Ret", "returned": ret2, "err": msg2, "ms": ms2, "again": true})
			}
			pr := rig.probe(timing == "running")
			pr["ev"] = "Probe"
			vEmit(pr)
			if timing == "running" && c.Kind == "comment" && c.Arg == "valid" {
				// I/O failure variant: comment.txt cannot be created
				ws := rig.src.ComputeWritingState()
				cpath := filepath.Join(filepath.Dir(ws.FilenamePattern), "comment.txt")
				os.Remove(cpath)
				os.Mkdir(cpath, 0775)
				id++
				vEmit(vmap{"ev": "Case", "scen": id, "timing": timing, "kind": "comment", "arg": "uncreatable", "expect": "err"})
				ret, msg, ms = rqCall(func() error { return rqIssue(rig.ctl, rqCase{Kind: "comment", Arg: "uncreatable"}, dir, 40) }, 2500*time.Millisecond)
				vEmit(vmap{"ev": "Ret", "returned": ret, "err": msg, "ms": ms})
				pr = rig.probe(true)
				pr["ev"] = "Probe"
				vEmit(pr)
			}
			stopped := true
			if timing == "running" {
				stopped = rig.stop()
			}
			vEmit(vmap{"ev": "CaseEnd", "stopped": stopped})
			close(rig.stopHB)
		}
	}
	rqSequences(t, base, &id)
	rqTwoClients(t, base, &id)
}

// rqTwoClients: two clients at the same time on one running source, one sending only valid trigger requests, the other
// only requests that must be refused (channel -1).  Each caller must get the answer to ITS request: one valid request
// answered with an error, or one refused request answered with success, is reported.
func rqTwoClients(t *testing.T, base string, id *int) {
	n := 1500
	if os.Getenv("VERIF_TIER") != "quick" {
		n = 20000
	}
	*id++
	dir := filepath.Join(base, fmt.Sprintf("rq2c%d", *id))
	os.MkdirAll(dir, 0775)
	rig := rqNewRig(dir, false)
	rig.mon.fast = true
	rqSetCurrent(rig)
	if err := rig.start(); err != nil {
		t.Fatal(err)
	}
	type tally struct {
		wrong    int
		firstErr string
		hung     bool
	}
	res := make([]tally, 2)
	var wg sync.WaitGroup
	for ci, c := range []rqCase{{Kind: "trigger", Arg: "valid"}, {Kind: "trigger", Arg: "negative"}} {
		wg.Add(1)
		go func(ci int, c rqCase) {
			defer wg.Done()
			for k := 0; k < n; k++ {
				ret, msg, _ := rqCall(func() error { return rqIssue(rig.ctl, c, dir, 40) }, 5*time.Second)
				if !ret {
					res[ci].hung = true
					return
				}
				if (ci == 0) != (msg == "") { // the valid client wants nil, the other an error
					res[ci].wrong++
					if res[ci].firstErr == "" {
						res[ci].firstErr = msg
					}
				}
			}
		}(ci, c)
	}
	wg.Wait()
	vEmit(vmap{"ev": "Case", "scen": *id, "timing": "running", "kind": "two-clients", "arg": "valid-side", "expect": "ok"})
	vEmit(vmap{"ev": "Ret", "returned": !res[0].hung, "err": res[0].firstErr, "ms": 0, "wrong": res[0].wrong, "n": n})
	pr := rig.probe(true)
	pr["ev"] = "Probe"
	vEmit(pr)
	vEmit(vmap{"ev": "CaseEnd", "stopped": true})
	*id++
	vEmit(vmap{"ev": "Case", "scen": *id, "timing": "running", "kind": "two-clients", "arg": "refused-side", "expect": "err"})
	e := "refused"
	if res[1].wrong > 0 {
		e = "" // at least one of the requests that must be refused was answered with success
	}
	vEmit(vmap{"ev": "Ret", "returned": !res[1].hung, "err": e, "ms": 0, "wrong": res[1].wrong, "n": n})
	vEmit(vmap{"ev": "CaseEnd", "stopped": rig.stop()})
	close(rig.stopHB)
}
