package dastard

// Driver for C19: channel naming / numbering of every source kind on enumerated and seeded configurations.

import (
	"math/rand"
	"testing"

	"github.com/usnistgov/dastard/packets"
)

type ciDev struct {
	Devnum int `json:"devnum"`
	Ncols  int `json:"ncols"`
	Nrows  int `json:"nrows"`
}
type ciGroup struct {
	First int `json:"first"`
	Nch   int `json:"nch"`
}
type ciScen struct {
	Kind     string    `json:"kind"` // lancero | abaco | roach | simple
	Origin   string    `json:"origin"`
	Devs     []ciDev   `json:"devs"`
	FirstRow int       `json:"first"`
	SepCards int       `json:"sepcards"`
	SepCols  int       `json:"sepcols"`
	Groups   []ciGroup `json:"groups"`
	Nchan    int       `json:"nchan"`
}

func ciTable(ds *AnySource, truth [][]int) []vmap {
	out := []vmap{}
	for i := range ds.chanNames {
		m := vmap{"i": i, "name": ds.chanNames[i], "num": ds.chanNumbers[i]}
		if i < len(ds.rowColCodes) {
			rc := ds.rowColCodes[i]
			m["rc"] = []int{rc.row(), rc.col(), rc.rows(), rc.cols()}
		} else {
			m["rc"] = []int{}
		}
		if i < len(truth) {
			m["truth"] = truth[i] // [dev, col, row, kind(0 err / 1 fb or plain), rows, cols]
		} else {
			m["truth"] = []int{}
		}
		out = append(out, m)
	}
	return out
}

func ciGroups(ds *AnySource) [][]int {
	out := [][]int{}
	for _, g := range ds.ChanGroups() {
		out = append(out, []int{g.Firstchan, g.Nchan})
	}
	return out
}

func ciRun(id int, sc *ciScen) {
	defer func() {
		if r := recover(); r != nil {
			vEmit(vmap{"ev": "Ident", "scen": id, "kind": sc.Kind, "origin": sc.Origin, "accepted": false, "panic": true, "table": []vmap{}, "groups": [][]int{}, "overlap": false})
		}
	}()
	switch sc.Kind {
	case "lancero":
		ls := new(LanceroSource)
		ls.name = "Lancero"
		ls.devices = map[int]*LanceroDevice{}
		truth := [][]int{}
		for _, d := range sc.Devs {
			dev := &LanceroDevice{devnum: d.Devnum, ncols: d.Ncols, nrows: d.Nrows}
			ls.devices[d.Devnum] = dev
			ls.active = append(ls.active, dev)
			ls.nchan += 2 * d.Ncols * d.Nrows
			for c := 0; c < d.Ncols; c++ {
				for r := 0; r < d.Nrows; r++ {
					truth = append(truth, []int{d.Devnum, c, r, 0, d.Nrows, d.Ncols}, []int{d.Devnum, c, r, 1, d.Nrows, d.Ncols})
				}
			}
		}
		ls.firstRowChanNum, ls.chanSepCards, ls.chanSepColumns = sc.FirstRow, sc.SepCards, sc.SepCols
		err := ls.PrepareChannels()
		ev := vmap{"ev": "Ident", "scen": id, "kind": sc.Kind, "origin": sc.Origin, "accepted": err == nil, "panic": false, "overlap": false,
			"cfg": vmap{"devs": sc.Devs, "first": sc.FirstRow, "sepcards": sc.SepCards, "sepcols": sc.SepCols}}
		if err == nil {
			ev["table"], ev["groups"] = ciTable(&ls.AnySource, truth), ciGroups(&ls.AnySource)
		} else {
			ev["table"], ev["groups"] = []vmap{}, [][]int{}
		}
		vEmit(ev)
		// history: the Start got past PrepareChannels and failed later (or the run ended by itself); Start is tried again
		// on the same object, without a Stop in between
		err = ls.PrepareChannels()
		ev2 := vmap{"ev": "Ident", "scen": id, "kind": sc.Kind, "origin": sc.Origin + "/again", "accepted": err == nil, "panic": false, "overlap": false, "cfg": ev["cfg"]}
		if err == nil {
			ev2["table"], ev2["groups"] = ciTable(&ls.AnySource, truth), ciGroups(&ls.AnySource)
		} else {
			ev2["table"], ev2["groups"] = []vmap{}, [][]int{}
		}
		vEmit(ev2)
	case "abaco":
		as := new(AbacoSource)
		as.name = "Abaco"
		as.groups = make(map[GroupIndex]*AbacoGroup)
		prod := &abProducer{done: make(chan struct{})}
		truth := [][]int{}
		overlap := false
		seen := map[int]bool{}
		same := map[ciGroup]bool{}
		for gi, g := range sc.Groups {
			dup := same[g] // the same (first, n) twice is one group seen twice, not two overlapping groups
			same[g] = true
			for sn := 0; sn < 2; sn++ {
				p := packets.NewPacket(10, uint32(gi+1), uint32(sn), g.First)
				d := make([]int16, g.Nch)
				p.NewData(d, []int16{int16(g.Nch)})
				p.SetTimestamp(&packets.PacketTimestamp{T: uint64(1000000 + sn*1000), Rate: 1e8})
				prod.sample = append(prod.sample, p)
			}
			for c := g.First; c < g.First+g.Nch && !dup; c++ {
				if seen[c] {
					overlap = true
				}
				seen[c] = true
			}
		}
		as.producers = []PacketProducer{prod}
		err := as.Sample()
		if err == nil {
			err = as.PrepareChannels()
		}
		ev := vmap{"ev": "Ident", "scen": id, "kind": sc.Kind, "origin": sc.Origin, "accepted": err == nil, "panic": false, "overlap": overlap,
			"cfg": vmap{"groups": sc.Groups}}
		if err == nil {
			// truth: groups sorted by first channel are the "columns", channels within are "rows"
			for col, g := range as.groupKeysSorted {
				for r := 0; r < g.Nchan; r++ {
					truth = append(truth, []int{0, col, r, 1, g.Nchan, len(as.groupKeysSorted), g.Firstchan + r})
				}
			}
			ev["table"], ev["groups"] = ciTable(&as.AnySource, truth), ciGroups(&as.AnySource)
		} else {
			ev["table"], ev["groups"] = []vmap{}, [][]int{}
		}
		vEmit(ev)
		if err == nil {
			err = as.PrepareChannels()
			ev2 := vmap{"ev": "Ident", "scen": id, "kind": sc.Kind, "origin": sc.Origin + "/again", "accepted": err == nil, "panic": false, "overlap": overlap, "cfg": ev["cfg"]}
			if err == nil {
				ev2["table"], ev2["groups"] = ciTable(&as.AnySource, truth), ciGroups(&as.AnySource)
			} else {
				ev2["table"], ev2["groups"] = []vmap{}, [][]int{}
			}
			vEmit(ev2)
		}
	default:
		var ds *AnySource
		var err error
		truth := [][]int{}
		if sc.Kind == "roach" {
			rs := new(RoachSource)
			rs.nchan = sc.Nchan
			err = rs.PrepareChannels()
			ds = &rs.AnySource
			for r := 0; r < sc.Nchan; r++ {
				truth = append(truth, []int{0, 0, r, 1, sc.Nchan, 1, r})
			}
		} else {
			ds = &AnySource{nchan: sc.Nchan}
			err = ds.PrepareChannels()
		}
		vEmit(vmap{"ev": "Ident", "scen": id, "kind": sc.Kind, "origin": sc.Origin, "accepted": err == nil, "panic": false, "overlap": false,
			"cfg": vmap{"nchan": sc.Nchan}, "table": ciTable(ds, truth), "groups": ciGroups(ds)})
		if sc.Kind == "roach" {
			rs := &RoachSource{AnySource: *ds}
			err = rs.PrepareChannels()
			ds = &rs.AnySource
		} else {
			err = ds.PrepareChannels()
		}
		vEmit(vmap{"ev": "Ident", "scen": id, "kind": sc.Kind, "origin": sc.Origin + "/again", "accepted": err == nil, "panic": false, "overlap": false,
			"cfg": vmap{"nchan": sc.Nchan}, "table": ciTable(ds, truth), "groups": ciGroups(ds)})
	}
}

func ciRandom(rng *rand.Rand) ciScen {
	switch rng.Intn(4) {
	case 0:
		sc := ciScen{Kind: "abaco", Origin: "seeded"}
		first := rng.Intn(4)
		for i := 1 + rng.Intn(3); i > 0; i-- {
			n := 1 + rng.Intn(4)
			sc.Groups = append(sc.Groups, ciGroup{First: first, Nch: n})
			first += n + rng.Intn(3) - 1 // sometimes overlapping, sometimes with a hole
			if first < 0 {
				first = 0
			}
		}
		rng.Shuffle(len(sc.Groups), func(i, j int) { sc.Groups[i], sc.Groups[j] = sc.Groups[j], sc.Groups[i] })
		return sc
	case 1:
		return ciScen{Kind: []string{"roach", "simple"}[rng.Intn(2)], Origin: "seeded", Nchan: 1 + rng.Intn(40)}
	default:
		sc := ciScen{Kind: "lancero", Origin: "seeded", FirstRow: []int{-1, 0, 1, 5, 100}[rng.Intn(5)],
			SepCards: []int{-1, 0, 1, 4, 6, 9, 10, 12, 100, 1000}[rng.Intn(10)], SepCols: []int{-1, 0, 1, 2, 3, 4, 10, 32}[rng.Intn(8)]}
		devs := rng.Perm(4)[:1+rng.Intn(3)]
		for i := 0; i < len(devs) && rng.Intn(2) == 0; i++ { // half of the time in ascending order, otherwise as drawn (ActiveCards order is the client's)
			for j := i + 1; j < len(devs); j++ {
				if devs[j] < devs[i] {
					devs[i], devs[j] = devs[j], devs[i]
				}
			}
		}
		for _, d := range devs {
			sc.Devs = append(sc.Devs, ciDev{Devnum: d, Ncols: 1 + rng.Intn(3), Nrows: 1 + rng.Intn(4)})
		}
		return sc
	}
}

func TestVerifChanID(t *testing.T) {
	var scens []ciScen
	vLoadScen(&scens)
	rng := vRng()
	for i := 0; i < vNRandom; i++ {
		scens = append(scens, ciRandom(rng))
	}
	for i := range scens {
		ciRun(i+1, &scens[i])
	}
}
