package dastard

// Shared plumbing for the verification drivers that are compiled into package dastard through
// `go test -overlay` (the repository's own *_test.go files are hidden by the same overlay, so this
// is the only TestMain).  Nothing here judges anything: drivers execute scenarios on the real code
// and write NDJSON traces; the TLA+ trace specifications judge.

import (
	"encoding/json"
	"fmt"
	"io"
	"log"
	"math/rand"
	"net"
	"os"
	"strconv"
	"sync"
	"testing"
	"time"
)

var (
	vOutMu   sync.Mutex
	vOutEnc  *json.Encoder
	vOutFile *os.File

	vPubMu       sync.Mutex
	vPubRecords  [][]*DataRecord // every PublishData batch seen on PubRecordsChan, in order
	vPubSumm     int
	vClientMu    sync.Mutex
	vClientMsgs  []ClientUpdate
	vClientKeep  bool
	vSeed        int64
	vNRandom     int
	vPubPause    sync.Mutex // held to stall the record drain (not normally used)
	vDrainClient = true
)

type vmap = map[string]any

func vEmit(m vmap) {
	vOutMu.Lock()
	defer vOutMu.Unlock()
	if vOutEnc != nil {
		if err := vOutEnc.Encode(m); err != nil {
			panic(err)
		}
	}
}

// vTakeRecords returns every batch published so far.  PublishData sends synchronously (from workers that ProcessSegments
// joins), so when ProcessSegments has returned every batch is either still in the channel or already appended under
// vPubMu by the drain goroutine, which receives only while holding that mutex: nothing can be "in flight" between the two.
func vTakeRecords() [][]*DataRecord {
	vPubMu.Lock()
	defer vPubMu.Unlock()
	for {
		select {
		case r := <-PubRecordsChan:
			vPubRecords = append(vPubRecords, r)
			continue
		default:
		}
		break
	}
	out := vPubRecords
	vPubRecords = nil
	return out
}

func vTakeClient() []ClientUpdate {
	vClientMu.Lock()
	defer vClientMu.Unlock()
	for {
		select {
		case u := <-clientMessageChan:
			if vClientKeep {
				vClientMsgs = append(vClientMsgs, u)
			}
			continue
		default:
		}
		break
	}
	out := vClientMsgs
	vClientMsgs = nil
	return out
}

func vEnvInt(name string, def int) int {
	if s := os.Getenv(name); s != "" {
		if v, err := strconv.Atoi(s); err == nil {
			return v
		}
	}
	return def
}

func vLoadScen(v any) bool {
	p := os.Getenv("VERIF_SCEN")
	if p == "" {
		return false
	}
	b, err := os.ReadFile(p)
	if err != nil {
		panic(err)
	}
	if err = json.Unmarshal(b, v); err != nil {
		panic(err)
	}
	return true
}

// vFreePort asks the kernel for a port nobody uses right now (other checks, sweeps or the repository's own tests may run
// on this machine at the same time; a fixed port would turn their presence into a failed Start).
func vFreePort(network string) int {
	if network == "udp" {
		c, err := net.ListenPacket("udp", "127.0.0.1:0")
		if err != nil {
			panic(err)
		}
		defer c.Close()
		return c.LocalAddr().(*net.UDPAddr).Port
	}
	l, err := net.Listen("tcp", ":0")
	if err != nil {
		panic(err)
	}
	defer l.Close()
	return l.Addr().(*net.TCPAddr).Port
}

func vRng() *rand.Rand { return rand.New(rand.NewSource(vSeed)) }

func vInts16(d []RawType) []int {
	out := make([]int, len(d))
	for i, v := range d {
		out[i] = int(v)
	}
	return out
}

func TestMain(m *testing.M) {
	log.SetOutput(io.Discard)
	ProblemLogger = log.New(io.Discard, "", 0)
	UpdateLogger = log.New(io.Discard, "", 0)
	if p := os.Getenv("VERIF_OUT"); p != "" {
		f, err := os.Create(p)
		if err != nil {
			panic(err)
		}
		vOutFile = f
		vOutEnc = json.NewEncoder(f)
	}
	vSeed = int64(vEnvInt("VERIF_SEED", 1))
	vNRandom = vEnvInt("VERIF_NRANDOM", 0)
	if os.Getenv("VERIF_REAL_ZMQ") == "" {
		// harness-owned publication channels: no ZMQ sockets are bound by SetPubRecords/SetPubSummaries
		PubRecordsChan = make(chan []*DataRecord, 500)
		PubSummariesChan = make(chan []*DataRecord, 500)
		go func() { // drain: receive only while holding the mutex (see vTakeRecords)
			for {
				vPubMu.Lock()
				got := false
				select {
				case r := <-PubRecordsChan:
					vPubRecords = append(vPubRecords, r)
					got = true
				default:
				}
				vPubMu.Unlock()
				if !got {
					time.Sleep(200 * time.Microsecond)
				}
			}
		}()
		go func() {
			for range PubSummariesChan {
				vPubMu.Lock()
				vPubSumm++
				vPubMu.Unlock()
			}
		}()
	}
	if os.Getenv("VERIF_REAL_CLIENTUPDATER") == "" {
		go func() {
			for {
				vClientMu.Lock()
				got := false
				select {
				case u := <-clientMessageChan:
					if vClientKeep {
						vClientMsgs = append(vClientMsgs, u)
					}
					got = true
				default:
				}
				vClientMu.Unlock()
				if !got {
					time.Sleep(200 * time.Microsecond)
				}
			}
		}()
	}
	VRecover = func(name string, r any) {
		vEmit(vmap{"ev": "Panic", "where": name, "msg": fmt.Sprint(r)})
	}
	rc := m.Run()
	if vOutFile != nil {
		vOutFile.Close()
	}
	os.Exit(rc)
}
