package dastard

// Shared plumbing for the verification drivers that are compiled into package dastard through
// `go test -overlay` (the repository's own *_test.go files are hidden by the same overlay, so this
// is the only TestMain).  Nothing here judges anything: drivers execute scenarios on the real code
// and write NDJSON traces; the TLA+ trace specifications judge.

import (
	"encoding/json"
	"fmt"
	"io"
	"log"
	"math/rand"
	"os"
	"strconv"
	"sync"
	"testing"
	"time"
)

var (
	vOutMu   sync.Mutex
	vOutEnc  *json.Encoder
	vOutFile *os.File

	vPubMu       sync.Mutex
	vPubRecords  [][]*DataRecord // every PublishData batch seen on PubRecordsChan, in order
	vPubSumm     int
	vClientMu    sync.Mutex
	vClientMsgs  []ClientUpdate
	vClientKeep  bool
	vSeed        int64
	vNRandom     int
	vPubPause    sync.Mutex // held to stall the record drain (not normally used)
	vDrainClient = true
)

type vmap = map[string]any

func vEmit(m vmap) {
	vOutMu.Lock()
	defer vOutMu.Unlock()
	if vOutEnc != nil {
		if err := vOutEnc.Encode(m); err != nil {
			panic(err)
		}
	}
}

func vTakeRecords() [][]*DataRecord {
	// PublishData sends synchronously on a buffered channel; give the drain goroutine time to empty it
	for i := 0; i < 2000 && len(PubRecordsChan) > 0; i++ {
		time.Sleep(50 * time.Microsecond)
	}
	time.Sleep(100 * time.Microsecond)
	vPubMu.Lock()
	defer vPubMu.Unlock()
	out := vPubRecords
	vPubRecords = nil
	return out
}

func vTakeClient() []ClientUpdate {
	for i := 0; i < 2000 && len(clientMessageChan) > 0; i++ {
		time.Sleep(50 * time.Microsecond)
	}
	time.Sleep(100 * time.Microsecond)
	vClientMu.Lock()
	defer vClientMu.Unlock()
	out := vClientMsgs
	vClientMsgs = nil
	return out
}

func vEnvInt(name string, def int) int {
	if s := os.Getenv(name); s != "" {
		if v, err := strconv.Atoi(s); err == nil {
			return v
		}
	}
	return def
}

func vLoadScen(v any) bool {
	p := os.Getenv("VERIF_SCEN")
	if p == "" {
		return false
	}
	b, err := os.ReadFile(p)
	if err != nil {
		panic(err)
	}
	if err = json.Unmarshal(b, v); err != nil {
		panic(err)
	}
	return true
}

func vRng() *rand.Rand { return rand.New(rand.NewSource(vSeed)) }

func vInts16(d []RawType) []int {
	out := make([]int, len(d))
	for i, v := range d {
		out[i] = int(v)
	}
	return out
}

func TestMain(m *testing.M) {
	log.SetOutput(io.Discard)
	ProblemLogger = log.New(io.Discard, "", 0)
	UpdateLogger = log.New(io.Discard, "", 0)
	if p := os.Getenv("VERIF_OUT"); p != "" {
		f, err := os.Create(p)
		if err != nil {
			panic(err)
		}
		vOutFile = f
		vOutEnc = json.NewEncoder(f)
	}
	vSeed = int64(vEnvInt("VERIF_SEED", 1))
	vNRandom = vEnvInt("VERIF_NRANDOM", 0)
	if os.Getenv("VERIF_REAL_ZMQ") == "" {
		// harness-owned publication channels: no ZMQ sockets are bound by SetPubRecords/SetPubSummaries
		PubRecordsChan = make(chan []*DataRecord, 500)
		PubSummariesChan = make(chan []*DataRecord, 500)
		go func() {
			for r := range PubRecordsChan {
				vPubMu.Lock()
				vPubRecords = append(vPubRecords, r)
				vPubMu.Unlock()
			}
		}()
		go func() {
			for range PubSummariesChan {
				vPubMu.Lock()
				vPubSumm++
				vPubMu.Unlock()
			}
		}()
	}
	if os.Getenv("VERIF_REAL_CLIENTUPDATER") == "" {
		go func() {
			for u := range clientMessageChan {
				vClientMu.Lock()
				if vClientKeep {
					vClientMsgs = append(vClientMsgs, u)
				}
				vClientMu.Unlock()
			}
		}()
	}
	VRecover = func(name string, r any) {
		vEmit(vmap{"ev": "Panic", "where": name, "msg": fmt.Sprint(r)})
	}
	rc := m.Run()
	if vOutFile != nil {
		vOutFile.Close()
	}
	os.Exit(rc)
}
