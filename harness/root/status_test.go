package dastard

// Drivers for C16.
//  TestVerifStatusSave   : publication histories -> the real saveState with a kill (vcrash hook) at each
//                          file-system step; directory snapshots for the separate-process restart by the real
//                          start-up code (harness/cmddastard); replicated restart in-process to continue.
//  TestVerifStatusReplay : the real RunClientUpdater over ZMQ: SENDALL replay and the delayed save
//                          (needs VERIF_REAL_CLIENTUPDATER=1 so that TestMain does not drain clientMessageChan).
// Nothing is judged here; StatusTrace.tla judges.

import (
	"crypto/sha1"
	"encoding/json"
	"fmt"
	"math/rand"
	"os"
	"path/filepath"
	"sort"
	"strconv"
	"strings"
	"testing"
	"time"

	"github.com/pebbe/zmq4"
	"github.com/spf13/viper"
)

type suStep struct {
	K       string `json:"k"` // pub | save | sendall | restart | wait
	T       string `json:"t"`
	V       int    `json:"v"`
	Crash   int    `json:"crash"`   // 0 none; 1 beforeWriteTmp; 2 afterWriteTmp; 3 afterRemoveBak; 4 afterMoveMain
	Partial bool   `json:"partial"` // crash 2 only: the tmp file is cut short (kill while it was being written)
}

type suScen struct {
	Origin string   `json:"origin"`
	Main0  string   `json:"main0"` // empty | conf
	Steps  []suStep `json:"steps"`
	VSeed  int64    `json:"vseed"`
}

var suCrashPoints = []string{"", "saveState.beforeWriteTmp", "saveState.afterWriteTmp", "saveState.afterRemoveBak", "saveState.afterMoveMain"}

var suPersistentRestored = []string{"TRIANGLE", "SIMPULSE", "LANCERO", "ABACO", "ROACH", "STATUS", "WRITING", "TRIGGER", "TESMAPFILE"}

// suValue builds the message body of (topic, id) deterministically from the scenario's value seed.
func suValue(vseed int64, topic string, id int) any {
	h := int64(0)
	for _, c := range topic {
		h = h*31 + int64(c)
	}
	r := rand.New(rand.NewSource(vseed*1000003 + h*17 + int64(id)))
	ints := func(n, lim int) []int {
		out := make([]int, n)
		for i := range out {
			out[i] = r.Intn(lim)
		}
		return out
	}
	switch topic {
	case "TRIANGLE":
		// a configuration the source accepts (a saved one always is): one triangle cycle lasts at most 4 s
		mn := RawType(r.Intn(30000))
		return &TriangleSourceConfig{Nchan: 1 + r.Intn(64), SampleRate: float64(2000+r.Intn(100000)) + 0.25*float64(r.Intn(4)), Min: mn, Max: mn + RawType(r.Intn(2000))}
	case "SIMPULSE":
		amps := make([]float64, r.Intn(4))
		for i := range amps {
			amps[i] = float64(r.Intn(20000)) + 0.5
		}
		return &SimPulseSourceConfig{Nchan: 1 + r.Intn(64), SampleRate: float64(1000 + r.Intn(200000)), Pedestal: float64(r.Intn(5000)) + 0.125,
			Amplitudes: amps, Nsamp: 100 + r.Intn(4000)}
	case "LANCERO":
		return &LanceroSourceConfig{FiberMask: uint32(r.Intn(1 << 16)), CardDelay: ints(r.Intn(3), 20), ActiveCards: ints(r.Intn(3), 4),
			ShouldAutoRestart: r.Intn(2) == 0, FirstRow: r.Intn(10), ChanSepCards: r.Intn(3) * 1000, ChanSepColumns: r.Intn(3) * 100,
			DastardOutput: LanceroDastardOutputJSON{Nsamp: r.Intn(20), ClockMHz: 125, AvailableCards: ints(r.Intn(3), 4), Lsync: r.Intn(100), Settle: r.Intn(100), SequenceLength: r.Intn(40), PropagationDelay: r.Intn(10), BAD16CardDelay: r.Intn(4)}}
	case "ABACO":
		hp := []string{}
		for i := 0; i < r.Intn(3); i++ {
			hp = append(hp, fmt.Sprintf("localhost:%d", 4000+r.Intn(1000)))
		}
		return &AbacoSourceConfig{ActiveCards: ints(r.Intn(3), 4), AvailableCards: ints(r.Intn(3), 4), HostPortUDP: hp,
			AbacoUnwrapOptions: AbacoUnwrapOptions{RescaleRaw: true, Unwrap: r.Intn(2) == 0, Bias: r.Intn(2) == 0, ResetAfter: 1 + r.Intn(50000), PulseSign: 1 - 2*r.Intn(2), InvertChan: ints(r.Intn(3), 100)}}
	case "ROACH":
		n := r.Intn(3)
		hp, rates := make([]string, n), make([]float64, n)
		for i := range hp {
			hp[i] = fmt.Sprintf("127.0.0.1:%d", 61000+r.Intn(4000)) // a local address (start-up binds it)
			rates[i] = float64(1000 + r.Intn(100000))
		}
		return &RoachSourceConfig{HostPort: hp, Rates: rates, AbacoUnwrapOptions: AbacoUnwrapOptions{RescaleRaw: true, Unwrap: r.Intn(2) == 0, ResetAfter: 1 + r.Intn(1000), PulseSign: 1}}
	case "STATUS":
		npre := 3 + r.Intn(2000) // what ConfigurePulseLengths accepts: npre >= 3, at least one sample behind the trigger
		if r.Intn(4) == 0 {
			npre = 3 // the boundaries of that rule are legal values too
		}
		post := 1 + r.Intn(4000)
		if r.Intn(4) == 0 {
			post = 1
		}
		return ServerStatus{Running: r.Intn(2) == 0, SourceName: []string{"Triangles", "SimPulses", "Lancero", "Abaco"}[r.Intn(4)], Nchannels: r.Intn(100),
			Nsamples: npre + post, Npresamp: npre, SamplePeriod: time.Duration(1+r.Intn(100000)) * time.Nanosecond * 10,
			ChanGroups: []GroupIndex{{Firstchan: r.Intn(10), Nchan: 1 + r.Intn(50)}}, ChannelsWithProjectors: ints(r.Intn(3), 50)}
	case "WRITING":
		return &WritingState{Active: r.Intn(2) == 0, Paused: r.Intn(2) == 0, BasePath: fmt.Sprintf("/data/run %d/äö", r.Intn(1000)), FilenamePattern: "x_chan%d.ljh",
			WriteLJH22: r.Intn(2) == 0, WriteOFF: r.Intn(2) == 0, ExperimentStateLabel: "START"}
	case "TRIGGER":
		n := 1 + r.Intn(3)
		fts := make([]FullTriggerState, n)
		for i := range fts {
			chans := []int{} // disjoint groups, as ComputeFullTriggerState produces them
			for k := 1 + r.Intn(3); k > 0; k-- {
				chans = append(chans, i*20+r.Intn(20))
			}
			fts[i] = FullTriggerState{ChannelIndices: chans, TriggerState: TriggerState{
				AutoTrigger: r.Intn(2) == 0, AutoDelay: time.Duration(r.Intn(1000000)) * time.Microsecond, AutoVetoRange: RawType(r.Intn(1000)),
				LevelTrigger: r.Intn(2) == 0, LevelRising: r.Intn(2) == 0, LevelLevel: RawType(r.Intn(65536)),
				EdgeTrigger: r.Intn(2) == 0, EdgeRising: r.Intn(2) == 0, EdgeFalling: r.Intn(2) == 0, EdgeLevel: int32(r.Intn(100000) - 50000),
				EdgeMulti: r.Intn(2) == 0,
				EMTBackwardCompatibleRPCFields: EMTBackwardCompatibleRPCFields{EdgeMultiMakeShortRecords: r.Intn(2) == 0, EdgeMultiLevel: int32(r.Intn(1000)), EdgeMultiVerifyNMonotone: r.Intn(5),
					EdgeMultiDisableZeroThreshold: r.Intn(2) == 0}}}
		}
		return fts
	case "TESMAPFILE":
		return fmt.Sprintf("/maps/ar%d.cfg", r.Intn(100))
	case "MIX":
		return ints(2+r.Intn(3), 10)
	case "GROUPTRIGGER":
		return GroupTriggerState{Connections: map[int][]int{r.Intn(4): ints(1+r.Intn(2), 8)}}
	case "NEWDASTARD":
		return "new Dastard is running"
	default: // nosave topics: ALIVE, TRIGGERRATE, NUMBERWRITTEN, CHANNELNAMES, EXTERNALTRIGGER
		return map[string]int{"n": id, "x": r.Intn(1000)}
	}
}

// suCanon: JSON with sorted keys, nulls / empty lists / empty maps removed (nil and empty are "the same" after a YAML round trip).
func suCanon(v any) string {
	b, err := json.Marshal(v)
	if err != nil {
		return "ERR:" + err.Error()
	}
	var x any
	if err = json.Unmarshal(b, &x); err != nil {
		return "ERR:" + err.Error()
	}
	b, _ = json.Marshal(suPrune(x))
	return string(b)
}

func suPrune(x any) any {
	switch t := x.(type) {
	case map[string]any:
		out := map[string]any{}
		for k, v := range t {
			p := suPrune(v)
			if p != nil {
				out[k] = p
			}
		}
		if len(out) == 0 {
			return nil
		}
		return out
	case []any:
		if len(t) == 0 {
			return nil
		}
		out := make([]any, len(t))
		for i, v := range t {
			out[i] = suPrune(v)
		}
		return out
	default:
		return x
	}
}

func suHashSettings(m map[string]any) string {
	delete(m, "currenttime")
	delete(m, "verbose")
	b, _ := json.Marshal(m)
	return fmt.Sprintf("%x", sha1.Sum(b))[:12]
}

func suDesc(path string) vmap {
	fi, err := os.Stat(path)
	if err != nil {
		return vmap{"kind": "absent", "h": ""}
	}
	if fi.Size() == 0 {
		return vmap{"kind": "empty", "h": ""}
	}
	v := viper.New()
	v.SetConfigFile(path)
	v.SetConfigType("yaml")
	if err := v.ReadInConfig(); err != nil {
		return vmap{"kind": "bad", "h": ""}
	}
	m := v.AllSettings()
	delete(m, "verbose")
	if len(m) == 0 {
		return vmap{"kind": "empty", "h": ""}
	}
	return vmap{"kind": "conf", "h": suHashSettings(m)}
}

// suStartup replicates cmd/dastard's makeFileExist + setupViper for HOME=home (the real ones are exercised by the
// separate-process harness on the snapshots).
func suStartup(home string) vmap {
	dot := filepath.Join(home, ".dastard")
	os.MkdirAll(dot, 0775)
	full := filepath.Join(dot, "config.yaml")
	if _, err := os.Stat(full); os.IsNotExist(err) {
		f, err2 := os.OpenFile(full, os.O_WRONLY|os.O_CREATE, 0664)
		if err2 != nil {
			panic(err2)
		}
		f.Close()
	}
	viper.Reset()
	viper.SetDefault("Verbose", false)
	viper.SetConfigName("config")
	viper.AddConfigPath(dot)
	if err := viper.ReadInConfig(); err != nil {
		return vmap{"kind": "bad", "h": "", "err": err.Error()}
	}
	m := viper.AllSettings()
	delete(m, "verbose")
	if len(m) == 0 {
		return vmap{"kind": "empty", "h": ""}
	}
	return vmap{"kind": "conf", "h": suHashSettings(m)}
}

// suRestored performs the UnmarshalKey calls of RunRPCServer / PrepareRun and returns canonical JSON per topic.
func suRestored() map[string]string {
	out := map[string]string{}
	var spc SimPulseSourceConfig
	spc.SampleRate = 1000.0
	if err := viper.UnmarshalKey("simpulse", &spc); err == nil {
		out["SIMPULSE"] = suCanon(&spc)
	}
	var tsc TriangleSourceConfig
	tsc.SampleRate = 1000.0
	if err := viper.UnmarshalKey("triangle", &tsc); err == nil {
		out["TRIANGLE"] = suCanon(&tsc)
	}
	var lsc LanceroSourceConfig
	if err := viper.UnmarshalKey("lancero", &lsc); err == nil {
		out["LANCERO"] = suCanon(&lsc)
	}
	var asc AbacoSourceConfig
	asc.AbacoUnwrapOptions.Unwrap = true
	asc.AbacoUnwrapOptions.ResetAfter = 20000
	if err := viper.UnmarshalKey("abaco", &asc); err == nil {
		out["ABACO"] = suCanon(&asc)
	}
	var rsc RoachSourceConfig
	if err := viper.UnmarshalKey("roach", &rsc); err == nil {
		out["ROACH"] = suCanon(&rsc)
	}
	var st ServerStatus
	if err := viper.UnmarshalKey("status", &st); err == nil {
		out["STATUS"] = suCanon(map[string]int{"Npresamp": st.Npresamp, "Nsamples": st.Nsamples})
	}
	var ws WritingState
	if err := viper.UnmarshalKey("writing", &ws); err == nil {
		out["WRITING"] = suCanon(map[string]string{"BasePath": ws.BasePath})
	}
	// trigger settings: restored by the REAL consumer of the saved topic (AnySource.PrepareRun of a freshly configured
	// source), read back per channel from the processors it builds; the saved file only tells which channels to look at
	var fts []FullTriggerState
	if err := viper.UnmarshalKey("trigger", &fts); err == nil {
		ts := NewTriangleSource()
		per := map[string]TriggerState{}
		if err := ts.Configure(&TriangleSourceConfig{Nchan: 70, SampleRate: 10000, Min: 100, Max: 200}); err == nil && ts.PrepareChannels() == nil && ts.PrepareRun(10, 40) == nil {
			for _, g := range fts {
				for _, ch := range g.ChannelIndices {
					if ch >= 0 && ch < len(ts.processors) {
						per[strconv.Itoa(ch)] = ts.processors[ch].TriggerState
					}
				}
			}
		}
		out["TRIGGER"] = suCanon(per)
	}
	var mapFileName string
	if err := viper.UnmarshalKey("tesmapfile", &mapFileName); err == nil {
		out["TESMAPFILE"] = suCanon(mapFileName)
	}
	return out
}

// suSentCanon is the projection of a published value onto what start-up is supposed to restore from it.
func suSentCanon(topic string, v any) string {
	switch topic {
	case "STATUS":
		st := v.(ServerStatus)
		return suCanon(map[string]int{"Npresamp": st.Npresamp, "Nsamples": st.Nsamples})
	case "WRITING":
		return suCanon(map[string]string{"BasePath": v.(*WritingState).BasePath})
	case "TRIGGER":
		per := map[string]TriggerState{}
		for _, g := range v.([]FullTriggerState) {
			st := g.TriggerState
			st.EdgeMulti = false
			for _, ch := range g.ChannelIndices {
				per[strconv.Itoa(ch)] = st
			}
		}
		return suCanon(per)
	}
	return suCanon(v)
}

func suCopyDir(src, dst string) {
	os.MkdirAll(dst, 0775)
	ents, _ := os.ReadDir(src)
	for _, e := range ents {
		if e.IsDir() {
			suCopyDir(filepath.Join(src, e.Name()), filepath.Join(dst, e.Name()))
			continue
		}
		b, err := os.ReadFile(filepath.Join(src, e.Name()))
		if err == nil {
			os.WriteFile(filepath.Join(dst, e.Name()), b, 0664)
		}
	}
}

func suFiles(home string) vmap {
	dot := filepath.Join(home, ".dastard")
	names := []string{}
	ents, _ := os.ReadDir(dot)
	for _, e := range ents {
		names = append(names, e.Name())
	}
	sort.Strings(names)
	return vmap{"main": suDesc(filepath.Join(dot, "config.yaml")), "tmp": suDesc(filepath.Join(dot, "config.tmp.yaml")),
		"bak": suDesc(filepath.Join(dot, "config.yaml.bak")), "names": names}
}

// remember applies RunClientUpdater's rule for one message to a replica of its maps (used by the save driver only;
// the replay driver uses the real loop).
func suRemember(last map[string]any, lastStr map[string]string, tag string, state any) {
	if tag == "NEWDASTARD" {
		return
	}
	b, _ := json.Marshal(state)
	if lastStr[tag] != string(b) {
		last[tag] = state
		lastStr[tag] = string(b)
	}
}

func suRunSave(id int, sc *suScen, base string) {
	home := filepath.Join(base, fmt.Sprintf("sc%d", id))
	snapBase := filepath.Join(os.Getenv("VERIF_SNAPDIR"), fmt.Sprintf("sc%d", id))
	lastSaveClean := false
	os.MkdirAll(filepath.Join(home, ".dastard"), 0775)
	last, lastStr := map[string]any{}, map[string]string{}
	if sc.Main0 == "conf" {
		// an earlier run left a complete configuration behind
		suStartup(home)
		for _, t := range []string{"TRIANGLE", "STATUS", "TRIGGER", "WRITING"} {
			suRemember(last, lastStr, t, suValue(sc.VSeed, t, 9))
		}
		VCrash = nil
		saveState(last)
		last, lastStr = map[string]any{}, map[string]string{}
	}
	read0 := suStartup(home)
	vEmit(vmap{"ev": "Start", "scen": id, "origin": sc.Origin, "main0": sc.Main0, "read": read0})
	nsnap := 0
	sent := map[string]string{}
	for _, st := range sc.Steps {
		switch st.K {
		case "pub":
			v := suValue(sc.VSeed, st.T, st.V)
			suRemember(last, lastStr, st.T, v)
			vEmit(vmap{"ev": "Pub", "t": st.T, "v": st.V})
			for _, p := range suPersistentRestored {
				if p == st.T {
					sent[st.T] = suSentCanon(st.T, v)
				}
			}
		case "save":
			pre := suFiles(home)
			// what the complete new version looks like: run the same save, un-killed, on a copy of the directory
			// (viper's in-memory state is changed identically by both calls)
			sib := home + "_sib"
			os.RemoveAll(sib)
			suCopyDir(home, sib)
			mainname := viper.ConfigFileUsed()
			viper.SetConfigFile(filepath.Join(sib, ".dastard", "config.yaml"))
			VCrash = nil
			saveState(last)
			newDesc := suDesc(filepath.Join(sib, ".dastard", "config.yaml"))
			viper.SetConfigFile(mainname)
			os.RemoveAll(sib)
			point := suCrashPoints[st.Crash]
			hit := false
			VCrash = func(name string) bool {
				if point != "" && name == point {
					hit = true
					return true
				}
				return false
			}
			saveState(last)
			VCrash = nil
			if st.Crash == 2 && st.Partial {
				tmp := filepath.Join(home, ".dastard", "config.tmp.yaml")
				if b, err := os.ReadFile(tmp); err == nil {
					os.WriteFile(tmp, b[:len(b)/2], 0664)
				}
			}
			post := suFiles(home)
			snapSent := map[string]string{}
			for k, v := range sent {
				snapSent[k] = v
			}
			lastSaveClean = st.Crash == 0
			vEmit(vmap{"ev": "Save", "crash": st.Crash, "partial": st.Partial, "hit": hit || st.Crash == 0, "pre": pre, "post": post, "new": newDesc, "sent": snapSent})
		case "restart":
			nsnap++
			snap := filepath.Join(snapBase, fmt.Sprintf("r%d", nsnap))
			suCopyDir(home, snap)
			if lastSaveClean && len(sent) >= 3 { // worth a complete start-up in a process of its own (see cmddastard harness)
				os.WriteFile(filepath.Join(snap, "FULLSTART"), []byte("x"), 0664)
			}
			read := suStartup(home)
			restored := suRestored()
			vEmit(vmap{"ev": "Restart", "read": read, "snap": snap, "restored": restored, "sent": map[string]string{}, "files": suFiles(home), "timed": false})
			last, lastStr = map[string]any{}, map[string]string{}
			sent = map[string]string{}
		}
	}
	vEmit(vmap{"ev": "End"})
}

func suRandom(rng *rand.Rand) suScen {
	topics := []string{"TRIANGLE", "SIMPULSE", "LANCERO", "ABACO", "ROACH", "STATUS", "WRITING", "TRIGGER", "TESMAPFILE", "MIX", "GROUPTRIGGER",
		"ALIVE", "TRIGGERRATE", "NEWDASTARD", "NUMBERWRITTEN"}
	sc := suScen{Origin: "seeded", Main0: []string{"empty", "conf"}[rng.Intn(2)], VSeed: rng.Int63n(1 << 30)}
	nphase := 1 + rng.Intn(3)
	for ph := 0; ph < nphase; ph++ {
		for i := 0; i < 1+rng.Intn(8); i++ {
			sc.Steps = append(sc.Steps, suStep{K: "pub", T: topics[rng.Intn(len(topics))], V: 1 + rng.Intn(3)})
		}
		crash := rng.Intn(5)
		sc.Steps = append(sc.Steps, suStep{K: "save", Crash: crash, Partial: crash == 2 && rng.Intn(2) == 0})
		if crash == 0 && rng.Intn(2) == 0 {
			// a second save in the same process, possibly killed
			for i := 0; i < rng.Intn(4); i++ {
				sc.Steps = append(sc.Steps, suStep{K: "pub", T: topics[rng.Intn(len(topics))], V: 1 + rng.Intn(3)})
			}
			crash = rng.Intn(5)
			sc.Steps = append(sc.Steps, suStep{K: "save", Crash: crash, Partial: crash == 2 && rng.Intn(2) == 0})
		}
		sc.Steps = append(sc.Steps, suStep{K: "restart"})
	}
	return sc
}

func TestVerifStatusSave(t *testing.T) {
	var scens []suScen
	vLoadScen(&scens)
	rng := vRng()
	for i := 0; i < vNRandom; i++ {
		scens = append(scens, suRandom(rng))
	}
	base, err := os.MkdirTemp("", "verif_status")
	if err != nil {
		t.Fatal(err)
	}
	defer os.RemoveAll(base)
	for i := range scens {
		suRunSave(i+1, &scens[i], base)
	}
}

// ---------------------------------------------------------------------------------------- replay over ZMQ

// (The marker travels under the topic EXTERNALTRIGGER: a topic the scenarios do not use and that is NOT saved, so that the
// marker never arms or cancels the updater's delayed save.  It used to be a topic of its own, which the updater treats as
// a persistent one: every synchronisation re-armed the save.)
// suRecvUntilMark pushes a marker message through the updater and receives until it comes back: the updater handles its
// channel in order and PUB/SUB keeps the order, so everything published before the marker has been received by then.
// (No guessing with quiet periods.)  Returns the messages before the marker; ok=false if the marker never arrived.
var suMarkN int

func suRecvUntilMark(sub *zmq4.Socket) ([][]string, bool) {
	suMarkN++
	mark := fmt.Sprintf("%d", suMarkN)
	clientMessageChan <- ClientUpdate{tag: "EXTERNALTRIGGER", state: suMarkN}
	out := [][]string{}
	deadline := time.Now().Add(10 * time.Second)
	for time.Now().Before(deadline) {
		msg, err := sub.RecvMessage(zmq4.DONTWAIT)
		if err != nil {
			time.Sleep(time.Millisecond)
			continue
		}
		if len(msg) == 2 {
			if msg[0] == "EXTERNALTRIGGER" && msg[1] == mark {
				return out, true
			}
			out = append(out, []string{msg[0], msg[1]})
		}
	}
	return out, false
}

func TestVerifStatusReplay(t *testing.T) {
	var scens []suScen
	vLoadScen(&scens)
	base, err := os.MkdirTemp("", "verif_replay")
	if err != nil {
		t.Fatal(err)
	}
	defer os.RemoveAll(base)
	_ = vRng()
	for i := range scens {
		sc := &scens[i]
		id := i + 1
		home := filepath.Join(base, fmt.Sprintf("rp%d", id))
		read0 := suStartup(home)
		port := vFreePort("tcp")
		abort := make(chan struct{})
		done := make(chan struct{})
		go func() { defer close(done); RunClientUpdater(port, abort) }()
		sub, err := zmq4.NewSocket(zmq4.SUB)
		if err != nil {
			t.Fatal(err)
		}
		sub.SetSubscribe("")
		if err = sub.Connect(fmt.Sprintf("tcp://localhost:%d", port)); err != nil {
			t.Fatal(err)
		}
		// slow joiner: keep sending markers until one comes through (RunClientUpdater sleeps 250 ms before its loop)
		joined := false
		for k := 0; k < 100 && !joined; k++ {
			suMarkN++
			clientMessageChan <- ClientUpdate{tag: "EXTERNALTRIGGER", state: suMarkN}
			deadline := time.Now().Add(100 * time.Millisecond)
			for time.Now().Before(deadline) {
				if msg, err := sub.RecvMessage(zmq4.DONTWAIT); err == nil && len(msg) == 2 && msg[0] == "EXTERNALTRIGGER" {
					joined = true
					break
				}
				time.Sleep(time.Millisecond)
			}
		}
		if !joined {
			t.Fatal("SUB socket never received anything from the updater")
		}
		vEmit(vmap{"ev": "Start", "scen": id, "origin": sc.Origin, "main0": "empty", "read": read0, "replay": true})
		vEmit(vmap{"ev": "Pub", "t": "EXTERNALTRIGGER", "v": 0}) // the marker is a topic like any other: it is replayed by SENDALL
		ids := map[string]int{}                            // "topic\x00json" -> value id
		sent := map[string]string{}
		lastChange := time.Now()
		for _, st := range sc.Steps {
			switch st.K {
			case "pub":
				v := suValue(sc.VSeed, st.T, st.V)
				b, _ := json.Marshal(v)
				ids[st.T+"\x00"+string(b)] = st.V
				clientMessageChan <- ClientUpdate{tag: st.T, state: v}
				lastChange = time.Now()
				vEmit(vmap{"ev": "Pub", "t": st.T, "v": st.V})
				for _, p := range suPersistentRestored {
					if p == st.T {
						sent[st.T] = suSentCanon(st.T, v)
					}
				}
			case "sendall":
				if _, ok := suRecvUntilMark(sub); !ok { // everything published live so far has been received
					t.Fatal("marker lost (live)")
				}
				clientMessageChan <- ClientUpdate{tag: "SENDALL", state: 0}
				msgs, ok := suRecvUntilMark(sub)
				if !ok {
					t.Fatal("marker lost (sendall)")
				}
				lastChange = time.Now() // the markers are status changes too: they re-arm the delayed save
				got := [][]any{}
				for _, m := range msgs {
					if m[0] == "EXTERNALTRIGGER" {
						got = append(got, []any{m[0], 0}) // every marker value counts as "the" value of that topic
						continue
					}
					vid, ok := ids[m[0]+"\x00"+m[1]]
					if !ok {
						vid = -1 // a body that was never published under that topic
					}
					got = append(got, []any{m[0], vid})
				}
				vEmit(vmap{"ev": "SendAll", "got": got})
			case "wait":
				// let the delayed save (2 s after the last change) happen, then look at the file like a restart would
				time.Sleep(time.Until(lastChange.Add(2600 * time.Millisecond)))
				vEmit(vmap{"ev": "TimedSave", "post": suFiles(home)})
			case "restart":
				close(abort)
				<-done
				abort = nil
				read := suStartup(home)
				vEmit(vmap{"ev": "Restart", "read": read, "snap": "", "restored": suRestored(), "sent": sent, "files": suFiles(home), "timed": true})
			}
		}
		if abort != nil {
			close(abort)
			<-done
		}
		sub.Close()
		vEmit(vmap{"ev": "End"})
	}
	_ = strings.ToLower
}

// ---------------------------------------------------------------------------------------- end to end
// TestVerifStatusE2E: the real SourceControl next to the real RunClientUpdater.  What the configuration file holds for a
// persistent topic after the updater's delayed save must be the LAST value of that topic that clients were told - also
// when the server's own copy moved on without a publication (a Start that fails, projectors loaded).
// Needs VERIF_REAL_CLIENTUPDATER=1.  One event:  E2E  topics = [[topic, published (canonical), saved (canonical)] ...]
func TestVerifStatusE2E(t *testing.T) {
	base, err := os.MkdirTemp("", "verif_e2e")
	if err != nil {
		t.Fatal(err)
	}
	defer os.RemoveAll(base)
	for scen, variant := range []string{"failed-start", "projectors", "rejected-config"} {
		home := filepath.Join(base, variant)
		suStartup(home)
		port := vFreePort("tcp")
		abort := make(chan struct{})
		done := make(chan struct{})
		go func() { defer close(done); RunClientUpdater(port, abort) }()
		sub, err := zmq4.NewSocket(zmq4.SUB)
		if err != nil {
			t.Fatal(err)
		}
		sub.SetSubscribe("")
		sub.Connect(fmt.Sprintf("tcp://localhost:%d", port))
		time.Sleep(500 * time.Millisecond)
		last := map[string]string{}
		drain := func() {
			msgs, _ := suRecvUntilMark(sub)
			for _, m := range msgs {
				last[m[0]] = m[1]
			}
		}
		ctl := NewSourceControl()
		ctl.clientUpdates = clientMessageChan
		ctl.mapServer = newMapServer()
		ctl.status.Npresamp, ctl.status.Nsamples = 10, 40
		stopHB := make(chan struct{})
		go func() {
			for {
				select {
				case <-ctl.heartbeats:
				case <-stopHB:
					return
				}
			}
		}()
		ok := false
		ctl.ConfigureSimPulseSource(&SimPulseSourceConfig{Nchan: 2, SampleRate: 20000, Pedestal: 1000, Amplitudes: []float64{3000}, Nsamp: 400}, &ok)
		name := "SIMPULSESOURCE"
		if err := ctl.Start(&name, &ok); err != nil {
			t.Fatal(err)
		}
		time.Sleep(150 * time.Millisecond)
		if variant == "projectors" {
			pbo := ProjectorsBasisObject{ChannelIndex: 1, ProjectorsBase64: rqMatrix(3, 40), BasisBase64: rqMatrix(40, 3), ModelDescription: "x"}
			drain()
			rqCall(func() error { return ctl.ConfigureProjectorsBasis(&pbo, &ok) }, 5*time.Second)
		}
		lens := SizeObject{Nsamp: 41, Npre: 40} // a legal boundary: exactly one sample behind the trigger
		if variant == "rejected-config" {
			rqCall(func() error { return ctl.ConfigurePulseLengths(lens, &ok) }, 5*time.Second)
		}
		d := "x"
		rqCall(func() error { return ctl.Stop(&d, &ok) }, 5*time.Second)
		drain() // everything published so far has gone through the updater and reached the client
		if variant == "failed-start" {
			other := "LANCEROSOURCE" // no cards here: the Start fails
			ctl.Start(&other, &ok)
		}
		// another persistent topic changes: the updater schedules its delayed save (2 s)
		accTri := &TriangleSourceConfig{Nchan: 3, SampleRate: 30000, Min: 100, Max: 400}
		ctl.ConfigureTriangleSource(accTri, &ok)
		accepted := vmap{}
		rejected := []string{}
		if variant == "rejected-config" {
			// requests the sources REFUSE (error reply): what is saved for the next start-up must stay what the sources accepted
			accepted["TRIANGLE"] = suCanon(accTri)
			if ctl.status.Nsamples == lens.Nsamp && ctl.status.Npresamp == lens.Npre { // (the request was accepted)
				accepted["STATUS"] = suCanon(map[string]any{"Npresamp": lens.Npre, "Nsamples": lens.Nsamp})
			}
			accepted["SIMPULSE"] = suCanon(&SimPulseSourceConfig{Nchan: 2, SampleRate: 20000, Pedestal: 1000, Amplitudes: []float64{3000}, Nsamp: 400})
			if err := ctl.ConfigureTriangleSource(&TriangleSourceConfig{Nchan: 2, SampleRate: 30000, Min: 500, Max: 100}, &ok); err == nil {
				rejected = append(rejected, "triangle min>max accepted")
			}
			if err := ctl.ConfigureTriangleSource(&TriangleSourceConfig{Nchan: 2, SampleRate: 1, Min: 0, Max: 1000}, &ok); err == nil {
				rejected = append(rejected, "triangle 2000 s cycle accepted")
			}
			if err := ctl.ConfigureSimPulseSource(&SimPulseSourceConfig{Nchan: -2, SampleRate: 20000, Pedestal: 1000, Amplitudes: []float64{3000}, Nsamp: 400}, &ok); err == nil {
				rejected = append(rejected, "simpulse nchan<0 accepted")
			}
		}
		drain()
		time.Sleep(2600 * time.Millisecond)
		drain()
		// what the file holds now
		v := viper.New()
		v.SetConfigFile(filepath.Join(home, ".dastard", "config.yaml"))
		topics := [][]string{}
		if err := v.ReadInConfig(); err == nil {
			var st ServerStatus
			if v.UnmarshalKey("status", &st) == nil && last["STATUS"] != "" {
				var pub ServerStatus
				if json.Unmarshal([]byte(last["STATUS"]), &pub) == nil {
					topics = append(topics, []string{"STATUS", suCanon(pub), suCanon(st)})
				}
			}
			var tc TriangleSourceConfig
			if v.UnmarshalKey("triangle", &tc) == nil && last["TRIANGLE"] != "" {
				var pub TriangleSourceConfig
				if json.Unmarshal([]byte(last["TRIANGLE"]), &pub) == nil {
					topics = append(topics, []string{"TRIANGLE", suCanon(pub), suCanon(tc)})
				}
			}
		}
		snap := ""
		if sd := os.Getenv("VERIF_SNAPDIR"); sd != "" && variant == "rejected-config" {
			// the configuration directory as the next start-up will find it: started for real by the cmd/dastard harness
			snap = filepath.Join(sd, "sce2e_"+variant, "r1")
			os.MkdirAll(snap, 0775)
			suCopyDir(filepath.Join(home, ".dastard"), filepath.Join(snap, ".dastard"))
			os.WriteFile(filepath.Join(snap, "FULLSTART"), []byte("x"), 0664)
		}
		vEmit(vmap{"ev": "E2E", "scen": scen + 1, "variant": variant, "topics": topics, "snap": snap, "accepted": accepted, "notrefused": rejected})
		close(stopHB)
		close(abort)
		select {
		case <-done:
		case <-time.After(3 * time.Second):
		}
		sub.Close()
	}
}
