package dastard

// C10 on the real Abaco UDP path (localhost): a Start that fails because no data arrive yet, a later Start once data
// flow, Stop, restart.  Records what each call returned and which goroutines are left.

import (
	"fmt"
	"math/rand"
	"net"
	"os"
	"runtime"
	"strings"
	"sync"
	"testing"
	"time"

	"github.com/usnistgov/dastard/packets"
)

func auCensus() map[string]int {
	buf := make([]byte, 1<<20)
	n := runtime.Stack(buf, true)
	out := map[string]int{"core": 0, "udp": 0, "reader": 0}
	for _, g := range strings.Split(string(buf[:n]), "\n\n") {
		if strings.Contains(g, "dastard.CoreLoop(") {
			out["core"]++
		}
		if strings.Contains(g, "AbacoUDPReceiver).start.func1") {
			out["udp"]++
		}
		if strings.Contains(g, "AbacoSource).readerMainLoop") {
			out["reader"]++
		}
	}
	return out
}

func auSender(addr string, stop chan struct{}) {
	conn, err := net.Dial("udp", addr)
	if err != nil {
		return
	}
	defer conn.Close()
	p := packets.NewPacket(10, 1, 0, 0)
	sn := 0
	const nch, fpp = 4, 20
	tick := time.NewTicker(150 * time.Microsecond)
	defer tick.Stop()
	for {
		select {
		case <-stop:
			return
		case <-tick.C:
			d := make([]int16, nch*fpp)
			for i := range d {
				d[i] = int16((sn*fpp + i/nch) % 3000)
			}
			p.NewData(d, []int16{nch})
			p.SetTimestamp(&packets.PacketTimestamp{T: uint64(1000000 + sn*fpp*1000), Rate: 1e8})
			conn.Write(p.Bytes())
			sn++
		}
	}
}

// Gate on the receiver goroutine (hooks AbacoUDP.loop / AbacoUDP.stop / AbacoUDP.stopped): when armed, stop() first
// waits until the receiver goroutine stands just before its select, and the goroutine is released only once stop() has
// closed both the socket and the sendmore channel.  That is the schedule in which the goroutine learns of the stop from
// the closed channel rather than from the read error; without the gate it is a matter of timing.
var au struct {
	mu      sync.Mutex
	armed   bool
	holding bool
	parked  chan struct{} // closed when the receiver goroutine is parked
	release chan struct{} // closed when it may go on
	gated   int
}

func auVPoint(name string) {
	switch name {
	case "AbacoUDP.loop":
		au.mu.Lock()
		if !au.holding || au.parked == nil {
			au.mu.Unlock()
			return
		}
		pk, rel := au.parked, au.release
		au.parked = nil // only the first arrival parks
		au.mu.Unlock()
		close(pk)
		<-rel
	case "AbacoUDP.stop":
		au.mu.Lock()
		if !au.armed {
			au.mu.Unlock()
			return
		}
		au.holding = true
		au.parked, au.release = make(chan struct{}), make(chan struct{})
		pk := au.parked
		au.mu.Unlock()
		select {
		case <-pk:
			au.mu.Lock()
			au.gated++
			au.mu.Unlock()
		case <-time.After(2 * time.Second): // the goroutine is gone already or sits elsewhere: go on ungated
		}
	case "AbacoUDP.stopped":
		au.mu.Lock()
		if au.holding {
			au.holding = false
			au.parked = nil
			close(au.release)
		}
		au.mu.Unlock()
	default:
		lcVPoint(name)
	}
}

func auCall(f func() error, limit time.Duration) (bool, string) {
	ch := make(chan error, 1)
	go func() {
		defer func() {
			if r := recover(); r != nil {
				ch <- fmt.Errorf("PANIC: %v", r)
			}
		}()
		ch <- f()
	}()
	select {
	case err := <-ch:
		if err != nil {
			return true, err.Error()
		}
		return true, ""
	case <-time.After(limit):
		return false, ""
	}
}

func TestVerifAbacoUDP(t *testing.T) {
	VPoint = auVPoint
	c0 := auCensus()
	port := vFreePort("udp")
	addr := fmt.Sprintf("127.0.0.1:%d", port)
	as, err := NewAbacoSource()
	if err != nil {
		t.Fatal(err)
	}
	if err := as.Configure(&AbacoSourceConfig{HostPortUDP: []string{addr}}); err != nil {
		t.Fatal(err)
	}
	q := make(chan func())
	step := func(name string, f func() error, limit time.Duration) {
		ret, msg := auCall(f, limit)
		c := auCensus()
		vEmit(vmap{"ev": "UDPStep", "scen": 1, "step": name, "returned": ret, "err": msg, "state": lcStateName(as.GetState()), "writing": as.WritingIsActive(),
			"census": vmap{"core": c["core"] - c0["core"], "udp": c["udp"] - c0["udp"], "reader": c["reader"] - c0["reader"]}})
	}
	// 1. nothing is sending: Start must fail and leave the source startable
	step("start-nodata", func() error { return Start(as, q, 10, 40) }, 15*time.Second)
	// 2. data flow now: the same source must start
	stop := make(chan struct{})
	go auSender(addr, stop)
	time.Sleep(50 * time.Millisecond)
	step("start-data", func() error { return Start(as, q, 10, 40) }, 15*time.Second)
	time.Sleep(300 * time.Millisecond)
	step("stop", func() error { return as.Stop() }, 10*time.Second)
	time.Sleep(300 * time.Millisecond)
	step("after-stop", func() error { return nil }, time.Second)
	// 3. restart of the same object
	if err := as.Configure(&AbacoSourceConfig{HostPortUDP: []string{addr}}); err != nil {
		vEmit(vmap{"ev": "UDPStep", "scen": 1, "step": "reconfigure", "returned": true, "err": err.Error(), "state": lcStateName(as.GetState()), "writing": false, "census": vmap{"core": 0, "udp": 0, "reader": 0}})
	}
	step("restart", func() error { return Start(as, q, 10, 40) }, 15*time.Second)
	time.Sleep(200 * time.Millisecond)
	step("stop2", func() error { return as.Stop() }, 10*time.Second)
	// more stop/start cycles with data flowing: whether the receiver goroutine is reading the socket or looking at its
	// channels when stop() arrives is a matter of timing
	for k := 0; k < 8; k++ {
		if err := as.Configure(&AbacoSourceConfig{HostPortUDP: []string{addr}}); err != nil {
			break
		}
		step("restart", func() error { return Start(as, q, 10, 40) }, 15*time.Second)
		time.Sleep(time.Duration(20+7*k) * time.Millisecond)
		step("stop2", func() error { return as.Stop() }, 10*time.Second)
	}
	// (An Abaco source whose hardware falls silent does not end by itself: getNextBlock panics on purpose after
	// cap(buffersChan) read periods - "timeout, no data from Abaco" - which takes the server down by design.  The source
	// that does end by itself on silence is the ROACH source: see TestVerifRoachSelfEnd.)
	// the same cycles under the gate: the receiver goroutine stands before its select while stop() closes socket and channel
	au.mu.Lock()
	au.armed = true
	au.mu.Unlock()
	for k := 0; k < 3; k++ {
		if err := as.Configure(&AbacoSourceConfig{HostPortUDP: []string{addr}}); err != nil {
			break
		}
		step("restart", func() error { return Start(as, q, 10, 40) }, 15*time.Second)
		time.Sleep(30 * time.Millisecond)
		step("stop2", func() error { return as.Stop() }, 10*time.Second)
	}
	au.mu.Lock()
	au.armed = false
	au.mu.Unlock()
	// a run that ends by itself: the sender falls silent and the reader gives up after its 5 s time-out (closing its
	// devices on the way).  getNextBlock has a panic timer of the same length that is re-armed whenever it is called; a
	// request that keeps the core loop busy for 2 s while the silence begins makes the orderly time-out come first.
	if err := as.Configure(&AbacoSourceConfig{HostPortUDP: []string{addr}}); err == nil {
		step("restart", func() error { return Start(as, q, 10, 40) }, 15*time.Second)
		time.Sleep(100 * time.Millisecond)
		select {
		case q <- func() { close(stop); time.Sleep(2 * time.Second) }:
		case <-time.After(5 * time.Second):
			close(stop)
		}
		for i := 0; i < 200 && as.GetState() != Inactive; i++ {
			time.Sleep(50 * time.Millisecond)
		}
		step("stop-after-selfend", func() error { as.Stop(); return nil }, 10*time.Second)
		time.Sleep(200 * time.Millisecond)
		step("after-selfend", func() error { return nil }, time.Second)
		// ... and the same source starts again once data flow
		stop = make(chan struct{})
		go auSender(addr, stop)
		time.Sleep(50 * time.Millisecond)
		if err := as.Configure(&AbacoSourceConfig{HostPortUDP: []string{addr}}); err != nil {
			vEmit(vmap{"ev": "UDPStep", "scen": 1, "step": "restart", "returned": true, "err": "Configure: " + err.Error(), "state": lcStateName(as.GetState()), "writing": false, "census": vmap{"core": 0, "udp": 0, "reader": 0}})
		} else {
			step("restart", func() error { return Start(as, q, 10, 40) }, 15*time.Second)
			time.Sleep(50 * time.Millisecond)
			step("stop2", func() error { return as.Stop() }, 10*time.Second)
		}
	}
	au.mu.Lock()
	au.armed = true
	au.mu.Unlock()
	close(stop)
	time.Sleep(300 * time.Millisecond)
	// gated failing Start: nothing is sending any more, Sample() finds no data and stops the receivers it opened
	if err := as.Configure(&AbacoSourceConfig{HostPortUDP: []string{addr}}); err == nil {
		step("start-nodata", func() error { return Start(as, q, 10, 40) }, 15*time.Second)
	}
	au.mu.Lock()
	au.armed = false
	g := au.gated
	au.mu.Unlock()
	time.Sleep(300 * time.Millisecond)
	step("end", func() error { return nil }, time.Second)
	vEmit(vmap{"ev": "UDPGated", "scen": 1, "gated": g})
}

// TestVerifRoachSelfEnd: a real source that ends by itself while data are being written.  A scripted ROACH sends packets,
// the source is started through Start(), writing is switched on through the request queue, the device falls silent; after
// its 2 s keep-alive the reader reports an error block and the core loop ends.  A Stop that comes afterwards finds nothing
// to stop.  Recorded as UDPStep events (same predicates as the Abaco cycles).
func TestVerifRoachSelfEnd(t *testing.T) {
	census := func() map[string]int {
		buf := make([]byte, 1<<20)
		n := runtime.Stack(buf, true)
		out := map[string]int{"core": 0, "udp": 0, "reader": 0}
		for _, g := range strings.Split(string(buf[:n]), "\n\n") {
			if strings.Contains(g, "dastard.CoreLoop(") {
				out["core"]++
			}
			if strings.Contains(g, "RoachDevice).readPackets") {
				out["udp"]++
			}
			if strings.Contains(g, "RoachSource).StartRun.func1") {
				out["reader"]++
			}
		}
		return out
	}
	c0 := census()
	port := vFreePort("udp")
	addr := fmt.Sprintf("127.0.0.1:%d", port)
	rs, err := NewRoachSource()
	if err != nil {
		t.Fatal(err)
	}
	q := make(chan func())
	step := func(name string, f func() error, limit time.Duration) {
		ret, msg := auCall(f, limit)
		c := census()
		// is data writing on?  Read from the reported state and from the channels themselves (open writers), not through
		// the predicate the code itself uses to decide whether a run end must stop writing
		// (only once the run is over: while it runs, the state is the core loop's)
		writing := rs.WritingIsActive()
		if rs.GetState() == Inactive {
			ws := rs.ComputeWritingState()
			open := 0
			for _, dsp := range rs.processors {
				if dsp.HasLJH22() || dsp.HasLJH3() || dsp.HasOFF() {
					open++
				}
			}
			writing = ws.Active || open > 0
		}
		vEmit(vmap{"ev": "UDPStep", "scen": 2, "step": name, "returned": ret, "err": msg, "state": lcStateName(rs.GetState()), "writing": writing,
			"census": vmap{"core": c["core"] - c0["core"], "udp": c["udp"] - c0["udp"], "reader": c["reader"] - c0["reader"]}})
	}
	sender := func(stop chan struct{}) {
		conn, err := net.Dial("udp", addr)
		if err != nil {
			return
		}
		defer conn.Close()
		junk := rand.New(rand.NewSource(1))
		sn := uint64(5000)
		tick := time.NewTicker(time.Millisecond)
		defer tick.Stop()
		for {
			select {
			case <-stop:
				return
			case <-tick.C:
				vals := make([][]int, 10)
				for j := range vals {
					vals[j] = []int{int(sn+uint64(j)) % 3000, 7000}
				}
				conn.Write(roBytes(2, 2, sn, vals, junk))
				sn += 10
			}
		}
	}
	cycles := 2
	if os.Getenv("VERIF_SELFEND_CYCLES") == "1" {
		cycles = 1 // (race-detector workload: one run, the paused one; no re-configuration right behind a run's end)
	}
	for cycle := 0; cycle < cycles; cycle++ {
		if err := rs.Configure(&RoachSourceConfig{HostPort: []string{addr}, Rates: []float64{10000}}); err != nil {
			vEmit(vmap{"ev": "UDPStep", "scen": 2, "step": "reconfigure", "returned": true, "err": err.Error(), "state": lcStateName(rs.GetState()), "writing": false, "census": vmap{"core": 0, "udp": 0, "reader": 0}})
			return
		}
		stop := make(chan struct{})
		go sender(stop)
		time.Sleep(30 * time.Millisecond)
		step("restart", func() error { return Start(rs, q, 10, 40) }, 15*time.Second)
		wdir, _ := os.MkdirTemp("", "verif_roach")
		defer os.RemoveAll(wdir)
		step("write-start", func() error {
			res := make(chan error, 1)
			select {
			case q <- func() { res <- rs.WriteControl(&WriteControlConfig{Request: "Start", Path: wdir, WriteLJH22: true}) }:
				return <-res
			case <-time.After(5 * time.Second):
				return fmt.Errorf("the core loop did not take the request")
			}
		}, 10*time.Second)
		time.Sleep(150 * time.Millisecond)
		if cycle == cycles-1 {
			// the last run is PAUSED when it ends by itself: writing must be stopped all the same
			step("write-pause", func() error {
				res := make(chan error, 1)
				select {
				case q <- func() { res <- rs.WriteControl(&WriteControlConfig{Request: "Pause"}) }:
					return <-res
				case <-time.After(5 * time.Second):
					return fmt.Errorf("the core loop did not take the request")
				}
			}, 10*time.Second)
		}
		// a client that keeps asking whether writing is on while the run comes to its own end (what the RPC layer does
		// before a pulse-length change); under the race detector this is the other party of the hand-over
		pollDone := make(chan struct{})
		go func() {
			defer close(pollDone)
			for i := 0; i < 200000 && rs.GetState() != Inactive; i++ {
				rs.WritingIsActive()
				time.Sleep(50 * time.Microsecond)
			}
			for i := 0; i < 2000; i++ {
				rs.WritingIsActive()
			}
		}()
		defer func() { <-pollDone }()
		close(stop) // silence: the reader gives up after its 2 s keep-alive
		for i := 0; i < 120 && rs.GetState() != Inactive; i++ {
			time.Sleep(50 * time.Millisecond)
		}
		step("stop-after-selfend", func() error { rs.Stop(); return nil }, 10*time.Second)
		time.Sleep(200 * time.Millisecond)
		step("after-selfend", func() error { return nil }, time.Second)
	}
}
