package dastard

// ROACH ingest over localhost UDP (spec/RoachIngest.tla, spec/RoachTrace.tla; unwrap part: spec/PhaseUnwrapTrace.tla).
// A scripted "device" sends packets to a real RoachDevice; samplePacket() and readPackets() run as in production.
// The total traffic of a scenario stays far below the socket buffer, so the loopback cannot lose a packet: what the
// harness did not send is the only loss.

import (
	"encoding/binary"
	"fmt"
	"math/rand"
	"net"
	"testing"
	"time"
)

type roPkt struct {
	Nsamp int  `json:"nsamp"`
	Cut   bool `json:"cut"`  // wait longer than the bundling time before this packet: it starts a new block
	Lost  bool `json:"lost"` // the device counts it, the network drops it
}

type roScen struct {
	Origin    string  `json:"origin"`
	NChan     int     `json:"nchan"`
	WordLen   int     `json:"wordlen"` // 2 or 4 bytes
	Bias      bool    `json:"bias"`
	PulseSign int     `json:"pulsesign"`
	Mode      int     `json:"mode"`
	Packets   []roPkt `json:"packets"` // the first one is consumed by samplePacket()
	MidLoss   bool    `json:"midloss"` // a loss lies inside a bundle (named deviation FirstPacketOnly): observations only
}

func roBytes(nchan, wordlen int, sampnum uint64, vals [][]int, junk *rand.Rand) []byte {
	nsamp := len(vals)
	b := make([]byte, 16, 16+nsamp*nchan*wordlen)
	b[1] = 1
	binary.BigEndian.PutUint16(b[2:], uint16(nchan))
	binary.BigEndian.PutUint16(b[4:], uint16(nsamp))
	flags := uint16(1)
	if wordlen == 4 {
		flags = 2
	}
	binary.BigEndian.PutUint16(b[6:], flags)
	binary.BigEndian.PutUint64(b[8:], sampnum)
	for j := 0; j < nsamp; j++ {
		for c := 0; c < nchan; c++ {
			var w [4]byte
			binary.BigEndian.PutUint16(w[:], uint16(vals[j][c]))
			if wordlen == 4 {
				binary.BigEndian.PutUint16(w[2:], uint16(junk.Intn(65536))) // the low half is thrown away by the parser
			}
			b = append(b, w[:wordlen]...)
		}
	}
	return b
}

func roRandom(rng *rand.Rand, k int) roScen {
	sc := roScen{Origin: "seeded", NChan: 1 + rng.Intn(5), WordLen: 2 + 2*rng.Intn(2), Bias: rng.Intn(2) == 0, PulseSign: 1 - 2*rng.Intn(2), Mode: rng.Intn(3)}
	np := 3 + rng.Intn(10)
	for i := 0; i < np; i++ {
		sc.Packets = append(sc.Packets, roPkt{Nsamp: 1 + rng.Intn(12), Cut: i > 1 && rng.Intn(3) == 0})
	}
	switch k % 4 {
	case 1: // a loss between bundles: the packet after the lost one starts a new block
		if np > 4 {
			i := 2 + rng.Intn(np-3)
			sc.Packets[i].Lost = true
			sc.Packets[i+1].Cut = true
		}
	case 2: // a loss inside a bundle
		if np > 4 {
			i := 2 + rng.Intn(np-3)
			sc.Packets[i].Lost = true
			sc.Packets[i].Cut, sc.Packets[i+1].Cut, sc.Packets[i-1].Cut = false, false, false
			sc.MidLoss = true
		}
	}
	return sc
}

func roRun(id int, sc *roScen, rng *rand.Rand) {
	port := vFreePort("udp")
	addr := fmt.Sprintf("127.0.0.1:%d", port)
	var dev *RoachDevice
	var err error
	for try := 0; try < 50; try++ { // the previous scenario's socket may take a moment to go away
		if dev, err = NewRoachDevice(addr, 100000); err == nil {
			break
		}
		time.Sleep(20 * time.Millisecond)
	}
	if err != nil {
		vEmit(vmap{"ev": "RoachSkip", "scen": id, "why": err.Error()})
		return
	}
	dev.unwrapOpts = AbacoUnwrapOptions{RescaleRaw: true, Unwrap: true, Bias: sc.Bias, PulseSign: sc.PulseSign, ResetAfter: 20000}
	conn, err := net.Dial("udp", addr)
	if err != nil {
		dev.conn.Close()
		vEmit(vmap{"ev": "RoachSkip", "scen": id, "why": err.Error()})
		return
	}
	defer conn.Close()
	// the device's signal: one walk per channel
	x := make([]int, sc.NChan)
	for c := range x {
		x[c] = rng.Intn(65536)
	}
	next := func() []int {
		row := make([]int, sc.NChan)
		for c := range x {
			switch sc.Mode {
			case 0:
				x[c] += rng.Intn(700) - 300
			case 1:
				x[c] += 8192 + rng.Intn(9) - 4
			default:
				x[c] = rng.Intn(65536)
			}
			x[c] = ((x[c] % 65536) + 65536) % 65536
			row[c] = x[c]
		}
		return row
	}
	vEmit(vmap{"ev": "RoachBegin", "scen": id, "origin": sc.Origin, "nchan": sc.NChan, "wordlen": sc.WordLen, "midloss": sc.MidLoss, "npackets": len(sc.Packets)})
	sampnum := uint64(1000 + rng.Intn(100000))
	mk := func(n int) []byte {
		vals := make([][]int, n)
		for j := range vals {
			vals[j] = next()
		}
		return roBytes(sc.NChan, sc.WordLen, sampnum, vals, rng)
	}
	// 1. the sampling packet
	first := sc.Packets[0]
	conn.Write(mk(first.Nsamp))
	sampnum += uint64(first.Nsamp)
	if err := dev.samplePacket(); err != nil {
		dev.conn.Close()
		vEmit(vmap{"ev": "RoachSkip", "scen": id, "why": "samplePacket: " + err.Error()})
		return
	}
	// 2. streaming
	nextBlock := make(chan *dataBlock, 64)
	done := make(chan struct{})
	go func() { dev.readPackets(nextBlock); close(done) }()
	sentVals := make([][]int, sc.NChan) // per channel, what was delivered to the socket after the sampling packet
	var sentNum []int                    // true sample number of each of those samples
	for _, p := range sc.Packets[1:] {
		if p.Cut {
			time.Sleep(135 * time.Millisecond)
		}
		vals := make([][]int, p.Nsamp)
		for j := range vals {
			vals[j] = next()
		}
		if !p.Lost {
			conn.Write(roBytes(sc.NChan, sc.WordLen, sampnum, vals, rng))
			for j := range vals {
				for c := 0; c < sc.NChan; c++ {
					sentVals[c] = append(sentVals[c], vals[j][c])
				}
				sentNum = append(sentNum, int(sampnum)+j)
			}
		}
		sampnum += uint64(p.Nsamp)
	}
	// 3. collect blocks until everything sent has come out (or nothing comes for a while)
	got := make([][]int, sc.NChan)
	delivered := 0
	idle := time.NewTimer(1500 * time.Millisecond)
collect:
	for delivered < len(sentNum) {
		select {
		case b := <-nextBlock:
			if b.err != nil {
				vEmit(vmap{"ev": "RoachErr", "scen": id, "err": b.err.Error()})
				break collect
			}
			exp, last := -1, -1
			if delivered < len(sentNum) {
				exp = sentNum[delivered]
			}
			if delivered+b.nSamp-1 < len(sentNum) && b.nSamp > 0 {
				last = sentNum[delivered+b.nSamp-1]
			}
			lens := make([]int, len(b.segments))
			firsts := make([]int, len(b.segments))
			for c := range b.segments {
				lens[c] = len(b.segments[c].rawData)
				firsts[c] = int(b.segments[c].firstFrameIndex)
				if c < sc.NChan {
					got[c] = append(got[c], vInts16(b.segments[c].rawData)...)
				}
			}
			vEmit(vmap{"ev": "RoachBlock", "scen": id, "nsamp": b.nSamp, "nseg": len(b.segments), "lens": lens, "firsts": firsts, "expfirst": exp, "explast": last})
			delivered += b.nSamp
			if !idle.Stop() {
				select {
				case <-idle.C:
				default:
				}
			}
			idle.Reset(1500 * time.Millisecond)
		case <-idle.C:
			break collect
		}
	}
	dev.conn.Close()
	go func() { // readPackets reports the closed socket as a last block
		for range nextBlock {
		}
	}()
	select {
	case <-done:
	case <-time.After(3 * time.Second):
		vEmit(vmap{"ev": "RoachErr", "scen": id, "err": "readPackets did not return after the socket was closed"})
	}
	vEmit(vmap{"ev": "RoachEnd", "scen": id, "delivered": delivered, "sent": len(sentNum)})
	// 4. the unwrap view of each channel: input = what was sent, output = the concatenated blocks; a fresh unwrapper
	//    fed everything in one call is the split-independence reference (events for PhaseUnwrapTrace)
	for c := 0; c < sc.NChan; c++ {
		// the configured bias is +-0.38 flux quanta; a ROACH quantum is 2^14 raw units (stated here independently of the code)
		bl := 0
		if sc.Bias {
			bl = 6226 * sc.PulseSign
		}
		u := NewPhaseUnwrapper(roachFractionBits, roachBitsToDrop, true, bl, 20000, sc.PulseSign, false)
		buf := make([]RawType, len(sentVals[c]))
		for i, v := range sentVals[c] {
			buf[i] = RawType(v)
		}
		u.UnwrapInPlace(&buf)
		inp, out := sentVals[c], got[c]
		if inp == nil {
			inp = []int{}
		}
		if out == nil {
			out = []int{}
		}
		vEmit(vmap{"ev": "Config", "scen": id*100 + c, "origin": "roach", "frac": roachFractionBits, "drop": roachBitsToDrop, "enable": true, "bias": 0, "biaslevel": bl,
			"resetafter": 20000, "pulsepos": sc.PulseSign > 0, "invert": false})
		vEmit(vmap{"ev": "Run", "split": []int{}, "inp": inp, "out": vInts16(buf)})
		vEmit(vmap{"ev": "Run", "split": []int{-1}, "inp": inp, "out": out})
	}
}

func TestVerifRoach(t *testing.T) {
	var scens []roScen
	vLoadScen(&scens)
	rng := vRng()
	for i := 0; i < vNRandom; i++ {
		scens = append(scens, roRandom(rng, i))
	}
	for i := range scens {
		roRun(i+1, &scens[i], rng)
	}
}

// TestVerifAbacoGroupUnwrap: the path from the Abaco unwrap OPTIONS to the per-channel unwrappers (NewAbacoGroup): groups
// that start at channel 0 and groups that do not, with an inversion list that names channels of both.  Each channel's
// unwrapper is fed a walk in several calls; the Config line states what was ASKED for (is the channel number in the
// inversion list?), so a channel that was given another channel's settings is rejected by PhaseUnwrapTrace.
func TestVerifAbacoGroupUnwrap(t *testing.T) {
	rng := vRng()
	id := 800000
	for k := 0; k < vNRandom; k++ {
		sign := 1 - 2*rng.Intn(2)
		layouts := [][2]int{{0, 4}, {4, 4}, {10, 3}, {1, 2}}
		inv := []int{}
		for c := 0; c < 14; c++ {
			if rng.Intn(3) == 0 {
				inv = append(inv, c)
			}
		}
		opts := AbacoUnwrapOptions{RescaleRaw: true, Unwrap: true, ResetAfter: 20000, PulseSign: sign, InvertChan: inv}
		isInv := map[int]bool{}
		for _, c := range inv {
			isInv[c] = true
		}
		for _, lay := range layouts {
			g := NewAbacoGroup(GroupIndex{Firstchan: lay[0], Nchan: lay[1]}, opts)
			for i := 0; i < lay[1]; i++ {
				id++
				n := 40 + rng.Intn(200)
				inp := make([]int, n)
				x := rng.Intn(65536)
				for j := range inp {
					if rng.Intn(2) == 0 {
						x += rng.Intn(9000) - 3000
					} else {
						x += 8192 + rng.Intn(9) - 4
					}
					x = ((x % 65536) + 65536) % 65536
					inp[j] = x
				}
				out := []int{}
				for pos := 0; pos < n; {
					m := 1 + rng.Intn(60)
					if pos+m > n {
						m = n - pos
					}
					buf := make([]RawType, m)
					for j := range buf {
						buf[j] = RawType(inp[pos+j])
					}
					g.unwrap[i].UnwrapInPlace(&buf)
					out = append(out, vInts16(buf)...)
					pos += m
				}
				vEmit(vmap{"ev": "Config", "scen": id, "origin": "abaco-group", "frac": abacoFractionBits, "drop": abacoBitsToDrop, "enable": true, "bias": 0, "biaslevel": 0,
					"resetafter": 20000, "pulsepos": sign > 0, "invert": isInv[lay[0]+i]})
				vEmit(vmap{"ev": "Run", "split": []int{-1}, "inp": inp, "out": out})
			}
		}
	}
}
