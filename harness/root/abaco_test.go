package dastard

// Driver for C03: a scripted PacketProducer under the real AbacoSource (Sample, readerMainLoop,
// getNextBlock, distributeData).  One ReadAllPackets call per reader tick consumes one script entry, so
// the outcome does not depend on timing.  Nothing is judged here; AbacoTrace.tla judges the trace.

import (
	"strings"
	"runtime"
	"fmt"
	"math/rand"
	"os"
	"sync"
	"testing"
	"time"

	"github.com/usnistgov/dastard/packets"
)

type abGroup struct {
	First  int    `json:"first"`  // first channel number
	Nch    int    `json:"nch"`    // channels
	Fpp    int    `json:"fpp"`    // frames per packet
	Bits   int    `json:"bits"`   // 16 | 32
	Off    uint32 `json:"off"`    // local sequence number = global + off
	Sample []int  `json:"sample"` // global sequence numbers seen during the sampling phase (>= 2)
}

type abScen struct {
	Origin  string    `json:"origin"`
	Groups  []abGroup `json:"groups"`
	Frame0  int64     `json:"frame0"`
	Neg     bool      `json:"neg"`
	Rescale bool      `json:"rescale"`
	Ticks   [][][]int `json:"ticks"` // ticks[t][g] = global sequence numbers arriving
	Flush   bool      `json:"flush"` // append a tick in which every group receives its final packet
	NProd   int       `json:"nprod"` // number of producers the groups are spread over (default 1)
	RealRun bool      `json:"realrun"`
	// StallTicks > 0: the block consumer does not take anything until the producer has handed out this many ticks, and
	// the hand-off channel has its production capacity (100): the reader meets a full channel
	StallTicks int `json:"stallticks"`
}

type abProducer struct {
	mu      sync.Mutex
	sample  []*packets.Packet
	batches [][]*packets.Packet
	next    int
	done    chan struct{}
	once    sync.Once
	stopped bool
}

func (p *abProducer) ReadAllPackets() ([]*packets.Packet, error) {
	p.mu.Lock()
	defer p.mu.Unlock()
	if p.next < len(p.batches) {
		b := p.batches[p.next]
		p.next++
		return b, nil
	}
	p.once.Do(func() { close(p.done) })
	return nil, nil
}
func (p *abProducer) samplePackets(d time.Duration) ([]*packets.Packet, error) { return p.sample, nil }
func (p *abProducer) start() error                                             { return nil }
func (p *abProducer) discardStale() error                                      { return nil }
func (p *abProducer) stop() error                                              { p.stopped = true; return nil }

func abVal(c int, sn int, k int) int { return ((sn%60)*4+k)*8 + c }

// abPacket builds the packet of global sequence number sn for group gi (channels c0.. are 1-based global positions).
func abPacket(sc *abScen, gi int, c0 int, sn int) *packets.Packet {
	g := sc.Groups[gi]
	local := uint32(sn) + g.Off
	p := packets.NewPacket(10, uint32(gi+1), local-1, g.First) // NewData increments the sequence number
	n := g.Fpp * g.Nch
	shift := 0
	if sc.Rescale {
		shift = 4
	}
	if g.Bits == 32 {
		d := make([]int32, n)
		for k := 0; k < g.Fpp; k++ {
			for c := 0; c < g.Nch; c++ {
				v := int32(abVal(c0+c, sn, k) << shift)
				if sc.Neg {
					v = -v
				}
				d[k*g.Nch+c] = v * 65536
			}
		}
		if err := p.NewData(d, []int16{int16(g.Nch)}); err != nil {
			panic(err)
		}
	} else {
		d := make([]int16, n)
		for k := 0; k < g.Fpp; k++ {
			for c := 0; c < g.Nch; c++ {
				v := int16(abVal(c0+c, sn, k) << shift)
				if sc.Neg {
					v = -v
				}
				d[k*g.Nch+c] = v
			}
		}
		if err := p.NewData(d, []int16{int16(g.Nch)}); err != nil {
			panic(err)
		}
	}
	// consistent firmware time stamps: 1000 counts per frame at 1e8 counts/s => 1e5 frames/s
	p.SetTimestamp(&packets.PacketTimestamp{T: uint64(1000000 + sn*g.Fpp*1000), Rate: 1e8})
	return p
}

func abRun(id int, sc *abScen) {
	ng := len(sc.Groups)
	nprod := sc.NProd
	if nprod < 1 {
		nprod = 1
	}
	if nprod > ng {
		nprod = ng
	}
	prods := make([]*abProducer, nprod)
	for i := range prods {
		prods[i] = &abProducer{done: make(chan struct{})}
	}
	// first global channel position (1-based) of each group in the source's channel order (groups sorted by first channel)
	c0 := make([]int, ng)
	cg := []int{}
	{
		c := 1
		for gi, g := range sc.Groups { // scenario groups are listed in increasing channel order
			c0[gi] = c
			for j := 0; j < g.Nch; j++ {
				cg = append(cg, gi+1)
			}
			c += g.Nch
		}
	}
	last0 := make([]int, ng)
	F := 0
	for gi, g := range sc.Groups {
		for _, sn := range g.Sample {
			prods[gi%nprod].sample = append(prods[gi%nprod].sample, abPacket(sc, gi, c0[gi], sn))
		}
		last0[gi] = g.Sample[len(g.Sample)-1]
		if last0[gi]+1 > F {
			F = last0[gi] + 1
		}
	}
	ticks := sc.Ticks
	L := make([]int, ng)
	for gi := range sc.Groups {
		L[gi] = last0[gi]
		for _, t := range ticks {
			if gi < len(t) {
				for _, sn := range t[gi] {
					if sn > L[gi] {
						L[gi] = sn
					}
				}
			}
		}
	}
	flushed := false
	if sc.Flush {
		// every group receives one final packet; the finals cover the same number of frames from the common start
		lcm := 1
		for _, g := range sc.Groups {
			lcm = lcm * g.Fpp / abGcd(lcm, g.Fpp)
		}
		frames := 0
		for gi, g := range sc.Groups {
			if f := (L[gi] + 1 - F + 1) * g.Fpp; f > frames {
				frames = f
			}
		}
		frames = (frames + lcm - 1) / lcm * lcm
		ft := make([][]int, ng)
		for gi, g := range sc.Groups {
			L[gi] = F + frames/g.Fpp - 1
			ft[gi] = []int{L[gi]}
		}
		ticks = append(append([][][]int{}, ticks...), ft)
		flushed = true
	}
	rng := rand.New(rand.NewSource(vSeed + int64(id)))
	for _, t := range ticks {
		per := make([][]*packets.Packet, nprod)
		// interleave the groups' packets at random, preserving each group's order
		idx := make([]int, ng)
		for {
			cand := []int{}
			for gi := range sc.Groups {
				if gi < len(t) && idx[gi] < len(t[gi]) {
					cand = append(cand, gi)
				}
			}
			if len(cand) == 0 {
				break
			}
			gi := cand[rng.Intn(len(cand))]
			per[gi%nprod] = append(per[gi%nprod], abPacket(sc, gi, c0[gi], t[gi][idx[gi]]))
			idx[gi]++
		}
		for i := range prods {
			prods[i].batches = append(prods[i].batches, per[i])
		}
	}

	as := new(AbacoSource)
	as.name = "Abaco"
	as.groups = make(map[GroupIndex]*AbacoGroup)
	as.eTrigPackets = make([]*packets.Packet, 0)
	as.channelsPerPixel = 1
	as.subframeDivisions = abacoSubframeDivisions
	as.unwrapOpts = AbacoUnwrapOptions{RescaleRaw: sc.Rescale}
	for _, p := range prods {
		as.producers = append(as.producers, p)
	}
	M := 65536
	if sc.Rescale {
		M = 4096
	}
	fpps := make([]int, ng)
	for gi, g := range sc.Groups {
		fpps[gi] = g.Fpp
	}
	vEmit(vmap{"ev": "Config", "scen": id, "origin": sc.Origin, "ng": ng, "fpp": fpps, "cg": cg, "F": F, "last0": last0,
		"frame0": sc.Frame0, "M": M, "neg": sc.Neg, "nprod": nprod})
	defer func() {
		if r := recover(); r != nil {
			vEmit(vmap{"ev": "Panic", "msg": fmt.Sprint(r)})
			vEmit(vmap{"ev": "End", "flushed": flushed, "L": L})
		}
	}()
	if err := as.Sample(); err != nil {
		panic(err)
	}
	if err := as.PrepareChannels(); err != nil {
		panic(err)
	}
	as.nextFrameNum = FrameIndex(sc.Frame0)
	as.abortSelf = make(chan struct{})
	as.nextBlock = make(chan *dataBlock)
	// StartRun, with a faster reader tick and a larger buffer (getNextBlock panics after cap*readPeriod without data)
	for _, pp := range as.producers {
		pp.discardStale()
	}
	as.buffersChan = make(chan AbacoBuffersType, 4000)
	as.readPeriod = 2 * time.Millisecond
	if sc.StallTicks > 0 {
		as.buffersChan = make(chan AbacoBuffersType, 100)
		as.readPeriod = 5 * time.Millisecond // (getNextBlock's own panic timer is capacity x read period = 0.5 s)
	}
	panicked := make(chan any, 1)
	readerDone := make(chan struct{})
	go func() {
		defer close(readerDone)
		defer func() {
			if r := recover(); r != nil {
				panicked <- r // (readerMainLoop closes the hand-off channel as it goes: the consumer drains it and finishes)
			}
		}()
		as.readerMainLoop()
	}()
	go func() {
		for _, p := range prods {
			<-p.done
		}
		close(as.abortSelf)
	}()
	// log the arrivals tick by tick before the blocks they can influence: all Tick lines first is sound too,
	// because the judge only needs "arrived by the end"; but "not beyond the last arrived" needs order, so the
	// blocks are matched to ticks through the producers' counters.
	type blk struct {
		tick int
		b    *dataBlock
	}
	var blocks []blk
	for k := 0; sc.StallTicks > 0 && k < 2000; k++ { // the stalled consumer
		prods[0].mu.Lock()
		n := prods[0].next
		prods[0].mu.Unlock()
		if n >= sc.StallTicks || len(as.buffersChan) == cap(as.buffersChan) {
			time.Sleep(4 * as.readPeriod)
			break
		}
		time.Sleep(time.Millisecond)
	}
	for {
		ch := as.getNextBlock()
		b, ok := <-ch
		if !ok {
			break
		}
		t := len(ticks)
		if !abNoSync {
			// tick attribution takes the producer's mutex, which also orders this goroutine with the reader: switched off
			// for race-detector workloads so that the harness adds no synchronisation of its own
			prods[0].mu.Lock()
			t = prods[0].next
			prods[0].mu.Unlock()
		}
		blocks = append(blocks, blk{t, b})
		if b.err != nil {
			break
		}
	}
	var pan any
	<-readerDone
	select {
	case pan = <-panicked:
	default:
	}
	// emit: ticks and blocks merged; a block seen when the producer had handed out t batches is logged after tick t
	// (it cannot contain anything from batches > t)
	bi := 0
	for ti := 0; ti <= len(ticks); ti++ {
		if ti > 0 {
			arr := make([][]int, ng)
			for gi := range arr {
				arr[gi] = []int{}
				if gi < len(ticks[ti-1]) && ticks[ti-1][gi] != nil {
					arr[gi] = ticks[ti-1][gi]
				}
			}
			vEmit(vmap{"ev": "Tick", "arr": arr})
		}
		for bi < len(blocks) && (blocks[bi].tick <= ti || ti == len(ticks)) {
			b := blocks[bi].b
			bi++
			if b.err != nil {
				vEmit(vmap{"ev": "Panic", "msg": "block error: " + b.err.Error()})
				continue
			}
			data := make([][]int, len(b.segments))
			for c := range b.segments {
				data[c] = vInts16(b.segments[c].rawData)
			}
			first, dropped := int64(-1), -1
			if len(b.segments) > 0 {
				first = int64(b.segments[0].firstFrameIndex)
				dropped = b.segments[0].droppedFrames
				for c := range b.segments {
					if int64(b.segments[c].firstFrameIndex) != first || b.segments[c].droppedFrames != dropped {
						first = -2 // channels disagree: reported as a contiguity violation
					}
				}
			}
			vEmit(vmap{"ev": "Block", "first": first, "n": b.nSamp, "dropped": dropped, "data": data})
		}
	}
	if pan != nil && sc.StallTicks > 0 && strings.Contains(fmt.Sprint(pan), "buffersChan full") {
		// the reader's deliberate fail-stop when the consumer is 100 buffers behind: what was handed over before is judged
		vEmit(vmap{"ev": "FailStop", "msg": fmt.Sprint(pan)})
	} else if pan != nil {
		vEmit(vmap{"ev": "Panic", "msg": fmt.Sprint(pan)})
	}
	left := make([][]int, ng)
	for gi, g := range sc.Groups {
		left[gi] = []int{}
		if grp := as.groups[GroupIndex{Firstchan: g.First, Nchan: g.Nch}]; grp != nil {
			for _, p := range grp.queue {
				left[gi] = append(left[gi], int(p.SequenceNumber()-g.Off))
			}
		}
	}
	vEmit(vmap{"ev": "End", "flushed": flushed, "L": L, "left": left})
}

var abNoSync = os.Getenv("VERIF_NOSYNC") != ""

func abGcd(a, b int) int {
	for b != 0 {
		a, b = b, a%b
	}
	return a
}

// abRandom makes a seeded scenario: 1-3 groups, random loss, batching with empty ticks and lagging groups.
func abRandom(rng *rand.Rand) abScen {
	ng := 1 + rng.Intn(3)
	sc := abScen{Origin: "seeded", Flush: true, Neg: rng.Intn(3) == 0, Rescale: rng.Intn(4) == 0, NProd: 1 + rng.Intn(2)}
	if rng.Intn(3) == 0 {
		sc.Frame0 = int64(rng.Intn(1 << 30))
	}
	fpp := 1 + rng.Intn(3)
	wide := rng.Intn(6) == 0
	if wide {
		sc.Rescale = true
	}
	first := rng.Intn(3)
	maxsn := 6 + rng.Intn(14)
	for gi := 0; gi < ng; gi++ {
		g := abGroup{First: first, Nch: 1 + rng.Intn(2), Fpp: fpp, Bits: 16, Off: uint32(rng.Intn(3) * 1000 * (gi + 1))}
		if wide && gi == 0 {
			// a group with more channels than the machine has processors, and not a multiple of their number: whatever
			// fan-out the demultiplexer uses per channel must reach every channel (rescaling makes an untouched one visible)
			g.Nch = runtime.GOMAXPROCS(0) + 1 + rng.Intn(7)
		}
		if rng.Intn(3) == 0 {
			g.Bits = 32
		}
		first += g.Nch + rng.Intn(2)
		ns := 2 + rng.Intn(2)
		for sn := 0; sn < ns; sn++ {
			g.Sample = append(g.Sample, sn)
		}
		sc.Groups = append(sc.Groups, g)
	}
	nt := 2 + rng.Intn(5)
	hi := make([]int, ng)
	for gi := range hi {
		hi[gi] = sc.Groups[gi].Sample[len(sc.Groups[gi].Sample)-1]
	}
	ploss := []float64{0, 0.15, 0.4}[rng.Intn(3)]
	for t := 0; t < nt; t++ {
		tick := make([][]int, ng)
		for gi := range tick {
			tick[gi] = []int{}
			k := rng.Intn(5)
			if rng.Intn(4) == 0 {
				k = 0 // this group lags in this tick
			}
			for j := 0; j < k && hi[gi] < maxsn; j++ {
				hi[gi]++
				if rng.Float64() >= ploss {
					tick[gi] = append(tick[gi], hi[gi])
				}
			}
		}
		sc.Ticks = append(sc.Ticks, tick)
	}
	return sc
}

// abStallScen: packets arrive tick after tick without loss while the block consumer is stalled for more ticks than the
// hand-off channel holds buffers; then it drains.
func abStallScen(rng *rand.Rand) abScen {
	ng := 1 + rng.Intn(2)
	sc := abScen{Origin: "stalled-consumer", Flush: true, NProd: 1, StallTicks: 103 + rng.Intn(6)}
	first := 0
	for gi := 0; gi < ng; gi++ {
		sc.Groups = append(sc.Groups, abGroup{First: first, Nch: 1 + rng.Intn(2), Fpp: 1 + rng.Intn(2), Bits: 16, Sample: []int{0, 1}})
		first += sc.Groups[gi].Nch
	}
	for gi := range sc.Groups {
		sc.Groups[gi].Fpp = sc.Groups[0].Fpp
	}
	sn := 1
	for t := 0; t < 125; t++ {
		sn++
		tick := make([][]int, ng)
		for gi := range tick {
			tick[gi] = []int{sn}
		}
		sc.Ticks = append(sc.Ticks, tick)
	}
	return sc
}

func TestVerifAbaco(t *testing.T) {
	var scens []abScen
	vLoadScen(&scens)
	rng := vRng()
	for i := 0; i < vNRandom; i++ {
		scens = append(scens, abRandom(rng))
	}
	if vNRandom > 0 && !abNoSync {
		nst := 2
		if os.Getenv("VERIF_TIER") != "quick" {
			nst = 12
		}
		for i := 0; i < nst; i++ {
			scens = append(scens, abStallScen(rng))
		}
	}
	for i := range scens {
		abRun(i+1, &scens[i])
	}
}
