package dastard

// Driver for C13: the cases and their exact expected values come from Analysis.tla (printed by TLC); this driver
// builds the real DataRecords (base + offsets, signed / unsigned incl. wrap-around bases), runs the real AnalyzeData,
// and compares each reported value with the expected rational in math/big. The comparison result and the numbers go
// into the trace; AnalysisTrace.tla turns "outside tolerance" into a violation.

import (
	"encoding/base64"
	"fmt"
	"math"
	"math/big"
	"os"
	"sort"
	"testing"
	"time"

	"gonum.org/v1/gonum/mat"
)

type anCase struct {
	D    []int `json:"d"`
	Npre int   `json:"npre"`
	Exp  struct {
		Ptmean  []int64 `json:"ptmean"`
		Ptdelta []int64 `json:"ptdelta"`
		Avg     []int64 `json:"avg"`
		Msq     []int64 `json:"msq"`
		Peak    []int64 `json:"peak"`
	} `json:"exp"`
}
type anPCase struct {
	X   []int   `json:"x"`
	P   [][]int `json:"P"`
	B   [][]int `json:"B"`
	K   int     `json:"k"`
	Exp struct {
		Coefs []int64 `json:"coefs"`
		Rsd2  []int64 `json:"rsd2"`
	} `json:"exp"`
}
type anInput struct {
	Cases  []anCase  `json:"cases"`
	PCases []anPCase `json:"pcases"`
}

// anClose: |got - want| <= relTol * max(|want|, scale) ; NaN/Inf never close
func anClose(got float64, want *big.Rat, scale float64) (bool, float64) {
	if math.IsNaN(got) || math.IsInf(got, 0) {
		return false, math.Inf(1)
	}
	g := new(big.Rat).SetFloat64(got)
	diff := new(big.Rat).Sub(g, want)
	diff.Abs(diff)
	w, _ := new(big.Rat).Abs(want).Float64()
	d, _ := diff.Float64()
	ref := math.Max(w, scale)
	return d <= 1e-9*ref+1e-12, d
}

func anRat(p []int64) *big.Rat {
	if len(p) != 2 || p[1] == 0 {
		return nil
	}
	return new(big.Rat).SetFrac(big.NewInt(p[0]), big.NewInt(p[1]))
}

func TestVerifAnalysis(t *testing.T) {
	var in anInput
	if !vLoadScen(&in) {
		t.Fatal("no cases")
	}
	id := 0
	type baseT struct {
		signed bool
		base   int
	}
	bases := []baseT{{false, 3}, {false, 100}, {false, 32767}, {false, 32768}, {false, 65532}, {true, 0}, {true, 10}, {true, 32764}, {true, -32765}, {true, -5}}
	dsp := &DataStreamProcessor{}
	judge := func(rec *DataRecord, c anCase, b baseT) ([]string, []string) {
		bad := []string{}
		scale := 1.0 // quantities are differences of samples: absolute accuracy is judged against 1 count
		want := anRat(c.Exp.Ptmean)
		want.Add(want, new(big.Rat).SetInt64(int64(b.base)))
		if ok, _ := anClose(rec.pretrigMean, want, scale); !ok {
			bad = append(bad, "ptmean")
		}
		if w := anRat(c.Exp.Ptdelta); w != nil {
			if ok, _ := anClose(rec.pretrigDelta, w, scale); !ok {
				bad = append(bad, "ptdelta")
			}
		}
		if ok, _ := anClose(rec.pulseAverage, anRat(c.Exp.Avg), scale); !ok {
			bad = append(bad, "avg")
		}
		// RMS is compared as its square (the expected value is rational)
		if ok, _ := anClose(rec.pulseRMS*rec.pulseRMS, anRat(c.Exp.Msq), scale); !ok || rec.pulseRMS < 0 {
			bad = append(bad, "rms")
		}
		// peak: max of the pulse part minus the mean; an implementation that never reports a peak below the
		// pre-trigger mean (clamps at 0) is accepted too -- the statement does not decide it
		wp := anRat(c.Exp.Peak)
		okp, _ := anClose(rec.peakValue, wp, scale)
		if !okp && !(wp.Sign() < 0 && rec.peakValue == 0) {
			bad = append(bad, "peak")
		}
		got := []string{fmt.Sprint(rec.pretrigMean), fmt.Sprint(rec.pretrigDelta), fmt.Sprint(rec.pulseAverage), fmt.Sprint(rec.pulseRMS), fmt.Sprint(rec.peakValue)}
		return bad, got
	}
	for _, c := range in.Cases {
		for _, b := range bases {
			id++
			rec := &DataRecord{data: make([]RawType, len(c.D)), presamples: c.Npre, signed: b.signed}
			for i, d := range c.D {
				rec.data[i] = RawType(uint16(b.base + d)) // two's complement for signed records
			}
			var pan string
			func() {
				defer func() {
					if r := recover(); r != nil {
						pan = fmt.Sprint(r)
					}
				}()
				dsp.AnalyzeData([]*DataRecord{rec})
			}()
			ev := vmap{"ev": "Case", "scen": id, "npre": c.Npre, "n": len(c.D), "signed": b.signed, "base": b.base, "panic": pan, "bad": []string{}}
			if pan == "" {
				ev["bad"], ev["got"] = judge(rec, c, b)
			}
			vEmit(ev)
		}
	}
	// records of DIFFERENT geometry analysed in one AnalyzeData call (edge-multi variable-length records of one segment):
	// every record is judged against its own definition-level values
	for bi, b := range bases {
		L := len(in.Cases)
		for g := 0; L >= 8 && g < 60; g++ {
			// members from four different regions of the case list (the list is ordered by geometry)
			grp := []anCase{in.Cases[(g*7)%L], in.Cases[(g*7+L/4)%L], in.Cases[(g*7+L/2)%L], in.Cases[(g*7+3*L/4)%L]}
			if bi%2 == 1 { // the other order too: whichever record comes first must not set the scale for the rest
				grp = []anCase{grp[3], grp[1], grp[2], grp[0]}
			}
			recs := make([]*DataRecord, len(grp))
			for k, c := range grp {
				recs[k] = &DataRecord{data: make([]RawType, len(c.D)), presamples: c.Npre, signed: b.signed}
				for i, d := range c.D {
					recs[k].data[i] = RawType(uint16(b.base + d))
				}
			}
			var pan string
			func() {
				defer func() {
					if r := recover(); r != nil {
						pan = fmt.Sprint(r)
					}
				}()
				dsp.AnalyzeData(recs)
			}()
			for k, c := range grp {
				id++
				ev := vmap{"ev": "Case", "scen": id, "npre": c.Npre, "n": len(c.D), "signed": b.signed, "base": b.base, "panic": pan, "bad": []string{}, "kind": "mixed-batch"}
				if pan == "" {
					ev["bad"], ev["got"] = judge(recs[k], c, b)
				}
				vEmit(ev)
			}
		}
	}
	// spread cases: a small true RMS on top of a large base with a non-integer pre-trigger mean (cancellation)
	for _, b := range []baseT{{false, 65000}, {false, 40000}, {true, 30000}, {true, -30000}, {false, 5}} {
		for _, npre := range []int{3, 7, 100, 1000} {
			id++
			n := npre + 50
			rec := &DataRecord{data: make([]RawType, n), presamples: npre, signed: b.signed}
			for i := 0; i < n; i++ {
				rec.data[i] = RawType(uint16(b.base))
			}
			rec.data[0] = RawType(uint16(b.base + 1)) // ptmean = base + 1/npre ; pulse part constant = base
			dsp.AnalyzeData([]*DataRecord{rec})
			bad := []string{}
			msq := new(big.Rat).SetFrac(big.NewInt(1), big.NewInt(int64(npre)*int64(npre)))
			if ok, _ := anClose(rec.pulseRMS*rec.pulseRMS, msq, 1e-3); !ok {
				bad = append(bad, "rms")
			}
			avg := new(big.Rat).SetFrac(big.NewInt(-1), big.NewInt(int64(npre)))
			if ok, _ := anClose(rec.pulseAverage, avg, 1); !ok {
				bad = append(bad, "avg")
			}
			vEmit(vmap{"ev": "Case", "scen": id, "npre": npre, "n": n, "signed": b.signed, "base": b.base, "panic": "", "bad": bad, "kind": "cancellation",
				"got": []string{fmt.Sprint(rec.pretrigMean), "", fmt.Sprint(rec.pulseAverage), fmt.Sprint(rec.pulseRMS), fmt.Sprint(rec.peakValue)}})
		}
	}
	// records analysed together in ONE AnalyzeData call must not influence each other (a segment with several
	// triggers, a batch of secondaries): batches of different records, each checked against its own expected values
	groups := map[string][]anPCase{}
	order := []string{}
	for _, c := range in.PCases {
		key := fmt.Sprint(c.K, len(c.X), c.P, c.B)
		if _, ok := groups[key]; !ok {
			order = append(order, key)
		}
		groups[key] = append(groups[key], c)
	}
	nbatch := 0
	for _, key := range order {
		g := groups[key]
		if len(g) < 3 || nbatch >= 400 {
			continue
		}
		nbatch++
		batch := []anPCase{g[0], g[len(g)/2], g[len(g)-1]}
		n, k := len(batch[0].X), batch[0].K
		id++
		P := mat.NewDense(k, n, nil)
		B := mat.NewDense(n, k, nil)
		for r := 0; r < k; r++ {
			for j := 0; j < n; j++ {
				P.Set(r, j, float64(batch[0].P[r][j]))
				B.Set(j, r, float64(batch[0].B[j][r]))
			}
		}
		d3 := &DataStreamProcessor{NSamples: n, NPresamples: 1}
		bad := []string{}
		var pan string
		func() {
			defer func() {
				if r := recover(); r != nil {
					pan = fmt.Sprint(r)
				}
			}()
			if err := d3.SetProjectorsBasis(P, B, "m"); err != nil {
				pan = "SetProjectorsBasis: " + err.Error()
				return
			}
			recs := []*DataRecord{}
			for _, c := range batch {
				rec := &DataRecord{data: make([]RawType, n), presamples: 1}
				for i, x := range c.X {
					rec.data[i] = RawType(x)
				}
				recs = append(recs, rec)
			}
			d3.AnalyzeData(recs)
			for bi, c := range batch {
				rec := recs[bi]
				if len(rec.modelCoefs) != k {
					bad = append(bad, "coefs")
					continue
				}
				for r := 0; r < k; r++ {
					if ok, _ := anClose(rec.modelCoefs[r], new(big.Rat).SetInt64(c.Exp.Coefs[r]), 1); !ok {
						bad = append(bad, "coefs")
					}
				}
				if ok, _ := anClose(rec.residualStdDev*rec.residualStdDev, anRat(c.Exp.Rsd2), 1); !ok {
					bad = append(bad, "resid")
				}
			}
		}()
		vEmit(vmap{"ev": "Case", "scen": id, "npre": 1, "n": n, "signed": false, "base": 0, "panic": pan, "bad": bad, "kind": "projectors-batch"})
	}
	for _, c := range in.PCases {
		id++
		n := len(c.X)
		P := mat.NewDense(c.K, n, nil)
		B := mat.NewDense(n, c.K, nil)
		for r := 0; r < c.K; r++ {
			for j := 0; j < n; j++ {
				P.Set(r, j, float64(c.P[r][j]))
				B.Set(j, r, float64(c.B[j][r]))
			}
		}
		d2 := &DataStreamProcessor{NSamples: n, NPresamples: 1}
		var pan string
		bad := []string{}
		func() {
			defer func() {
				if r := recover(); r != nil {
					pan = fmt.Sprint(r)
				}
			}()
			if err := d2.SetProjectorsBasis(P, B, "m"); err != nil {
				pan = "SetProjectorsBasis: " + err.Error()
				return
			}
			rec := &DataRecord{data: make([]RawType, n), presamples: 1}
			for i, x := range c.X {
				rec.data[i] = RawType(x)
			}
			d2.AnalyzeData([]*DataRecord{rec})
			if len(rec.modelCoefs) != c.K {
				bad = append(bad, "coefs")
			} else {
				for r := 0; r < c.K; r++ {
					if ok, _ := anClose(rec.modelCoefs[r], new(big.Rat).SetInt64(c.Exp.Coefs[r]), 1); !ok {
						bad = append(bad, "coefs")
					}
				}
			}
			if ok, _ := anClose(rec.residualStdDev*rec.residualStdDev, anRat(c.Exp.Rsd2), 1); !ok {
				bad = append(bad, "resid")
			}
		}()
		vEmit(vmap{"ev": "Case", "scen": id, "npre": 1, "n": n, "signed": false, "base": 0, "panic": pan, "bad": bad, "kind": "projectors"})
		// the same model on a SIGNED channel whose samples are partly negative: x' = x - shift as two's-complement words.
		// Expected values by the definitions of Analysis.tla (coefs = P x', rsd2 = population variance of x' - B coefs),
		// computed here in exact integer arithmetic.
		if pan == "" {
			id++
			shift := int64(20000 + 7*(id%13))
			xs := make([]int64, n)
			rec := &DataRecord{data: make([]RawType, n), presamples: 1, signed: true}
			for i, x := range c.X {
				xs[i] = int64(x) - shift
				rec.data[i] = RawType(uint16(int16(xs[i])))
			}
			coef := make([]int64, c.K)
			for r := 0; r < c.K; r++ {
				for j := 0; j < n; j++ {
					coef[r] += int64(c.P[r][j]) * xs[j]
				}
			}
			sr, sr2 := new(big.Int), new(big.Int)
			for j := 0; j < n; j++ {
				m := int64(0)
				for r := 0; r < c.K; r++ {
					m += int64(c.B[j][r]) * coef[r]
				}
				res := big.NewInt(xs[j] - m)
				sr.Add(sr, res)
				sr2.Add(sr2, new(big.Int).Mul(res, res))
			}
			num := new(big.Int).Sub(new(big.Int).Mul(big.NewInt(int64(n)), sr2), new(big.Int).Mul(sr, sr))
			want := new(big.Rat).SetFrac(num, big.NewInt(int64(n)*int64(n)))
			var pan3 string
			bad3 := []string{}
			func() {
				defer func() {
					if r := recover(); r != nil {
						pan3 = fmt.Sprint(r)
					}
				}()
				d2.AnalyzeData([]*DataRecord{rec})
				if len(rec.modelCoefs) != c.K {
					bad3 = append(bad3, "coefs")
				} else {
					for r := 0; r < c.K; r++ {
						if ok, _ := anClose(rec.modelCoefs[r], new(big.Rat).SetInt64(coef[r]), 1); !ok {
							bad3 = append(bad3, "coefs")
							break
						}
					}
				}
				if ok, _ := anClose(rec.residualStdDev*rec.residualStdDev, want, 1); !ok {
					bad3 = append(bad3, "resid")
				}
			}()
			vEmit(vmap{"ev": "Case", "scen": id, "npre": 1, "n": n, "signed": true, "base": int(-shift), "panic": pan3, "bad": bad3, "kind": "projectors-signed"})
		}
		// history: a load that is REFUSED (projectors of the right shape, basis of the wrong one) must leave the channel's
		// model as it was - on a channel with a model (same record, same results afterwards) and on a bare one
		if pan == "" && id%8 == 0 {
			id++
			var pan2 string
			bad2 := []string{}
			func() {
				defer func() {
					if r := recover(); r != nil {
						pan2 = fmt.Sprint(r)
					}
				}()
				mk := func() *DataRecord {
					rec := &DataRecord{data: make([]RawType, n), presamples: 1}
					for i, x := range c.X {
						rec.data[i] = RawType(x)
					}
					return rec
				}
				before := mk()
				d2.AnalyzeData([]*DataRecord{before})
				P2 := mat.NewDense(c.K, n, nil)
				for r := 0; r < c.K; r++ {
					for j := 0; j < n; j++ {
						P2.Set(r, j, float64(c.P[r][j])*3+1)
					}
				}
				badB := mat.NewDense(n+1, c.K, nil) // wrong number of rows
				if err := d2.SetProjectorsBasis(P2, badB, "refused"); err == nil {
					bad2 = append(bad2, "refused_load_accepted")
				}
				after := mk()
				d2.AnalyzeData([]*DataRecord{after})
				if len(after.modelCoefs) != len(before.modelCoefs) || after.residualStdDev != before.residualStdDev {
					bad2 = append(bad2, "refused_load_changed_model")
				} else {
					for r := range before.modelCoefs {
						if after.modelCoefs[r] != before.modelCoefs[r] {
							bad2 = append(bad2, "refused_load_changed_model")
							break
						}
					}
				}
				bare := &DataStreamProcessor{NSamples: n, NPresamples: 1}
				if err := bare.SetProjectorsBasis(P2, badB, "refused"); err == nil {
					bad2 = append(bad2, "refused_load_accepted")
				}
				if bare.HasProjectors() {
					bad2 = append(bad2, "refused_load_changed_model")
				}
				bare.AnalyzeData([]*DataRecord{mk()}) // must not crash
			}()
			vEmit(vmap{"ev": "Case", "scen": id, "npre": 1, "n": n, "signed": false, "base": 0, "panic": pan2, "bad": bad2, "kind": "refused-load"})
		}
	}
}

// TestVerifModelReload: the model of a channel is replaced while records are being analysed, through the real RPC
// method on a running source (two models of the same shape, loaded alternately).  Whatever model a record was analysed
// with, its coefficients and its residual must belong to the SAME loaded model (Analysis.tla: coefs = P x,
// rsd2 = population variance of x - B coefs); a record that combines the projectors of one model with the basis of the
// other was analysed with a pair that was never loaded.  Integer-valued matrices: the reference is exact in float64.
func TestVerifModelReload(t *testing.T) {
	const n, k, npre = 1000, 100, 100
	dur := 1500 * time.Millisecond // loads are issued back to back for this long, however fast each is answered
	if os.Getenv("VERIF_TIER") != "quick" {
		dur = 10 * time.Second
	}
	rng := vRng()
	type model struct {
		P, B     *mat.Dense
		p64, b64 string
	}
	mk := func(seed int) model {
		P := mat.NewDense(k, n, nil)
		B := mat.NewDense(n, k, nil)
		for i := 0; i < k; i++ {
			for j := 0; j < n; j++ {
				P.Set(i, j, float64(((i*7+j*3)*(seed+1)+i*seed+seed)%5-2))
				B.Set(j, i, float64(((i*3+j*11)*(seed+2)+j*seed+seed)%3-1))
			}
		}
		pb, _ := P.MarshalBinary()
		bb, _ := B.MarshalBinary()
		return model{P, B, base64.StdEncoding.EncodeToString(pb), base64.StdEncoding.EncodeToString(bb)}
	}
	models := []model{mk(1), mk(2)}
	ctl := NewSourceControl()
	ctl.clientUpdates = clientMessageChan
	ctl.mapServer = newMapServer()
	ctl.status.Npresamp, ctl.status.Nsamples = npre, n
	stopHB := make(chan struct{})
	defer close(stopHB)
	go func() {
		for {
			select {
			case <-ctl.heartbeats:
			case <-stopHB:
				return
			}
		}
	}()
	if err := ctl.triangle.Configure(&TriangleSourceConfig{Nchan: 1, SampleRate: 1e6, Min: 100, Max: RawType(137 + rng.Intn(400))}); err != nil {
		t.Fatal(err)
	}
	name := "TRIANGLESOURCE"
	ok := false
	if err := ctl.Start(&name, &ok); err != nil {
		t.Fatal(err)
	}
	load := func(m model) error {
		return ctl.ConfigureProjectorsBasis(&ProjectorsBasisObject{ChannelIndex: 0, ProjectorsBase64: m.p64, BasisBase64: m.b64, ModelDescription: "m"}, &ok)
	}
	if err := load(models[0]); err != nil {
		t.Fatal(err)
	}
	if err := ctl.ConfigureTriggers(&FullTriggerState{ChannelIndices: []int{0}, TriggerState: TriggerState{AutoTrigger: true, AutoDelay: 0}}, &ok); err != nil {
		t.Fatal(err)
	}
	vTakeRecords()
	loadErrs := 0
	var recs []*DataRecord
	deadline := time.Now().Add(dur)
	for i := 1; time.Now().Before(deadline); i++ {
		if err := load(models[i%2]); err != nil {
			loadErrs++
		}
		if i%20 == 0 {
			for _, b := range vTakeRecords() {
				recs = append(recs, b...)
			}
		}
	}
	time.Sleep(20 * time.Millisecond)
	d := "x"
	ctl.Stop(&d, &ok)
	for _, b := range vTakeRecords() {
		recs = append(recs, b...)
	}
	// judge
	ref := func(m model, x []float64) ([]float64, float64) {
		c := make([]float64, k)
		for i := 0; i < k; i++ {
			s := 0.0
			row := m.P.RawRowView(i)
			for j := 0; j < n; j++ {
				s += row[j] * x[j]
			}
			c[i] = s
		}
		sr, sr2 := 0.0, 0.0
		for j := 0; j < n; j++ {
			mj := 0.0
			row := m.B.RawRowView(j)
			for i := 0; i < k; i++ {
				mj += row[i] * c[i]
			}
			r := x[j] - mj
			sr += r
			sr2 += r * r
		}
		return c, (float64(n)*sr2 - sr*sr) / float64(n*n)
	}
	close2 := func(a, b float64) bool { return math.Abs(a-b) <= 1e-7*math.Max(math.Abs(b), 1) }
	{ // the two models must be told apart by both quantities, or the stage proves nothing
		x := make([]float64, n)
		for j := range x {
			x[j] = float64(100 + (j*37)%400)
		}
		c0, v0 := ref(models[0], x)
		c1, v1 := ref(models[1], x)
		diff := 0
		for i := range c0 {
			if !close2(c0[i], c1[i]) {
				diff++
			}
		}
		if diff < k/2 || close2(v0, v1) {
			t.Fatalf("the two models are not distinguishable (%d coefficients differ, residuals %g %g)", diff, v0, v1)
		}
	}
	id := 900000
	nrec, nboth := 0, 0
	bad := map[string]bool{}
	flush := func() {
		id++
		bl := []string{}
		for b := range bad {
			bl = append(bl, b)
		}
		sort.Strings(bl)
		vEmit(vmap{"ev": "Case", "scen": id, "npre": npre, "n": n, "signed": false, "base": 0, "panic": "", "bad": bl, "kind": "model-reload", "records": nrec, "loaderrs": loadErrs})
		bad = map[string]bool{}
	}
	for _, r := range recs {
		if len(r.data) != n || len(r.modelCoefs) != k {
			if len(r.data) == n && len(r.modelCoefs) != k {
				bad["coefs"] = true
			}
			continue
		}
		x := make([]float64, n)
		for j := range x {
			x[j] = float64(r.data[j])
		}
		which := -1
		var rsd2 [2]float64
		for mi := range models {
			c, v := ref(models[mi], x)
			rsd2[mi] = v
			same := true
			for i := 0; i < k; i++ {
				if !close2(r.modelCoefs[i], c[i]) {
					same = false
					break
				}
			}
			if same {
				which = mi
			}
		}
		nrec++
		got := r.residualStdDev * r.residualStdDev
		switch {
		case which < 0:
			bad["coefs"] = true // the coefficients are those of neither loaded model
		case !close2(got, rsd2[which]):
			if close2(got, rsd2[1-which]) {
				nboth++
				bad["model_mixed"] = true // projectors of one model, basis of the other
			} else {
				bad["resid"] = true
			}
		}
		if nrec%100 == 0 {
			flush()
		}
	}
	flush()
	if nrec < 50 {
		t.Fatalf("only %d records were analysed with a model", nrec)
	}
}
