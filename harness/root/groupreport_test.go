package dastard

// C09, last clause: "the connection state reported to clients always equals the set actually used".
// Group-trigger requests go through the real SourceControl methods (request queue, core loop) on a running 4-channel
// Triangle source; every GROUPTRIGGER update sent to clients is collected, and after each request the latest report is
// logged next to the set the broker uses.  Judged by spec/GroupReportTrace.tla.

import (
	"sort"
	"testing"
)

func grPairs(g *GroupTriggerState) [][]int {
	out := [][]int{}
	if g == nil {
		return out
	}
	for s, rs := range g.Connections {
		for _, r := range rs {
			out = append(out, []int{s, r})
		}
	}
	sort.Slice(out, func(i, j int) bool { return out[i][0] < out[j][0] || (out[i][0] == out[j][0] && out[i][1] < out[j][1]) })
	return out
}

func TestVerifGroupReport(t *testing.T) {
	rng := vRng()
	base := t.TempDir()
	vClientKeep = true
	const nchan = 4
	for scen := 1; scen <= vNRandom; scen++ {
		rig := rqNewRig(base, false)
		if err := rig.ctl.triangle.Configure(&TriangleSourceConfig{Nchan: nchan, SampleRate: 20000, Min: 100, Max: 400}); err != nil {
			t.Fatal(err)
		}
		if err := rig.start(); err != nil {
			t.Fatal(err)
		}
		vTakeClient()
		reported := [][]int{}
		vEmit(vmap{"ev": "GBegin", "scen": scen, "nchan": nchan})
		nreq := 4 + rng.Intn(8)
		for k := 0; k < nreq; k++ {
			op := []string{"add", "add", "add", "del", "del", "stop"}[rng.Intn(6)]
			if k > 1 && rng.Intn(6) == 0 {
				op = "restart" // the source is stopped and started again through the RPC methods: a new run begins with no connection
			}
			conns := map[int][]int{}
			pairs := [][]int{}
			for j := 1 + rng.Intn(3); j > 0 && op != "stop" && op != "restart"; j-- {
				s, r := rng.Intn(nchan+2)-1, rng.Intn(nchan+2)-1 // -1 .. nchan: out of range at both ends
				if rng.Intn(3) > 0 {                             // mostly in range, so that requests MIX valid and invalid pairs
					s, r = rng.Intn(nchan), rng.Intn(nchan)
				}
				conns[s] = append(conns[s], r)
				pairs = append(pairs, []int{s, r})
			}
			ok := false
			var err error
			switch op {
			case "add":
				err = rig.ctl.AddGroupTriggerCoupling(GroupTriggerState{Connections: conns}, &ok)
			case "del":
				err = rig.ctl.DeleteGroupTriggerCoupling(&GroupTriggerState{Connections: conns}, &ok)
			case "restart":
				d := "x"
				rig.ctl.Stop(&d, &ok)
				name := "TRIANGLESOURCE"
				err = rig.ctl.Start(&name, &ok)
			default:
				b := false
				err = rig.ctl.StopTriggerCoupling(&b, &ok)
			}
			nrep := 0
			for _, u := range vTakeClient() {
				if u.tag == "GROUPTRIGGER" {
					if g, isg := u.state.(*GroupTriggerState); isg {
						reported = grPairs(g)
						nrep++
					} else if g2, isg2 := u.state.(GroupTriggerState); isg2 {
						reported = grPairs(&g2)
						nrep++
					}
				}
			}
			gs := rig.src.ComputeGroupTriggerState()
			actual := grPairs(&gs)
			e := ""
			if err != nil {
				e = err.Error()
			}
			vEmit(vmap{"ev": "GReq", "scen": scen, "op": op, "pairs": pairs, "ok": err == nil, "err": e, "nreports": nrep, "reported": reported, "actual": actual})
		}
		rig.stop()
		close(rig.stopHB)
	}
}

// TestVerifCoupling: error/feedback coupling on a Lancero source object (the only source that implements it), mixed with
// group-trigger edits and restarts of the same object (PrepareRun builds a fresh broker).  After every request the
// set the broker uses is logged; GroupReportTrace.tla compares it with the set-theoretic result.
func TestVerifCoupling(t *testing.T) {
	rng := vRng()
	for scen := 1; scen <= vNRandom; scen++ {
		ls := new(LanceroSource)
		ls.name = "Lancero"
		dev := &LanceroDevice{devnum: 0, ncols: 1 + rng.Intn(2), nrows: 1 + rng.Intn(2)}
		ls.devices = map[int]*LanceroDevice{0: dev}
		ls.active = []*LanceroDevice{dev}
		ls.nchan = 2 * dev.ncols * dev.nrows
		ls.firstRowChanNum = 1
		ls.sampleRate = 10000
		ls.samplePeriod = 100000
		if err := ls.PrepareChannels(); err != nil {
			t.Fatal(err)
		}
		if err := ls.PrepareRun(10, 40); err != nil {
			t.Fatal(err)
		}
		n := ls.nchan
		vEmit(vmap{"ev": "GBegin", "scen": 100000 + scen, "nchan": n})
		step := 0
		for k := 4 + rng.Intn(8); k > 0; k-- {
			op := []string{"fb2err", "fb2err", "err2fb", "none", "add", "del", "restart", "fb2err"}[rng.Intn(8)]
			pairs := [][]int{}
			var err error
			switch op {
			case "fb2err":
				err = ls.SetCoupling(FBToErr)
			case "err2fb":
				err = ls.SetCoupling(ErrToFB)
			case "none":
				err = ls.SetCoupling(NoCoupling)
			case "restart":
				err = ls.PrepareRun(10, 40)
			default:
				s, r := rng.Intn(n), rng.Intn(n)
				pairs = append(pairs, []int{s, r})
				err = ls.ChangeGroupTrigger(op == "add", &GroupTriggerState{Connections: map[int][]int{s: {r}}})
			}
			gs := ls.ComputeGroupTriggerState()
			reported := grPairs(&gs)
			// the set in use: one processing cycle in which every channel has one primary at a frame that names it
			step++
			prim := map[int]triggerList{}
			for c := 0; c < n; c++ {
				prim[c] = triggerList{channelIndex: c, frames: []FrameIndex{FrameIndex(1000*step + c)}}
			}
			sec, _ := ls.broker.Distribute(prim)
			actual := [][]int{}
			for r := 0; r < n; r++ {
				for _, f := range sec[r] {
					actual = append(actual, []int{int(f) - 1000*step, r})
				}
			}
			sort.Slice(actual, func(i, j int) bool {
				if actual[i][0] != actual[j][0] {
					return actual[i][0] < actual[j][0]
				}
				return actual[i][1] < actual[j][1]
			})
			e := ""
			if err != nil {
				e = err.Error()
			}
			vEmit(vmap{"ev": "GReq", "scen": 100000 + scen, "op": op, "pairs": pairs, "ok": err == nil, "err": e, "nreports": 0, "reported": reported, "actual": actual})
		}
	}
}
