package dastard

// C09, last clause: "the connection state reported to clients always equals the set actually used".
// Group-trigger requests go through the real SourceControl methods (request queue, core loop) on a running 4-channel
// Triangle source; every GROUPTRIGGER update sent to clients is collected, and after each request the latest report is
// logged next to the set the broker uses.  Judged by spec/GroupReportTrace.tla.

import (
	"sort"
	"testing"
)

func grPairs(g *GroupTriggerState) [][]int {
	out := [][]int{}
	if g == nil {
		return out
	}
	for s, rs := range g.Connections {
		for _, r := range rs {
			out = append(out, []int{s, r})
		}
	}
	sort.Slice(out, func(i, j int) bool { return out[i][0] < out[j][0] || (out[i][0] == out[j][0] && out[i][1] < out[j][1]) })
	return out
}

func TestVerifGroupReport(t *testing.T) {
	rng := vRng()
	base := t.TempDir()
	vClientKeep = true
	const nchan = 4
	for scen := 1; scen <= vNRandom; scen++ {
		rig := rqNewRig(base, false)
		if err := rig.ctl.triangle.Configure(&TriangleSourceConfig{Nchan: nchan, SampleRate: 20000, Min: 100, Max: 400}); err != nil {
			t.Fatal(err)
		}
		if err := rig.start(); err != nil {
			t.Fatal(err)
		}
		vTakeClient()
		reported := [][]int{}
		vEmit(vmap{"ev": "GBegin", "scen": scen, "nchan": nchan})
		nreq := 4 + rng.Intn(8)
		for k := 0; k < nreq; k++ {
			op := []string{"add", "add", "add", "del", "del", "stop"}[rng.Intn(6)]
			conns := map[int][]int{}
			pairs := [][]int{}
			for j := 1 + rng.Intn(3); j > 0 && op != "stop"; j-- {
				s, r := rng.Intn(nchan+2)-1, rng.Intn(nchan+2)-1 // -1 .. nchan: out of range at both ends
				if rng.Intn(3) > 0 {                              // mostly in range, so that requests MIX valid and invalid pairs
					s, r = rng.Intn(nchan), rng.Intn(nchan)
				}
				conns[s] = append(conns[s], r)
				pairs = append(pairs, []int{s, r})
			}
			ok := false
			var err error
			switch op {
			case "add":
				err = rig.ctl.AddGroupTriggerCoupling(GroupTriggerState{Connections: conns}, &ok)
			case "del":
				err = rig.ctl.DeleteGroupTriggerCoupling(&GroupTriggerState{Connections: conns}, &ok)
			default:
				b := false
				err = rig.ctl.StopTriggerCoupling(&b, &ok)
			}
			nrep := 0
			for _, u := range vTakeClient() {
				if u.tag == "GROUPTRIGGER" {
					if g, isg := u.state.(*GroupTriggerState); isg {
						reported = grPairs(g)
						nrep++
					} else if g2, isg2 := u.state.(GroupTriggerState); isg2 {
						reported = grPairs(&g2)
						nrep++
					}
				}
			}
			gs := rig.src.ComputeGroupTriggerState()
			actual := grPairs(&gs)
			e := ""
			if err != nil {
				e = err.Error()
			}
			vEmit(vmap{"ev": "GReq", "scen": scen, "op": op, "pairs": pairs, "ok": err == nil, "err": e, "nreports": nrep, "reported": reported, "actual": actual})
		}
		rig.stop()
		close(rig.stopHB)
	}
}
