package dastard

// Life cycle of a Lancero source and its mix-fraction requests, through the real SourceControl RPC methods
// (spec/LanceroLifecycle.tla, judged by spec/LanceroLifeTrace.tla).  The card is a time-driven stand-in for the driver
// (like lancero.NoHardware, but with patterned data, a silence switch and counters for adapter / collector).
// A scenario is a list of client-visible actions of the model:  Start | Stop | Mix:<client> | Wait | Couple.
// Mix and Stop calls are launched in order but not awaited (the model lets them overlap); Start first waits for a
// pending Stop.  Every call runs under a watchdog.  Nothing is judged here.

import (
	"encoding/json"
	"fmt"
	"os"
	"path/filepath"
	"runtime"
	"strings"
	"sync"
	"sync/atomic"
	"testing"
	"time"
)

type llCard struct {
	mu         sync.Mutex
	cols, rows int
	framens    int64
	adapter    bool
	collector  bool
	silent     bool
	last       time.Time
	frame      int
	nStartA    int
	nStopA     int
	released   int64
	doubleErrs []string
}

func (c *llCard) ChangeRingBuffer(int, int) error { return nil }
func (c *llCard) Close() error                    { return nil }
func (c *llCard) StartAdapter(int, int) error {
	c.mu.Lock()
	defer c.mu.Unlock()
	if c.adapter {
		c.doubleErrs = append(c.doubleErrs, "StartAdapter: already started")
		return fmt.Errorf("llCard.StartAdapter: already started")
	}
	c.adapter = true
	c.nStartA++
	c.last = time.Now()
	return nil
}
func (c *llCard) StopAdapter() error {
	c.mu.Lock()
	defer c.mu.Unlock()
	if !c.adapter {
		return fmt.Errorf("llCard.StopAdapter: not started")
	}
	c.adapter = false
	c.nStopA++
	return nil
}
func (c *llCard) CollectorConfigure(int, int, uint32, int) error { return nil }
func (c *llCard) StartCollector(bool) error {
	c.mu.Lock()
	defer c.mu.Unlock()
	if c.collector {
		c.doubleErrs = append(c.doubleErrs, "StartCollector: already started")
		return fmt.Errorf("llCard.StartCollector: already started")
	}
	c.collector = true
	return nil
}
func (c *llCard) StopCollector() error {
	c.mu.Lock()
	defer c.mu.Unlock()
	if !c.collector {
		return fmt.Errorf("llCard.StopCollector: not started")
	}
	c.collector = false
	return nil
}
func (c *llCard) InspectAdapter() uint32 { return 0 }
func (c *llCard) Wait() (time.Time, time.Duration, error) {
	time.Sleep(10 * time.Millisecond)
	return time.Now(), 10 * time.Millisecond, nil
}
func (c *llCard) AvailableBuffer() ([]byte, time.Time, error) {
	c.mu.Lock()
	defer c.mu.Unlock()
	now := time.Now()
	if !c.adapter || !c.collector {
		return nil, now, fmt.Errorf("llCard.AvailableBuffer: not started")
	}
	if c.silent {
		c.last = now
		return []byte{}, now, nil
	}
	n := int(now.Sub(c.last).Nanoseconds() / c.framens)
	if n > 4000 {
		n = 4000
	}
	c.last = c.last.Add(time.Duration(int64(n) * c.framens))
	b := make([]byte, 0, n*c.cols*c.rows*4)
	for i := 0; i < n; i++ {
		for r := 0; r < c.rows; r++ {
			for col := 0; col < c.cols; col++ {
				fb := uint16((c.frame*7+r*131+col*17)%4000+1000) << 2
				er := uint16((c.frame + r + col) % 200)
				if r == 0 {
					fb |= 1
				}
				b = append(b, byte(er), byte(er>>8), byte(fb), byte(fb>>8))
			}
		}
		c.frame++
	}
	return b, now, nil
}
func (c *llCard) ReleaseBytes(n int) error { atomic.AddInt64(&c.released, int64(n)); return nil }

func llCensus() map[string]int {
	buf := make([]byte, 1<<20)
	n := runtime.Stack(buf, true)
	out := map[string]int{"core": 0, "reader": 0, "gn": 0}
	for _, g := range strings.Split(string(buf[:n]), "\n\n") {
		if strings.Contains(g, "dastard.CoreLoop(") {
			out["core"]++
		}
		if strings.Contains(g, "LanceroSource).launchLanceroReader.func1") {
			out["reader"]++
		}
		if strings.Contains(g, "LanceroSource).getNextBlock.func1") {
			out["gn"]++
		}
	}
	return out
}

type llScen struct {
	Origin string   `json:"origin"`
	Steps  []string `json:"steps"`
	Bad    []string `json:"bad"` // clients whose request has lists of different lengths
}

type llCallRes struct {
	returned bool
	err      string
	ms       int
	mix      []float64
}

var llBlocks int64

func llVPoint(name string) {
	if name == "CoreLoop.block" {
		atomic.AddInt64(&llBlocks, 1)
	}
}

// llMix issues one mix request through the RPC method; the reply (the current mix of all channels) is broadcast, not
// returned, so the boolean and the error are what the caller sees.
func llMix(ctl *SourceControl, bad bool, frac float64) error {
	mfo := &MixFractionObject{ChannelIndices: []int{1}, MixFractions: []float64{frac}}
	if bad {
		mfo = &MixFractionObject{ChannelIndices: []int{1, 3}, MixFractions: []float64{frac}}
	}
	ok := false
	err := ctl.ConfigureMixFraction(mfo, &ok)
	if err == nil && !ok {
		return fmt.Errorf("(reply false without an error)")
	}
	return err
}

func llRun(id int, sc *llScen, dir string) {
	const cols, rows = 2, 3
	cg := filepath.Join(dir, fmt.Sprintf("cringeGlobals%d.json", id))
	os.WriteFile(cg, []byte(fmt.Sprintf(`{"SETT": 18, "seqln": %d, "lsync": 100, "testpattern": 0, "propagationdelay": 9, "NSAMP": 4, "carddelay": 7, "XPT": 3}`, rows)), 0664)
	cringeGlobalsPath = cg
	card := &llCard{cols: cols, rows: rows, framens: 100 * 8 * rows * 10} // 24 us per frame
	ctl := NewSourceControl()
	ctl.clientUpdates = clientMessageChan
	ctl.mapServer = newMapServer()
	ctl.status.Npresamp, ctl.status.Nsamples = 10, 40
	ctl.ActiveSource = ctl.triangle // as RunRPCServer leaves it before any source has been started
	stopHB := make(chan struct{})
	defer close(stopHB)
	go func() {
		for {
			select {
			case <-ctl.heartbeats:
			case <-stopHB:
				return
			}
		}
	}()
	ctl.lancero.devices[0] = &LanceroDevice{devnum: 0, card: card}
	ctl.lancero.ncards = 1
	bad := map[string]bool{}
	for _, b := range sc.Bad {
		bad[b] = true
	}
	vEmit(vmap{"ev": "LLBegin", "scen": id, "origin": sc.Origin, "steps": sc.Steps, "bad": sc.Bad})
	type pending struct {
		idx  int
		kind string
		ch   chan llCallRes
	}
	var pend []pending
	launch := func(idx int, kind string, f func() error) chan llCallRes {
		ch := make(chan llCallRes, 1)
		t0 := time.Now()
		go func() {
			// a panic in the goroutine that serves an RPC call takes the server down (net/rpc does not recover): recorded
			defer func() {
				if p := recover(); p != nil {
					vEmit(vmap{"ev": "Panic", "where": "rpc call " + kind, "msg": fmt.Sprint(p)})
					ch <- llCallRes{returned: true, err: "PANIC: " + fmt.Sprint(p), ms: int(time.Since(t0).Milliseconds())}
				}
			}()
			err := f()
			msg := ""
			if err != nil {
				msg = err.Error()
				if msg == "" {
					msg = "(empty error)"
				}
			}
			ch <- llCallRes{returned: true, err: msg, ms: int(time.Since(t0).Milliseconds())}
		}()
		return ch
	}
	await := func(ch chan llCallRes, limit time.Duration) llCallRes {
		select {
		case r := <-ch:
			return r
		case <-time.After(limit):
			return llCallRes{returned: false, ms: int(limit.Milliseconds())}
		}
	}
	var stopCh chan llCallRes
	stopIdx := -1
	report := func(idx int, kind string, r llCallRes, extra vmap) {
		m := vmap{"ev": "LLRet", "step": idx, "a": kind, "returned": r.returned, "err": r.err, "ms": r.ms}
		for k, v := range extra {
			m[k] = v
		}
		vEmit(m)
	}
	settle := func() vmap {
		// after a Stop has returned: goroutines of the run, the card, the state
		time.Sleep(30 * time.Millisecond)
		card.mu.Lock()
		ad, co := card.adapter, card.collector
		card.mu.Unlock()
		return vmap{"census": llCensus(), "adapter": ad, "collector": co, "st": int(ctl.lancero.GetState())}
	}
	finishStop := func() {
		if stopCh != nil {
			r := await(stopCh, 4*time.Second)
			report(stopIdx, "Stop", r, settle())
			stopCh = nil
		}
	}
	for i, s := range sc.Steps {
		idx := i + 1
		vEmit(vmap{"ev": "LLStep", "step": idx, "a": s})
		switch {
		case s == "Start":
			finishStop()
			ok := false
			cfgr := launch(idx, "Configure", func() error {
				return ctl.ConfigureLanceroSource(&LanceroSourceConfig{FiberMask: 0xffff, CardDelay: []int{1}, ActiveCards: []int{0}, FirstRow: 1}, &ok)
			})
			if r := await(cfgr, 3*time.Second); !r.returned || r.err != "" {
				report(idx, "Start", r, vmap{"phase": "configure", "blocks": 0})
				continue
			}
			n0 := atomic.LoadInt64(&llBlocks)
			name := "LANCEROSOURCE"
			r := await(launch(idx, "Start", func() error { return ctl.Start(&name, &ok) }), 6*time.Second)
			blocks := 0
			if r.returned && r.err == "" {
				for k := 0; k < 100 && atomic.LoadInt64(&llBlocks) < n0+2; k++ {
					time.Sleep(10 * time.Millisecond)
				}
				blocks = int(atomic.LoadInt64(&llBlocks) - n0)
			}
			report(idx, "Start", r, vmap{"phase": "start", "blocks": blocks, "st": int(ctl.lancero.GetState())})
		case s == "StartBad":
			// a channel separation that Configure accepts and PrepareChannels refuses (2 < 3 rows): this Start fails after
			// the card has been sampled; the source must be left inactive, quiet, the card released
			finishStop()
			ok := false
			cfgr := launch(idx, "Configure", func() error {
				return ctl.ConfigureLanceroSource(&LanceroSourceConfig{FiberMask: 0xffff, CardDelay: []int{1}, ActiveCards: []int{0}, FirstRow: 1, ChanSepColumns: 2}, &ok)
			})
			if r := await(cfgr, 3*time.Second); !r.returned || r.err != "" {
				report(idx, "StartBad", r, vmap{"phase": "configure", "st": int(ctl.lancero.GetState()), "census": llCensus(), "adapter": false, "collector": false})
				continue
			}
			name := "LANCEROSOURCE"
			r := await(launch(idx, "StartBad", func() error { return ctl.Start(&name, &ok) }), 6*time.Second)
			x := settle()
			x["phase"] = "start"
			report(idx, "StartBad", r, x)
		case s == "Stop":
			finishStop()
			d := "x"
			ok := false
			stopCh = launch(idx, "Stop", func() error { return ctl.Stop(&d, &ok) })
			stopIdx = idx
			vEmit(vmap{"ev": "LLStopIssued", "step": idx})
			time.Sleep(2 * time.Millisecond)
		case s == "StopWait":
			finishStop()
		case strings.HasPrefix(s, "Mix:"):
			c := s[4:]
			isBad := bad[c]
			frac := 0.25 * float64(idx)
			pend = append(pend, pending{idx, s, launch(idx, s, func() error { return llMix(ctl, isBad, frac) })})
			time.Sleep(5 * time.Millisecond)
		case s == "Couple":
			pend = append(pend, pending{idx, s, launch(idx, s, func() error { ok := false; on := true; return ctl.CoupleErrToFB(&on, &ok) })})
			time.Sleep(5 * time.Millisecond)
		case s == "Wait":
			time.Sleep(120 * time.Millisecond)
		case s == "Silence":
			card.mu.Lock()
			card.silent = true
			card.mu.Unlock()
		case s == "Flow":
			card.mu.Lock()
			card.silent = false
			card.mu.Unlock()
		}
	}
	finishStop()
	for _, p := range pend {
		r := await(p.ch, 2500*time.Millisecond)
		report(p.idx, p.kind, r, nil)
	}
	// leave nothing running: a final Stop (its result is part of the End event)
	d := "x"
	ok := false
	fr := await(launch(0, "FinalStop", func() error { return ctl.Stop(&d, &ok) }), 4*time.Second)
	end := settle()
	end["ev"], end["finalstop"], end["finalstoperr"] = "LLEnd", fr.returned, fr.err
	card.mu.Lock()
	end["doublestart"] = append([]string{}, card.doubleErrs...)
	card.mu.Unlock()
	vEmit(end)
}

func TestVerifLanceroLife(t *testing.T) {
	var scens []llScen
	if p := os.Getenv("VERIF_SCEN"); p != "" {
		b, err := os.ReadFile(p)
		if err != nil {
			t.Fatal(err)
		}
		if err := json.Unmarshal(b, &scens); err != nil {
			t.Fatal(err)
		}
	}
	dir, err := os.MkdirTemp("", "verif_ll")
	if err != nil {
		t.Fatal(err)
	}
	defer os.RemoveAll(dir)
	VPoint = llVPoint
	skip := vEnvInt("VERIF_SKIP", 0)
	for i := range scens {
		if i+1 <= skip {
			continue
		}
		llRun(i+1, &scens[i], dir)
	}
}
