package dastard

// Gated replay driver for C10 / C11: executes behaviours of Lifecycle.tla on the real SourceControl /
// Start / CoreLoop / AnySource.Stop / runLaterIfActive / producers.  Every goroutine of interest stops at the
// vpoint gates (build tag verif); the scheduler releases exactly the goroutine(s) whose step the model takes
// next and waits for them at their next gate.  After the scripted part the gates are opened, a final Stop is
// issued and a watchdog looks for calls that never return (reported with the blocking frame).  Nothing is
// judged here; LifecycleTrace.tla judges the recorded trace.

import (
	"bytes"
	"fmt"
	"os"
	"path/filepath"
	"runtime"
	"strconv"
	"strings"
	"sync"
	"testing"
	"time"
)

type lcAct struct {
	A     string `json:"a"`
	R     string `json:"r"`
	S     string `json:"s"`
	C     string `json:"c"`
	Phase string `json:"phase"`
	Why   string `json:"why"`
	Nres  int    `json:"nres"`
}

type lcStep struct {
	Act        lcAct  `json:"act"`
	St         string `json:"st"`
	Flag       bool   `json:"flag"`
	Cpc        string `json:"cpc"`
	Ppc        string `json:"ppc"`
	AfterStops bool   `json:"afterstops"`
	Quiet      bool   `json:"quiet"`
}

type lcScen struct {
	Origin   string   `json:"origin"`
	Producer string   `json:"producer"` // simple | erroring
	Steps    []lcStep `json:"steps"`
	ReqKinds []string `json:"reqkinds"` // request kind per client c1, c2, ... (default trigger)
	Free     *lcFree  `json:"free"`     // free-running schedule: no gates, the Go scheduler decides
}

// lcFree: Start, then NStop simultaneous Stop callers after DelayUs (the erroring source ends itself at about the same
// time).  No step is scripted: the End event (returns, state, census, restart probe) is what gets judged.
type lcFree struct {
	NStop   int `json:"nstop"`
	DelayUs int `json:"delayus"`
	Rounds  int `json:"rounds"` // start/stop cycles on the same source object (the last one is the tracked one)
}

type lcArrival struct {
	role, point string
	err         string // for "return"
}

type lcGate struct {
	point   string
	release chan struct{}
}

var lc struct {
	mu       sync.Mutex
	active   bool
	open     bool // gates pass through (drain phase)
	roles    map[uint64]string
	parked   map[string]*lcGate
	arrivals chan lcArrival
	stash    []lcArrival
}

func lcGid() uint64 {
	var buf [64]byte
	n := runtime.Stack(buf[:], false)
	f := bytes.Fields(buf[:n])
	id, _ := strconv.ParseUint(string(f[1]), 10, 64)
	return id
}

func lcRoleOf(name string) string {
	lc.mu.Lock()
	r := lc.roles[lcGid()]
	lc.mu.Unlock()
	if r != "" {
		return r
	}
	switch {
	case strings.HasPrefix(name, "CoreLoop."):
		return "core"
	case strings.HasPrefix(name, "Producer."):
		return "producer"
	}
	return ""
}

func lcVPoint(name string) {
	lc.mu.Lock()
	if !lc.active || lc.open {
		lc.mu.Unlock()
		return
	}
	lc.mu.Unlock()
	role := lcRoleOf(name)
	if role == "" {
		return
	}
	g := &lcGate{point: name, release: make(chan struct{})}
	lc.mu.Lock()
	if lc.open {
		lc.mu.Unlock()
		return
	}
	lc.parked[role] = g
	lc.mu.Unlock()
	lc.arrivals <- lcArrival{role: role, point: name}
	<-g.release
}

func lcVEvent(name string, kv ...any) {
	lc.mu.Lock()
	on := lc.active && !lc.open
	act := lc.active
	lc.mu.Unlock()
	if act && len(kv) == 2 && kv[0] == "held" {
		// vheld: is the state lock held where the code acts on the state it has just read?
		vEmit(vmap{"ev": "Held", "name": name, "held": kv[1]})
		return
	}
	if on && name == "RunDone.deactivate" {
		lc.arrivals <- lcArrival{role: "core", point: "deactivated"}
	}
}

func lcRelease(role string) bool {
	lc.mu.Lock()
	g := lc.parked[role]
	delete(lc.parked, role)
	lc.mu.Unlock()
	if g == nil {
		return false
	}
	close(g.release)
	return true
}

func lcParkedAt(role string) string {
	lc.mu.Lock()
	defer lc.mu.Unlock()
	if g := lc.parked[role]; g != nil {
		return g.point
	}
	return ""
}

// lcExpect waits until role arrives somewhere; arrivals of other roles are stashed.
func lcExpect(role string, timeout time.Duration) (lcArrival, bool) {
	for i, a := range lc.stash {
		if a.role == role {
			lc.stash = append(lc.stash[:i], lc.stash[i+1:]...)
			return a, true
		}
	}
	deadline := time.After(timeout)
	for {
		select {
		case a := <-lc.arrivals:
			if a.role == role {
				return a, true
			}
			lc.stash = append(lc.stash, a)
		case <-deadline:
			return lcArrival{}, false
		}
	}
}

// lcSpawn starts a caller goroutine that parks at its "call" gate and reports its return.
func lcSpawn(role string, f func() error) {
	ready := make(chan struct{})
	go func() {
		lc.mu.Lock()
		lc.roles[lcGid()] = role
		lc.mu.Unlock()
		close(ready)
		lcVPoint("call")
		err := f()
		msg := ""
		if err != nil {
			msg = err.Error()
		}
		lc.arrivals <- lcArrival{role: role, point: "return", err: "ret:" + msg}
	}()
	<-ready
}

func lcBlockedFrame(role string) string {
	// find the goroutine of that role in a full dump and name the dastard frame it is blocked in
	buf := make([]byte, 1<<20)
	n := runtime.Stack(buf, true)
	lc.mu.Lock()
	var gid uint64
	for id, r := range lc.roles {
		if r == role {
			gid = id
		}
	}
	lc.mu.Unlock()
	for _, g := range strings.Split(string(buf[:n]), "\n\n") {
		if strings.HasPrefix(g, fmt.Sprintf("goroutine %d [", gid)) {
			state := g[strings.Index(g, "[")+1 : strings.Index(g, "]")]
			for _, line := range strings.Split(g, "\n") {
				if strings.Contains(line, "dastard.") && !strings.Contains(line, "lc") && !strings.Contains(line, "Test") {
					fn := strings.TrimSpace(line)
					if i := strings.LastIndex(fn, "("); i > 0 {
						fn = fn[:i]
					}
					return state + " in " + fn[strings.LastIndex(fn, "/")+1:]
				}
			}
			return state
		}
	}
	return "gone"
}

func lcCensus() map[string]int {
	buf := make([]byte, 1<<20)
	n := runtime.Stack(buf, true)
	out := map[string]int{"core": 0, "producer": 0}
	for _, g := range strings.Split(string(buf[:n]), "\n\n") {
		if strings.Contains(g, "dastard.CoreLoop(") {
			out["core"]++
		}
		if strings.Contains(g, "TriangleSource).StartRun.func1") || strings.Contains(g, "ErroringSource).StartRun.func1") || strings.Contains(g, "SimPulseSource).StartRun.func1") {
			out["producer"]++
		}
	}
	return out
}

func lcStateName(s SourceState) string {
	switch s {
	case Inactive:
		return "Inactive"
	case Starting:
		return "Starting"
	case Active:
		return "Active"
	case Stopping:
		return "Stopping"
	}
	return "?"
}

func lcCensusDelta(c0 map[string]int) map[string]int {
	c := lcCensus()
	return map[string]int{"core": c["core"] - c0["core"], "producer": c["producer"] - c0["producer"]}
}

func lcRequest(sc *SourceControl, kind string, dir string) error {
	ok := false
	switch kind {
	case "pulselengths":
		return sc.ConfigurePulseLengths(SizeObject{Nsamp: 60, Npre: 20}, &ok)
	case "coupling":
		b := false
		return sc.CoupleErrToFB(&b, &ok)
	case "grouptrigger":
		return sc.AddGroupTriggerCoupling(GroupTriggerState{Connections: map[int][]int{0: {1}}}, &ok)
	case "statelabel":
		return sc.SetExperimentStateLabel(&StateLabelConfig{Label: "A", WaitForError: true}, &ok)
	case "writecontrol":
		return sc.WriteControl(&WriteControlConfig{Request: "Start", Path: dir, WriteLJH22: true}, &ok)
	case "comment":
		c := "hello"
		return sc.WriteComment(&c, &ok)
	default:
		ts := TriggerState{AutoTrigger: true, AutoDelay: 10 * time.Millisecond}
		return sc.ConfigureTriggers(&FullTriggerState{ChannelIndices: []int{0}, TriggerState: ts}, &ok)
	}
}

const lcWait = 3 * time.Second

// lcRun executes one scenario. Returns after cleaning up as far as possible.
func lcRun(id int, sc *lcScen, base string) {
	dir := filepath.Join(base, fmt.Sprintf("lc%d", id))
	os.MkdirAll(dir, 0775)
	ctl := NewSourceControl()
	ctl.clientUpdates = clientMessageChan
	ctl.mapServer = newMapServer()
	ctl.status.Npresamp, ctl.status.Nsamples = 10, 40
	stopHB := make(chan struct{})
	go func() { // the RPC server's heartbeat consumer
		for {
			select {
			case <-ctl.heartbeats:
			case <-stopHB:
				return
			}
		}
	}()
	defer close(stopHB)
	srcName := "TRIANGLESOURCE"
	if sc.Producer == "erroring" {
		srcName = "ERRORINGSOURCE"
		// ErroringSource is a test-only source without row/column codes (its WriteControl START would index an empty
		// table); give it the one code a real one-channel source has, so that write requests can be part of a history
		// in which the source ends by itself
		ctl.erroring.rowColCodes = []RowColCode{rcCode(0, 0, 1, 1)}
	} else if sc.Producer == "simpulse" { // free-running schedules only: the third simulated producer loop
		srcName = "SIMPULSESOURCE"
		if err := ctl.simPulses.Configure(&SimPulseSourceConfig{Nchan: 2, SampleRate: 20000, Pedestal: 1000, Amplitudes: []float64{3000, 5000}, Nsamp: 200}); err != nil {
			panic(err)
		}
	} else {
		if err := ctl.triangle.Configure(&TriangleSourceConfig{Nchan: 2, SampleRate: 20000, Min: 100, Max: 400}); err != nil {
			panic(err)
		}
	}
	lc.mu.Lock()
	lc.active, lc.open = true, false
	lc.roles = map[uint64]string{}
	lc.parked = map[string]*lcGate{}
	lc.arrivals = make(chan lcArrival, 1000)
	lc.stash = nil
	lc.mu.Unlock()

	census0 := lcCensus()
	vEmit(vmap{"ev": "Begin", "scen": id, "origin": sc.Origin, "producer": sc.Producer})
	returned := map[string]string{} // role -> error text of its return
	spawned := map[string]bool{}
	nstarter := 0
	starterRole := ""
	problem := ""
	var ds DataSource = ctl.triangle
	if sc.Producer == "erroring" {
		ds = ctl.erroring
	} else if sc.Producer == "simpulse" {
		ds = ctl.simPulses
	}
	expect := func(role string, points ...string) string {
		a, ok := lcExpect(role, lcWait)
		if !ok {
			problem = fmt.Sprintf("%s did not arrive at %v (blocked: %s)", role, points, lcBlockedFrame(role))
			return ""
		}
		if a.point == "return" {
			returned[role] = a.err
		}
		for _, p := range points {
			if a.point == p {
				return p
			}
		}
		problem = fmt.Sprintf("%s arrived at %s, expected %v", role, a.point, points)
		return a.point
	}
	release := func(role string, at ...string) {
		p := lcParkedAt(role)
		okAt := len(at) == 0
		for _, a := range at {
			if a == p {
				okAt = true
			}
		}
		if !okAt {
			problem = fmt.Sprintf("%s is parked at %q, expected %v", role, p, at)
			return
		}
		lcRelease(role)
	}
	if sc.Free != nil {
		lc.mu.Lock()
		lc.open = true
		lc.mu.Unlock()
		rounds := sc.Free.Rounds
		if rounds < 1 {
			rounds = 1
		}
		for round := 0; round < rounds; round++ {
			name := srcName
			ok := false
			st0 := lcStateName(ds.GetState())
			err := ctl.Start(&name, &ok)
			ret := "ret:"
			if err != nil {
				ret += err.Error()
			}
			st := lcStateName(ds.GetState())
			vEmit(vmap{"ev": "Step", "i": round, "a": "StartReturn", "r": "ok", "role": "st1", "phase": "", "why": "", "nres": 0, "st0": st0, "st": st,
				"flag": ctl.isSourceActive, "mst": st, "mflag": ctl.isSourceActive, "afterstops": false, "quiet": sc.Producer != "erroring",
				"census": lcCensusDelta(census0), "ret": ret})
			if err != nil {
				break
			}
			time.Sleep(time.Duration(sc.Free.DelayUs) * time.Microsecond)
			gate := make(chan struct{})
			if round == rounds-1 {
				// the last round's callers are tracked by the drain phase (hangs are reported with their blocking frame)
				for k := 1; k <= sc.Free.NStop; k++ {
					role := fmt.Sprintf("s%d", k)
					lcSpawn(role, func() error { <-gate; d := "x"; ok := false; return ctl.Stop(&d, &ok) })
					spawned[role] = true
				}
				close(gate)
				break
			}
			var wg sync.WaitGroup
			for k := 1; k <= sc.Free.NStop; k++ {
				wg.Add(1)
				go func() { defer wg.Done(); <-gate; d := "x"; ok := false; ctl.Stop(&d, &ok) }()
			}
			close(gate)
			alldone := make(chan struct{})
			go func() { wg.Wait(); close(alldone) }()
			select {
			case <-alldone:
			case <-time.After(3 * time.Second):
				problem = "a Stop call of an earlier round did not return"
			}
			if problem != "" || ds.GetState() != Inactive {
				break // the End event shows the harm
			}
		}
	}
	kindOf := func(c string) string {
		i, _ := strconv.Atoi(strings.TrimPrefix(c, "c"))
		if i >= 1 && i <= len(sc.ReqKinds) {
			return sc.ReqKinds[i-1]
		}
		return "trigger"
	}
	nDone := 0
	for si, step := range sc.Steps {
		a := step.Act
		stBefore := lcStateName(ds.GetState())
		switch a.A {
		case "StartCall":
			nstarter++
			starterRole = fmt.Sprintf("starter%d", nstarter)
			name := srcName
			lcSpawn(starterRole, func() error { ok := false; return ctl.Start(&name, &ok) })
			spawned[starterRole] = true
			expect(starterRole, "call")
			release(starterRole, "call")
			// record what the code did, whatever the model expected: a Start accepted in a state other than Inactive
			// is a violation by itself (C10_start_only_inactive), not merely a divergence from the schedule
			got := expect(starterRole, "Start.begin", "return")
			observed := "refused"
			if got == "Start.begin" {
				observed = "ok"
			}
			if problem == "" && (observed == "ok") != (a.R == "ok") {
				vEmit(vmap{"ev": "Step", "i": si, "a": "StartCall", "r": observed, "role": "", "phase": "", "why": "", "nres": 0,
					"st0": stBefore, "st": lcStateName(ds.GetState()), "flag": ctl.isSourceActive, "mst": step.St, "mflag": step.Flag,
					"afterstops": false, "quiet": false, "census": lcCensusDelta(census0), "ret": returned[starterRole]})
				problem = fmt.Sprintf("%s: Start was %s, the model says %s", starterRole, observed, a.R)
			}
		case "StartSample":
			release(starterRole, "Start.begin")
			expect(starterRole, "Start.sampled")
		case "StartFail":
			// PrepareRun fails for a source that reports zero channels
			if sc.Producer != "erroring" {
				ctl.triangle.nchan = 0
			} else {
				ctl.erroring.nchan = 0
			}
			release(starterRole, "Start.sampled")
			expect(starterRole, "return")
			if sc.Producer != "erroring" {
				ctl.triangle.nchan = 2
			} else {
				ctl.erroring.nchan = 1
			}
		case "StartPrepare":
			release(starterRole, "Start.sampled")
			expect(starterRole, "Start.prepared")
		case "StartActivate":
			release(starterRole, "Start.prepared")
			expect(starterRole, "Start.launched")
			expect("core", "CoreLoop.select")
			if sc.Producer == "erroring" {
				expect("producer", "Producer.senderr")
			} else {
				expect("producer", "Producer.loop")
			}
		case "StartReturn":
			release(starterRole, "Start.launched")
			expect(starterRole, "return")
		case "ProducerTick":
			ctl.triangle.lastread = time.Now().Add(-ctl.triangle.timeperbuf)
			release("producer", "Producer.loop")
			expect("producer", "Producer.send")
		case "ProducerAbort":
			// the producer computes its timer from lastread: make sure the timer arm is not ready, so that the
			// select takes the abort arm as in the model's step (the goroutine is parked: no concurrent access)
			ctl.triangle.lastread = time.Now().Add(time.Second)
			release("producer", "Producer.loop")
			if expect("producer", "Producer.abort") != "" {
				release("producer", "Producer.abort")
			}
		case "CoreTakeBlock":
			release("core", "CoreLoop.select")
			release("producer", "Producer.send")
			expect("core", "CoreLoop.block")
			expect("producer", "Producer.loop")
		case "CoreBlockDone":
			release("core", "CoreLoop.block")
			if expect("core", "CoreLoop.blockDone") != "" {
				release("core", "CoreLoop.blockDone")
				expect("core", "CoreLoop.select")
			}
		case "CoreExit":
			release("core", "CoreLoop.select")
			if a.Why == "errblock" {
				release("producer", "Producer.senderr")
			}
			if expect("core", "CoreLoop.exit") != "" {
				release("core", "CoreLoop.exit")
				expect("core", "deactivated")
			}
		case "CoreTakeReq":
			release("core", "CoreLoop.select")
			if lcParkedAt(a.C) == "RLIA.checked" { // otherwise it is already waiting in runLaterIfActive's select (ReqPoll)
				release(a.C, "RLIA.checked")
			}
			expect("core", "CoreLoop.request")
			expect(a.C, "RLIA.sent")
		case "CoreSendResult":
			// the first result is sent by the closure (core released from CoreLoop.request); a second one only needs a receiver
			if lcParkedAt("core") == "CoreLoop.request" {
				release("core", "CoreLoop.request")
			}
			release(a.C, "RLIA.sent")
			expect(a.C, "return")
			nDone++
		case "CoreReqDone":
			if expect("core", "CoreLoop.requestDone") != "" {
				release("core", "CoreLoop.requestDone")
				expect("core", "CoreLoop.select")
			}
		case "StopCall":
			lcSpawn(a.S, func() error { d := "x"; ok := false; return ctl.Stop(&d, &ok) })
			spawned[a.S] = true
			expect(a.S, "call")
			release(a.S, "call")
			switch {
			case a.R == "refused-flag":
				expect(a.S, "return")
			case a.R == "ok" && step.St == "Stopping" && stBefore == "Active":
				expect(a.S, "Stop.signalled")
			default:
				expect(a.S, "SC.Stop.stopped")
			}
		case "StopWaited":
			release(a.S, "Stop.signalled")
			if expect(a.S, "Stop.waited") != "" {
				release(a.S, "Stop.waited")
				expect(a.S, "SC.Stop.stopped")
			}
		case "StopReturn":
			release(a.S, "SC.Stop.stopped")
			expect(a.S, "return")
		case "ReqCall":
			kind := kindOf(a.C)
			lcSpawn(a.C, func() error { return lcRequest(ctl, kind, dir) })
			spawned[a.C] = true
			expect(a.C, "call")
			release(a.C, "call")
			if a.R == "queued" {
				expect(a.C, "RLIA.checked")
			} else {
				expect(a.C, "return")
			}
		case "ReqGiveUp":
			if lcParkedAt(a.C) == "RLIA.checked" {
				release(a.C, "RLIA.checked")
			}
			expect(a.C, "return")
		case "ReqPoll":
			// the client enters its wait loop while the source is alive (the core stands at a gate, so it cannot take
			// the request) and stays there for longer than one poll period of runLaterIfActive (50 ms)
			if lcParkedAt(a.C) == "RLIA.checked" {
				release(a.C, "RLIA.checked")
			}
			time.Sleep(130 * time.Millisecond)
		default:
			problem = "unknown action " + a.A
		}
		if problem != "" {
			vEmit(vmap{"ev": "Diverged", "i": si, "a": a.A, "what": problem})
			break
		}
		ev := vmap{"ev": "Step", "i": si, "a": a.A, "r": a.R, "role": a.S + a.C, "phase": a.Phase, "why": a.Why, "nres": a.Nres,
			"st0": stBefore, "st": lcStateName(ds.GetState()), "flag": ctl.isSourceActive,
			"mst": step.St, "mflag": step.Flag, "afterstops": step.AfterStops, "quiet": step.Quiet, "census": lcCensusDelta(census0)}
		if a.A == "StartCall" || a.A == "StartReturn" || a.A == "StartFail" {
			ev["ret"] = returned[starterRole]
		} else if a.S != "" || a.C != "" {
			ev["ret"] = returned[a.S+a.C]
		}
		vEmit(ev)
	}

	// ---- drain: open every gate, issue a final Stop, and look for calls that never return
	lc.mu.Lock()
	lc.open = true
	parked := lc.parked
	lc.parked = map[string]*lcGate{}
	lc.mu.Unlock()
	for _, g := range parked {
		close(g.release)
	}
	pending := map[string]bool{}
	for r := range spawned {
		if _, ok := returned[r]; !ok {
			pending[r] = true
		}
	}
	// phase 1: no help from outside. In every terminal state of the (repaired) model all calls have returned.
	deadline := time.After(2000 * time.Millisecond)
wait1:
	for len(pending) > 0 {
		select {
		case a := <-lc.arrivals:
			if a.point == "return" {
				returned[a.role] = a.err
				delete(pending, a.role)
			}
		case <-deadline:
			break wait1
		}
	}
	hangs := []vmap{}
	for r := range pending {
		hangs = append(hangs, vmap{"role": r, "where": lcBlockedFrame(r)})
	}
	// phase 2: a final Stop to clean up
	finalStop := make(chan error, 1)
	go func() {
		for i := 0; i < 300 && ds.GetState() == Starting; i++ {
			time.Sleep(5 * time.Millisecond)
		}
		d := "x"
		ok := false
		finalStop <- ctl.Stop(&d, &ok)
	}()
	finalStopDone, finalStopErr := false, ""
	deadline = time.After(1500 * time.Millisecond)
wait:
	for len(pending) > 0 || !finalStopDone {
		select {
		case a := <-lc.arrivals:
			if a.point == "return" {
				returned[a.role] = a.err
				delete(pending, a.role)
			}
		case err := <-finalStop:
			finalStopDone = true
			if err != nil {
				finalStopErr = err.Error()
			}
		case <-deadline:
			break wait
		}
	}
	// is data writing still on, now that every Stop call has returned?
	// (read from the reported state, not through WritingIsActive, which is the predicate the code itself uses to decide)
	wsLeft := ds.ComputeWritingState()
	writingLeft := len(pending) == 0 && finalStopDone && wsLeft.Active
	// restart probe: after everything has returned the same source object must start and stop again
	probe := "skipped"
	if len(pending) == 0 && finalStopDone {
		name := srcName
		ok := false
		if err := ctl.Start(&name, &ok); err != nil {
			probe = "start failed: " + err.Error()
		} else {
			d := "x"
			done := make(chan error, 1)
			go func() { done <- ctl.Stop(&d, &ok) }()
			select {
			case <-done:
				probe = "ok"
			case <-time.After(1500 * time.Millisecond):
				probe = "stop hung"
			}
		}
	}
	time.Sleep(10 * time.Millisecond)
	cz := lcCensus()
	rets := map[string]string{}
	for k, v := range returned {
		rets[k] = v
	}
	vEmit(vmap{"ev": "End", "hangs": hangs, "finalstop": finalStopDone, "finalstoperr": finalStopErr, "st": lcStateName(ds.GetState()),
		"flag": ctl.isSourceActive, "probe": probe, "writing": writingLeft, "census": vmap{"core": cz["core"] - census0["core"], "producer": cz["producer"] - census0["producer"]},
		"returns": rets, "ndone": nDone})
	lc.mu.Lock()
	lc.active = false
	lc.mu.Unlock()
}

func TestVerifLifecycle(t *testing.T) {
	var scens []lcScen
	vLoadScen(&scens)
	base, err := os.MkdirTemp("", "verif_lc")
	if err != nil {
		t.Fatal(err)
	}
	defer os.RemoveAll(base)
	VPoint, VEvent = lcVPoint, lcVEvent // installed once; lc.active gates them
	skip := vEnvInt("VERIF_SKIP", 0) // resume after a scenario that made the process die (a panic in a goroutine of the code)
	for i := range scens {
		if i < skip {
			continue
		}
		lcRun(i+1, &scens[i], base)
	}
}
