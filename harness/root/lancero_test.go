package dastard

// Driver for C04: a scripted in-memory lancero.Lanceroer under the real LanceroSource reader goroutine
// (launchLanceroReader), getNextBlock and distributeData (external-trigger scan, MixRetardFb, stamping).
// One AvailableBuffer call per reader tick consumes one script entry (how far the card has produced), so the
// outcome does not depend on timing.  Nothing is judged here; LanceroTrace.tla judges.

import (
	"fmt"
	"math/rand"
	"sync"
	"testing"
	"time"
)

type lnGap struct {
	At  int `json:"at"`  // byte offset in the physical stream where the loss begins
	Len int `json:"len"` // bytes lost (multiple of 4, not a multiple of the frame size)
}

type lnMix struct {
	Ch  int `json:"ch"`  // feedback channel index (odd)
	Num int `json:"num"` // mix fraction = num/den
	Den int `json:"den"`
}

type lnScen struct {
	Origin    string  `json:"origin"`
	Cols      int     `json:"cols"`
	Rows      int     `json:"rows"`
	NsampCard int     `json:"nsampcard"` // ls.nsamp (power of two): errorScale = fraction / nsampcard
	NFrames   int     `json:"nframes"`
	Ext       [][]int `json:"ext"`   // [frame, row] cells in which the external-trigger flag is high
	Reads     []int   `json:"reads"` // bytes of the delivered stream produced by the time of each AvailableBuffer call (non-decreasing)
	Gap       *lnGap  `json:"gap"`
	Mix       []lnMix `json:"mix"`
	MixAfter  int     `json:"mixafter"` // a second mix setting is requested after this many reads (0 = none)
	Mix2      []lnMix `json:"mix2"`
	Frame0    int64   `json:"frame0"`
	ValMode   string  `json:"valmode"` // id | extreme
	VSeed     int64   `json:"vseed"`
	StallAt   int     `json:"stallat"` // the block consumer pauses for four read periods after this block (0 = never): reads queue up behind it
}

type lnCard struct {
	mu     sync.Mutex
	data   []byte
	reads  []int
	ncall  int
	rel    int
	t0     time.Time
	period time.Duration
	fsize  int
	done   chan struct{}
	once   sync.Once
	onRead func(n int)
	seen   [][2]int // (release pointer, production point) of every AvailableBuffer call
}

// lnGapClass classifies where a loss sits as the reader meets it, from the card's side only: the first driver read of at
// least three frames whose window contains the junction; whether the junction lies in the first frame of that read; and
// whether the frame-bit pattern seen from the start of that read is regular (first frame-start run as wide as the
// columns, next frame start exactly one frame later).  Used to tell the losses today's reader re-aligns on from those
// it cannot see (known finding F5b).
func (c *lnCard) lnGapClass(junction, cols, rows int) vmap {
	c.mu.Lock()
	defer c.mu.Unlock()
	for _, w := range c.seen {
		rel, prod := w[0], w[1]
		if !(rel <= junction && junction < prod) || prod-rel < 3*c.fsize {
			continue
		}
		bit := func(i int) bool { return c.data[rel+4*i+lanceroFBOffset]&1 == 1 }
		nw := (prod - rel) / 4
		q, n, p2 := -1, 0, -1
		seen0 := false
		for i := 0; i < nw; i++ {
			if !bit(i) {
				seen0 = true
			} else if seen0 && i > 0 && !bit(i-1) {
				q = i
				break
			}
		}
		if q >= 0 {
			for i := q; i < nw && bit(i); i++ {
				n++
			}
			for i := q + n + 1; i < nw; i++ {
				if bit(i) && !bit(i-1) {
					p2 = i
					break
				}
			}
		}
		return vmap{"found": true, "off": junction - rel, "infirst": junction-rel < c.fsize, "q": q, "n": n, "p": p2,
			"regular": q >= 0 && n == cols && p2-q == cols*rows}
	}
	return vmap{"found": false, "off": 0, "infirst": false, "q": 0, "n": 0, "p": 0, "regular": false}
}

func (c *lnCard) ChangeRingBuffer(int, int) error                { return nil }
func (c *lnCard) Close() error                                   { return nil }
func (c *lnCard) StartAdapter(int, int) error                    { return nil }
func (c *lnCard) StopAdapter() error                             { return nil }
func (c *lnCard) CollectorConfigure(int, int, uint32, int) error { return nil }
func (c *lnCard) StartCollector(bool) error                      { return nil }
func (c *lnCard) StopCollector() error                           { return nil }
func (c *lnCard) InspectAdapter() uint32                         { return 0 }
func (c *lnCard) Wait() (time.Time, time.Duration, error) {
	return time.Now(), 0, nil
}
func (c *lnCard) AvailableBuffer() ([]byte, time.Time, error) {
	c.mu.Lock()
	defer c.mu.Unlock()
	prod := len(c.data)
	if c.ncall < len(c.reads) {
		prod = c.reads[c.ncall]
	} else {
		c.once.Do(func() { close(c.done) })
	}
	c.ncall++
	if c.onRead != nil {
		c.onRead(c.ncall)
	}
	if prod > len(c.data) {
		prod = len(c.data)
	}
	if prod < c.rel {
		prod = c.rel
	}
	// the time stamp is the time of the last byte produced (a pure function of the position)
	ts := c.t0.Add(time.Duration(prod/c.fsize) * c.period)
	out := make([]byte, prod-c.rel)
	copy(out, c.data[c.rel:prod])
	c.seen = append(c.seen, [2]int{c.rel, prod})
	return out, ts, nil
}
func (c *lnCard) ReleaseBytes(n int) error {
	c.mu.Lock()
	defer c.mu.Unlock()
	c.rel += n
	if c.rel > len(c.data) {
		c.rel = len(c.data)
	}
	return nil
}

func lnValues(sc *lnScen, f, r, c int, rng *rand.Rand) (int, int) {
	// returns (err as signed 16-bit value, fb payload 14 bits)
	if sc.ValMode == "extreme" {
		e := []int{-32768, -30000, -1, 0, 1, 777, 30000, 32767}[rng.Intn(8)]
		p := []int{0, 1, 2, 100, 8000, 16000, 16382, 16383}[rng.Intn(8)]
		return e, p
	}
	id := (f%60)*64 + r*8 + c
	e := id
	if (f+r+c)%3 == 0 {
		e = -id
	}
	return e, id + 1
}

type lnRun struct {
	sc     *lnScen
	id     int
	ls     *LanceroSource
	card   *lnCard
	truth  [][]int // per APPARENT frame of the delivered stream: err values then raw fb values (readout order)
	whole  []int   // index of each apparent frame (0,1,2,...): kept for the trace format
	before int     // apparent frames that lie entirely before the loss
	intact [][]int // error words (readout order) of the physical frames that reach the reader whole, in order
	events []vmap
}

func lnPrepare(id int, sc *lnScen) *lnRun {
	run := &lnRun{sc: sc, id: id}
	nw := sc.Cols * sc.Rows
	fsize := 4 * nw
	ext := map[[2]int]bool{}
	for _, e := range sc.Ext {
		ext[[2]int{e[0], e[1]}] = true
	}
	rng := rand.New(rand.NewSource(sc.VSeed + 17))
	phys := make([]byte, 0, sc.NFrames*fsize)
	physErrs := [][]int{}
	for f := 0; f < sc.NFrames; f++ {
		errs, fbs := make([]int, 0, nw), make([]int, 0, nw)
		for r := 0; r < sc.Rows; r++ {
			for c := 0; c < sc.Cols; c++ {
				e, p := lnValues(sc, f, r, c, rng)
				fb := p << 2
				if r == 0 {
					fb |= 1
				}
				if ext[[2]int{f, r}] {
					fb |= 2
				}
				ue := uint16(int16(e))
				phys = append(phys, byte(ue), byte(ue>>8), byte(fb), byte(fb>>8))
				errs = append(errs, e)
				fbs = append(fbs, fb)
			}
		}
		physErrs = append(physErrs, errs)
	}
	// physical frames that reach the reader whole (none of their bytes lost): the only frames a re-aligned reader may emit
	run.intact = [][]int{}
	for f := 0; f < sc.NFrames; f++ {
		if sc.Gap == nil || sc.Gap.Len == 0 || (f+1)*fsize <= sc.Gap.At || f*fsize >= sc.Gap.At+sc.Gap.Len {
			run.intact = append(run.intact, physErrs[f])
		}
	}
	delivered := phys
	cutAt := len(phys) + 1
	if sc.Gap != nil && sc.Gap.Len > 0 {
		delivered = append(append([]byte{}, phys[:sc.Gap.At]...), phys[sc.Gap.At+sc.Gap.Len:]...)
		cutAt = sc.Gap.At
	}
	// Reference = what a perfect reader of the frame bits would emit: scan the delivered words; a frame is `cols` words
	// with the frame bit followed by nw-cols words without it; anything else is skipped up to the next such pattern.
	// (A frame glued from two by the loss with the pattern intact is well-formed as far as the stream shows.)
	run.truth = nil
	isF := func(i int) bool { return delivered[4*i+2]&1 == 1 }
	nwords := len(delivered) / 4
	for i := 0; i+nw <= nwords; {
		ok := true
		for j := 0; j < nw; j++ {
			if isF(i+j) != (j < sc.Cols) {
				ok = false
				break
			}
		}
		if !ok {
			i++
			continue
		}
		errs, fbs := make([]int, 0, nw), make([]int, 0, nw)
		for j := 0; j < nw; j++ {
			b := delivered[4*(i+j):]
			errs = append(errs, int(int16(uint16(b[0])|uint16(b[1])<<8)))
			fbs = append(fbs, int(uint16(b[2])|uint16(b[3])<<8))
		}
		run.truth = append(run.truth, append(errs, fbs...))
		run.whole = append(run.whole, len(run.whole))
		if 4*(i+nw) <= cutAt {
			run.before = len(run.truth)
		}
		i += nw
	}
	ls := new(LanceroSource)
	ls.name = "Lancero"
	ls.nsamp = sc.NsampCard
	ls.channelsPerPixel = 2
	card := &lnCard{data: delivered, reads: sc.Reads, t0: time.Unix(1700000000, 0), fsize: fsize, done: make(chan struct{})}
	dev := &LanceroDevice{devnum: 0, nrows: sc.Rows, ncols: sc.Cols, lsync: 40, clockMHz: 125, frameSize: fsize, card: card}
	ls.devices = map[int]*LanceroDevice{0: dev}
	ls.active = []*LanceroDevice{dev}
	ls.ncards = 1
	ls.nchan = nw * 2
	ls.sampleRate = 125e6 / float64(dev.lsync*dev.nrows)
	ls.samplePeriod = time.Duration(roundint(1e9 / ls.sampleRate))
	card.period = ls.samplePeriod
	if sc.VSeed%2 == 1 && sc.Rows != sc.Cols {
		// the same source object has run before with the TRANSPOSED geometry (same number of channels): what Sample()
		// sets up for the earlier run, then for this one (one LanceroSource serves every run of the server)
		dev.nrows, dev.ncols = sc.Cols, sc.Rows
		ls.updateChanOrderMap()
		dev.nrows, dev.ncols = sc.Rows, sc.Cols
	}
	ls.updateChanOrderMap()
	ls.voltsPerArb = make([]float32, ls.nchan)
	for i := range ls.voltsPerArb {
		ls.voltsPerArb[i] = 1
	}
	ls.mixRequests = make(chan *MixFractionObject, 10)
	ls.currentMix = make(chan []float64, 10)
	ls.firstRowChanNum = 1
	if err := ls.PrepareChannels(); err != nil {
		panic(err)
	}
	if err := ls.PrepareRun(3, 8); err != nil {
		panic(err)
	}
	ls.nextFrameNum = FrameIndex(sc.Frame0)
	for _, m := range sc.Mix {
		ls.Mix[m.Ch].errorScale = float64(m.Num) / float64(m.Den) / float64(ls.nsamp)
	}
	run.ls, run.card = ls, card
	return run
}

func (run *lnRun) emit(m vmap) { run.events = append(run.events, m) }

func (run *lnRun) execute() {
	sc, ls, card := run.sc, run.ls, run.card
	run.emit(vmap{"ev": "Config", "scen": run.id, "origin": sc.Origin, "cols": sc.Cols, "rows": sc.Rows, "nsampcard": sc.NsampCard,
		"frame0": sc.Frame0, "mix": sc.Mix, "mix2": sc.Mix2, "mixafter": sc.MixAfter, "gap": sc.Gap != nil && sc.Gap.Len > 0,
		"truth": run.truth, "whole": run.whole, "intact": run.intact, "beforegap": run.before, "reads": sc.Reads, "fsize": card.fsize})
	var mixMu sync.Mutex
	mixAtBlock, mixDoneBlock := -1, -1
	nblocks := 0
	if sc.MixAfter > 0 && len(sc.Mix2) > 0 {
		fired := false
		card.onRead = func(n int) {
			if n == sc.MixAfter && !fired {
				fired = true
				go func() {
					mfo := &MixFractionObject{}
					for _, m := range sc.Mix2 {
						mfo.ChannelIndices = append(mfo.ChannelIndices, m.Ch)
						mfo.MixFractions = append(mfo.MixFractions, float64(m.Num)/float64(m.Den))
					}
					mixMu.Lock()
					before := nblocks
					mixMu.Unlock()
					ls.ConfigureMixFraction(mfo)
					mixMu.Lock()
					// every block received before the request was made used the old mix; blocks made after it was answered use
					// the new one (at most one block made before the answer can still be on its way when the call returns)
					mixAtBlock = before
					mixDoneBlock = nblocks
					mixMu.Unlock()
				}()
			}
		}
	}
	panicked := make(chan any, 4)
	// the reader goroutine is launched by the code itself; a panic there would kill the process, so the loop body is
	// protected only through what the code offers: none. The scripted card never makes it panic on purpose.
	ls.RunDoneActivate() // the source counts as running (Start does this before StartRun): mix requests are refused otherwise
	ls.launchLanceroReader()
	go func() {
		<-card.done
		// let the reader consume the tail: wait until the release pointer has stopped moving for three ticks (bounded)
		last, still := -1, 0
		for i := 0; i < 100 && still < 3; i++ {
			time.Sleep(60 * time.Millisecond)
			card.mu.Lock()
			r := card.rel
			card.mu.Unlock()
			if r == last {
				still++
			} else {
				still, last = 0, r
			}
		}
		close(ls.abortSelf)
	}()
	for {
		var b *dataBlock
		var ok bool
		func() {
			defer func() {
				if r := recover(); r != nil {
					panicked <- r
				}
			}()
			ch := ls.getNextBlock()
			b, ok = <-ch
		}()
		if !ok || b == nil {
			break
		}
		if b.err != nil {
			run.emit(vmap{"ev": "Panic", "msg": "block error: " + b.err.Error()})
			break
		}
		mixMu.Lock()
		nblocks++
		k := nblocks
		mixMu.Unlock()
		if sc.StallAt > 0 && k == sc.StallAt {
			time.Sleep(4 * ls.readPeriod) // a slow consumer (disk stall, long request): the reader keeps reading meanwhile
		}
		data := make([][]int, len(b.segments))
		first, dropped := int64(-1), 0
		for c := range b.segments {
			data[c] = vInts16(b.segments[c].rawData)
			if c == 0 {
				first = int64(b.segments[c].firstFrameIndex) - sc.Frame0
				dropped = b.segments[c].droppedFrames
			} else if int64(b.segments[c].firstFrameIndex)-sc.Frame0 != first {
				first = -999999
			}
		}
		ext := []int{}
		for _, x := range b.externalTriggerRowcounts {
			ext = append(ext, int(x-sc.Frame0*int64(sc.Rows)))
		}
		run.emit(vmap{"ev": "Block", "k": k, "first": int(first), "n": b.nSamp, "dropped": dropped, "data": data, "ext": ext})
	}
	select {
	case p := <-panicked:
		run.emit(vmap{"ev": "Panic", "msg": fmt.Sprint(p)})
	default:
	}
	mixMu.Lock()
	mb, md := mixAtBlock, mixDoneBlock
	mixMu.Unlock()
	card.mu.Lock()
	left := len(card.data) - card.rel
	card.mu.Unlock()
	gc := vmap{"found": false, "off": 0, "infirst": false, "q": 0, "n": 0, "p": 0, "regular": false}
	if sc.Gap != nil && sc.Gap.Len > 0 {
		gc = card.lnGapClass(sc.Gap.At, sc.Cols, sc.Rows)
	}
	run.emit(vmap{"ev": "End", "mixatblock": mb, "mixdoneblock": md, "leftbytes": left, "ncalls": card.ncall, "gapclass": gc})
}

func lnRandom(rng *rand.Rand) lnScen {
	// rows >= 2: with a single row every word carries the frame bit and no reader can find frame boundaries
	sc := lnScen{Origin: "seeded", Cols: 1 + rng.Intn(3), Rows: 2 + rng.Intn(3), NsampCard: []int{1, 2, 4, 8}[rng.Intn(4)], VSeed: rng.Int63n(1 << 30)}
	sc.NFrames = 12 + rng.Intn(30)
	sc.ValMode = []string{"id", "id", "extreme"}[rng.Intn(3)]
	if rng.Intn(3) == 0 {
		sc.Frame0 = int64(rng.Intn(1 << 20))
	}
	fsize := 4 * sc.Cols * sc.Rows
	// external trigger cells: runs of high level so that rising edges fall in any row
	nruns := rng.Intn(4)
	for i := 0; i < nruns; i++ {
		f, r := rng.Intn(sc.NFrames), rng.Intn(sc.Rows)
		for l := 1 + rng.Intn(2*sc.Rows+1); l > 0; l-- {
			sc.Ext = append(sc.Ext, []int{f, r})
			r++
			if r == sc.Rows {
				r, f = 0, f+1
			}
			if f >= sc.NFrames {
				break
			}
		}
	}
	total := sc.NFrames * fsize
	if rng.Intn(3) == 0 {
		// a gap somewhere after the first 3 frames; length a multiple of 4 but not of the frame size
		glen := 4 * (1 + rng.Intn(3*sc.Cols*sc.Rows))
		if glen%fsize == 0 {
			glen += 4
		}
		at := 4 * (3*sc.Cols*sc.Rows + rng.Intn((sc.NFrames-8)*sc.Cols*sc.Rows))
		if at+glen < total-4*fsize {
			sc.Gap = &lnGap{At: at, Len: glen}
			total -= glen
		}
	}
	// production points: not frame aligned, sometimes fewer than 3 frames of new data, sometimes nothing new
	pos := 0
	for pos < total {
		step := []int{0, fsize - 4, fsize + 4, 2*fsize + 8, 3 * fsize, 4*fsize + 4*rng.Intn(sc.Cols*sc.Rows), 7*fsize + 12}[rng.Intn(7)]
		pos += step
		if pos > total {
			pos = total
		}
		sc.Reads = append(sc.Reads, pos)
		if len(sc.Reads) > 14 {
			sc.Reads = append(sc.Reads, total)
			break
		}
	}
	nfb := sc.Cols * sc.Rows
	for i := 0; i < nfb; i++ {
		if rng.Intn(3) == 0 {
			sc.Mix = append(sc.Mix, lnMix{Ch: 2*i + 1, Num: []int{1, -1, 3, 8, -8, 64, 1}[rng.Intn(7)], Den: []int{1, 2, 2, 1, 1, 1, 4}[rng.Intn(7)]})
		}
	}
	if rng.Intn(5) == 0 && len(sc.Reads) > 5 {
		sc.StallAt = 1 + rng.Intn(2)
	}
	if rng.Intn(4) == 0 && len(sc.Reads) > 3 {
		sc.MixAfter = 2 + rng.Intn(len(sc.Reads)-2)
		sc.Mix2 = []lnMix{{Ch: 2*rng.Intn(nfb) + 1, Num: []int{0, 1, -4, 16}[rng.Intn(4)], Den: 1}}
	}
	return sc
}

func TestVerifLancero(t *testing.T) {
	var scens []lnScen
	vLoadScen(&scens)
	rng := vRng()
	for i := 0; i < vNRandom; i++ {
		scens = append(scens, lnRandom(rng))
	}
	if vEnvInt("VERIF_SEQ", 0) == 1 {
		// one scenario at a time, logged as it goes: used to find the scenario that makes the reader goroutine panic
		// (a panic there cannot be recovered and ends the process)
		skip := vEnvInt("VERIF_SKIP", 0)
		for i := range scens {
			if i < skip {
				continue
			}
			r := lnPrepare(i+1, &scens[i])
			vEmit(vmap{"ev": "Running", "scen": i + 1})
			r.execute()
			for _, e := range r.events {
				vEmit(e)
			}
		}
		return
	}
	runs := make([]*lnRun, len(scens))
	for i := range scens {
		runs[i] = lnPrepare(i+1, &scens[i]) // PrepareRun reads global configuration: keep it sequential
	}
	sem := make(chan struct{}, 24)
	var wg sync.WaitGroup
	for _, r := range runs {
		wg.Add(1)
		sem <- struct{}{}
		go func(r *lnRun) {
			defer wg.Done()
			defer func() { <-sem }()
			r.execute()
		}(r)
	}
	wg.Wait()
	for _, r := range runs {
		for _, e := range r.events {
			vEmit(e)
		}
	}
}
