package dastard

// Driver for C12: the real PhaseUnwrapper on whole sequences, as one call and split into calls.

import (
	"fmt"
	"math/rand"
	"testing"
)

type puScen struct {
	Origin     string  `json:"origin"`
	Frac       int     `json:"frac"`
	Drop       int     `json:"drop"`
	Enable     bool    `json:"enable"`
	BiasLevel  int     `json:"biaslevel"`
	ResetAfter int     `json:"resetafter"`
	PulseSign  int     `json:"pulsesign"`
	Invert     bool    `json:"invert"`
	Inp        []int   `json:"inp"`
	Splits     [][]int `json:"splits"` // each: call lengths (the remainder goes into a last call)
}

func puRunOnce(sc *puScen, split []int) (out []int, perr string) {
	defer func() {
		if r := recover(); r != nil {
			perr = fmt.Sprint(r)
		}
	}()
	u := NewPhaseUnwrapper(uint(sc.Frac), uint(sc.Drop), sc.Enable, sc.BiasLevel, sc.ResetAfter, sc.PulseSign, sc.Invert)
	pos := 0
	calls := append(append([]int{}, split...), len(sc.Inp))
	for _, n := range calls {
		if pos >= len(sc.Inp) {
			break
		}
		if n > len(sc.Inp)-pos {
			n = len(sc.Inp) - pos
		}
		if n <= 0 {
			empty := []RawType{}
			u.UnwrapInPlace(&empty)
			continue
		}
		buf := make([]RawType, n)
		for i := range buf {
			buf[i] = RawType(sc.Inp[pos+i])
		}
		u.UnwrapInPlace(&buf)
		out = append(out, vInts16(buf)...)
		pos += n
	}
	return out, ""
}

func puRandom(rng *rand.Rand) puScen {
	sc := puScen{Origin: "seeded", Frac: []int{16, 16, 14, 13}[rng.Intn(4)], Drop: []int{4, 4, 2, 1, 0}[rng.Intn(5)], Enable: rng.Intn(5) != 0,
		ResetAfter: []int{1, 2, 5, 20, 1000}[rng.Intn(5)], PulseSign: 1 - 2*rng.Intn(2), Invert: rng.Intn(3) == 0}
	if sc.Drop == 0 {
		sc.Enable = false // the constructor refuses unwrapping without dropped bits
	}
	if rng.Intn(2) == 0 {
		// the bias option is +-0.38 flux quanta (a sign, not a magnitude): scaled to the fraction width, so that it
		// stays below half a quantum as in every real configuration (0.38 * 2^16 for Abaco)
		sc.BiasLevel = (24904 >> uint(16-sc.Frac)) * sc.PulseSign
		if rng.Intn(3) == 0 { // the constructor takes bias level and pulse sign as independent arguments
			sc.BiasLevel = -sc.BiasLevel
		}
	}
	n := 20 + rng.Intn(250)
	mode := rng.Intn(4)
	x := rng.Intn(65536)
	full := 1 << uint(sc.Frac)
	for i := 0; i < n; i++ {
		switch mode {
		case 0: // slow drift with wraps
			x += rng.Intn(full/8+1) - full/20
		case 1: // fast ramp (pulses): steps near half a quantum
			x += full/2 + rng.Intn(9) - 4
		case 2: // random
			x = rng.Intn(65536)
		default: // steps then plateaus (exercise the reset counter)
			if rng.Intn(10) == 0 {
				x += full * (rng.Intn(5) - 2) / 2
			}
			x += rng.Intn(3) - 1
		}
		sc.Inp = append(sc.Inp, ((x%65536)+65536)%65536)
	}
	for k := 0; k < 3; k++ {
		var sp []int
		left := n
		for left > 0 {
			m := []int{0, 1, 2, 7, 50, n}[rng.Intn(6)]
			sp = append(sp, m)
			left -= m
		}
		sc.Splits = append(sc.Splits, sp)
	}
	return sc
}

func TestVerifPhase(t *testing.T) {
	var scens []puScen
	vLoadScen(&scens)
	rng := vRng()
	for i := 0; i < vNRandom; i++ {
		scens = append(scens, puRandom(rng))
	}
	for i := range scens {
		sc := &scens[i]
		// measure the bias the constructor derived (in dropped units)
		bias := 0
		func() {
			defer func() { recover() }()
			u := NewPhaseUnwrapper(uint(sc.Frac), uint(sc.Drop), sc.Enable, sc.BiasLevel, sc.ResetAfter, sc.PulseSign, sc.Invert)
			if sc.Enable && sc.Drop > 0 {
				bias = int(u.upperStepLim) - (1 << uint(sc.Frac-sc.Drop-1))
			}
		}()
		vEmit(vmap{"ev": "Config", "scen": i + 1, "origin": sc.Origin, "frac": sc.Frac, "drop": sc.Drop, "enable": sc.Enable, "bias": bias, "biaslevel": sc.BiasLevel,
			"resetafter": sc.ResetAfter, "pulsepos": sc.PulseSign > 0, "invert": sc.Invert})
		splits := append([][]int{{}}, sc.Splits...)
		for _, sp := range splits {
			out, perr := puRunOnce(sc, sp)
			if perr != "" {
				vEmit(vmap{"ev": "Panic", "msg": perr})
				continue
			}
			if sp == nil {
				sp = []int{}
			}
			if out == nil {
				out = []int{}
			}
			vEmit(vmap{"ev": "Run", "split": sp, "inp": sc.Inp, "out": out})
		}
	}
}
