package dastard

// Workload for C17: a complete acquisition (real SourceControl, simulated sources) with triggers firing, all three
// file formats being written, status messages, a raw-data block being archived and one client issuing control
// requests.  Meant to be run under the Go race detector; the driver itself only issues requests and waits.

import (
	"fmt"
	"os"
	"path/filepath"
	"testing"
	"time"
)

func plRun(t *testing.T, name string, base string, seed int64) {
	ctl := NewSourceControl()
	ctl.clientUpdates = clientMessageChan
	ctl.mapServer = newMapServer()
	ctl.status.Npresamp, ctl.status.Nsamples = 10, 40
	stopHB := make(chan struct{})
	go func() {
		for {
			select {
			case <-ctl.heartbeats:
			case <-stopHB:
				return
			}
		}
	}()
	defer close(stopHB)
	ok := false
	switch name {
	case "TRIANGLESOURCE":
		if err := ctl.ConfigureTriangleSource(&TriangleSourceConfig{Nchan: 4, SampleRate: 50000, Min: 100, Max: 300}, &ok); err != nil {
			t.Fatal(err)
		}
	case "SIMPULSESOURCE":
		if err := ctl.ConfigureSimPulseSource(&SimPulseSourceConfig{Nchan: 3, SampleRate: 100000, Pedestal: 1000, Amplitudes: []float64{4000, 8000}, Nsamp: 1000}, &ok); err != nil {
			t.Fatal(err)
		}
	}
	dir := filepath.Join(base, name)
	os.MkdirAll(dir, 0775)
	n := name
	if err := ctl.Start(&n, &ok); err != nil {
		t.Fatal(err)
	}
	rng := newRand(seed)
	issue := func(c rqCase) {
		ret, _, _ := rqCall(func() error { return rqIssue(ctl, c, dir, ctl.status.Nsamples) }, 3*time.Second)
		if !ret {
			vEmit(vmap{"ev": "Hang", "workload": name, "req": c.Kind + ":" + c.Arg})
		}
	}
	issue(rqCase{Kind: "trigger", Arg: "all"})
	issue(rqCase{Kind: "projectors", Arg: "current"})
	issue(rqCase{Kind: "grouptrigger", Arg: "valid"})
	w := WriteControlConfig{Request: "Start", Path: filepath.Join(dir, "data"), WriteLJH22: true, WriteLJH3: true, WriteOFF: true}
	rqCall(func() error { return ctl.WriteControl(&w, &ok) }, 3*time.Second)
	issue(rqCase{Kind: "rawblock", Arg: "valid"})
	pool := []rqCase{{Kind: "statelabel", Arg: "valid"}, {Kind: "comment", Arg: "valid"}, {Kind: "writecontrol", Arg: "pause"}, {Kind: "writecontrol", Arg: "unpause"},
		{Kind: "grouptrigger-del", Arg: "valid"}, {Kind: "grouptrigger", Arg: "valid"}, {Kind: "coupling", Arg: "off"}, {Kind: "stopcoupling", Arg: "x"},
		{Kind: "trigger", Arg: "valid"}, {Kind: "rawblock", Arg: "valid"}, {Kind: "mix", Arg: "valid"}, {Kind: "pulselengths", Arg: "same"}}
	end := time.Now().Add(1200 * time.Millisecond)
	for time.Now().Before(end) {
		issue(pool[rng.Intn(len(pool))])
		d := "x"
		ctl.SendAllStatus(&d, &ok)
		time.Sleep(time.Duration(rng.Intn(30)) * time.Millisecond)
	}
	// raw-data-block requests back to back (the writer goroutine of one block is still at work when the next request is
	// set up): several pairs, so that the overlap does not depend on one lucky timing
	for k := 0; k < 6; k++ {
		issue(rqCase{Kind: "rawblock", Arg: "valid"})
		issue(rqCase{Kind: "rawblock", Arg: "valid"})
		time.Sleep(time.Duration(5*k) * time.Millisecond)
	}
	issue(rqCase{Kind: "writecontrol", Arg: "stop"})
	issue(rqCase{Kind: "pulselengths", Arg: "nsamp-only"})
	issue(rqCase{Kind: "trigger", Arg: "all"})
	time.Sleep(100 * time.Millisecond)
	d := "x"
	done := make(chan struct{})
	go func() { ctl.Stop(&d, &ok); close(done) }()
	select {
	case <-done:
	case <-time.After(3 * time.Second):
		vEmit(vmap{"ev": "Hang", "workload": name, "req": "Stop"})
	}
	vEmit(vmap{"ev": "Workload", "workload": name, "blocks": fmt.Sprint(ctl.status.Nchannels)})
}

func TestVerifPipeline(t *testing.T) {
	base, err := os.MkdirTemp("", "verif_pl")
	if err != nil {
		t.Fatal(err)
	}
	defer os.RemoveAll(base)
	rqInstallRecover()
	for i, name := range []string{"TRIANGLESOURCE", "SIMPULSESOURCE"} {
		plRun(t, name, base, vSeed+int64(i))
	}
}

type plRand struct{ s uint64 }

func newRand(seed int64) *plRand { return &plRand{uint64(seed)*2862933555777941757 + 3037000493} }
func (r *plRand) Intn(n int) int {
	r.s = r.s*6364136223846793005 + 1442695040888963407
	return int((r.s >> 33) % uint64(n))
}
