package dastard

// Workload for C17: a complete acquisition (real SourceControl, simulated sources) with triggers firing, all three
// file formats being written, status messages, a raw-data block being archived and one client issuing control
// requests.  Meant to be run under the Go race detector; the driver itself only issues requests and waits.

import (
	"fmt"
	"os"
	"path/filepath"
	"testing"
	"time"
)

func plRun(t *testing.T, name string, base string, seed int64) {
	ctl := NewSourceControl()
	ctl.clientUpdates = clientMessageChan
	ctl.mapServer = newMapServer()
	ctl.status.Npresamp, ctl.status.Nsamples = 10, 40
	stopHB := make(chan struct{})
	go func() {
		for {
			select {
			case <-ctl.heartbeats:
			case <-stopHB:
				return
			}
		}
	}()
	defer close(stopHB)
	ok := false
	switch name {
	case "TRIANGLESOURCE":
		if err := ctl.ConfigureTriangleSource(&TriangleSourceConfig{Nchan: 4, SampleRate: 50000, Min: 100, Max: 300}, &ok); err != nil {
			t.Fatal(err)
		}
	case "SIMPULSESOURCE":
		if err := ctl.ConfigureSimPulseSource(&SimPulseSourceConfig{Nchan: 3, SampleRate: 100000, Pedestal: 1000, Amplitudes: []float64{4000, 8000}, Nsamp: 1000}, &ok); err != nil {
			t.Fatal(err)
		}
	}
	dir := filepath.Join(base, name)
	os.MkdirAll(dir, 0775)
	n := name
	if err := ctl.Start(&n, &ok); err != nil {
		t.Fatal(err)
	}
	rng := newRand(seed)
	issue := func(c rqCase) {
		ret, _, _ := rqCall(func() error { return rqIssue(ctl, c, dir, ctl.status.Nsamples) }, 3*time.Second)
		if !ret {
			vEmit(vmap{"ev": "Hang", "workload": name, "req": c.Kind + ":" + c.Arg})
		}
	}
	issue(rqCase{Kind: "trigger", Arg: "all"})
	issue(rqCase{Kind: "projectors", Arg: "current"})
	issue(rqCase{Kind: "grouptrigger", Arg: "valid"})
	w := WriteControlConfig{Request: "Start", Path: filepath.Join(dir, "data"), WriteLJH22: true, WriteLJH3: true, WriteOFF: true}
	rqCall(func() error { return ctl.WriteControl(&w, &ok) }, 3*time.Second)
	issue(rqCase{Kind: "rawblock", Arg: "valid"})
	pool := []rqCase{{Kind: "statelabel", Arg: "valid"}, {Kind: "comment", Arg: "valid"}, {Kind: "writecontrol", Arg: "pause"}, {Kind: "writecontrol", Arg: "unpause"},
		{Kind: "grouptrigger-del", Arg: "valid"}, {Kind: "grouptrigger", Arg: "valid"}, {Kind: "coupling", Arg: "off"}, {Kind: "stopcoupling", Arg: "x"},
		{Kind: "trigger", Arg: "valid"}, {Kind: "rawblock", Arg: "valid"}, {Kind: "mix", Arg: "valid"}, {Kind: "pulselengths", Arg: "same"}}
	end := time.Now().Add(1200 * time.Millisecond)
	for time.Now().Before(end) {
		issue(pool[rng.Intn(len(pool))])
		d := "x"
		ctl.SendAllStatus(&d, &ok)
		time.Sleep(time.Duration(rng.Intn(30)) * time.Millisecond)
	}
	// raw-data-block requests back to back (the writer goroutine of one block is still at work when the next request is
	// set up): several pairs, so that the overlap does not depend on one lucky timing
	for k := 0; k < 6; k++ {
		issue(rqCase{Kind: "rawblock", Arg: "valid"})
		issue(rqCase{Kind: "rawblock", Arg: "valid"})
		time.Sleep(time.Duration(5*k) * time.Millisecond)
	}
	issue(rqCase{Kind: "writecontrol", Arg: "stop"})
	issue(rqCase{Kind: "pulselengths", Arg: "nsamp-only"})
	issue(rqCase{Kind: "trigger", Arg: "all"})
	time.Sleep(100 * time.Millisecond)
	d := "x"
	done := make(chan struct{})
	go func() { ctl.Stop(&d, &ok); close(done) }()
	select {
	case <-done:
	case <-time.After(3 * time.Second):
		vEmit(vmap{"ev": "Hang", "workload": name, "req": "Stop"})
	}
	vEmit(vmap{"ev": "Workload", "workload": name, "blocks": fmt.Sprint(ctl.status.Nchannels)})
}

func TestVerifPipeline(t *testing.T) {
	base, err := os.MkdirTemp("", "verif_pl")
	if err != nil {
		t.Fatal(err)
	}
	defer os.RemoveAll(base)
	rqInstallRecover()
	for i, name := range []string{"TRIANGLESOURCE", "SIMPULSESOURCE"} {
		plRun(t, name, base, vSeed+int64(i))
	}
}

type plRand struct{ s uint64 }

func newRand(seed int64) *plRand { return &plRand{uint64(seed)*2862933555777941757 + 3037000493} }
func (r *plRand) Intn(n int) int {
	r.s = r.s*6364136223846793005 + 1442695040888963407
	return int((r.s >> 33) % uint64(n))
}

// TestVerifStatusThread: the real status thread (RunClientUpdater: JSON-encodes every status message, keeps the last one
// per topic, saves the configuration) runs next to an acquisition whose data blocks are longer than the one-second
// trigger-rate reporting period, so that one block produces several TRIGGERRATE messages, and next to an ordinary one.
// Needs VERIF_REAL_CLIENTUPDATER=1 (TestMain must not drain the message channel itself).
func TestVerifStatusThread(t *testing.T) {
	base, err := os.MkdirTemp("", "verif_st")
	if err != nil {
		t.Fatal(err)
	}
	defer os.RemoveAll(base)
	suStartup(base)
	abort := make(chan struct{})
	done := make(chan struct{})
	go func() { defer close(done); RunClientUpdater(vFreePort("tcp"), abort) }()
	rqInstallRecover()
	for k, cfg := range []TriangleSourceConfig{{Nchan: 2, SampleRate: 2000, Min: 0, Max: 2200}, {Nchan: 3, SampleRate: 40000, Min: 100, Max: 400}} {
		ctl := NewSourceControl()
		ctl.clientUpdates = clientMessageChan
		ctl.mapServer = newMapServer()
		ctl.status.Npresamp, ctl.status.Nsamples = 10, 40
		stopHB := make(chan struct{})
		go func() {
			for {
				select {
				case <-ctl.heartbeats:
				case <-stopHB:
					return
				}
			}
		}()
		ok := false
		c := cfg
		if err := ctl.ConfigureTriangleSource(&c, &ok); err != nil {
			t.Fatal(err)
		}
		n := "TRIANGLESOURCE"
		if err := ctl.Start(&n, &ok); err != nil {
			t.Fatal(err)
		}
		ts := TriggerState{AutoTrigger: true, AutoDelay: 50 * time.Millisecond}
		idx := []int{0, 1}
		rqCall(func() error {
			return ctl.ConfigureTriggers(&FullTriggerState{ChannelIndices: idx, TriggerState: ts}, &ok)
		}, 5*time.Second)
		rqCall(func() error {
			return ctl.AddGroupTriggerCoupling(GroupTriggerState{Connections: map[int][]int{0: {1}}}, &ok)
		}, 5*time.Second)
		d := "x"
		for i := 0; i < []int{50, 12}[k]; i++ {
			ctl.SendAllStatus(&d, &ok)
			time.Sleep(100 * time.Millisecond)
		}
		stopped := make(chan struct{})
		go func() { ctl.Stop(&d, &ok); close(stopped) }()
		select {
		case <-stopped:
		case <-time.After(5 * time.Second):
			vEmit(vmap{"ev": "Hang", "workload": "status", "req": "Stop"})
		}
		close(stopHB)
	}
	time.Sleep(200 * time.Millisecond)
	close(abort)
	select {
	case <-done:
	case <-time.After(3 * time.Second):
	}
	vEmit(vmap{"ev": "Workload", "workload": "status", "blocks": "-"})
}
