package dastard

// Driver for C01 / C02 / C08 / C09: feeds explicit per-channel sample streams, cut into blocks, to a real
// AnySource (PrepareRun, ChangeTriggerState, ConfigurePulseLengths, ChangeGroupTrigger, ProcessSegments)
// and records blocks, control requests, every published record and the per-cycle primary lists.

import (
	"fmt"
	"os"
	"sort"
	"sync"
	"testing"
	"time"

	"github.com/spf13/viper"
)

type stTrig struct {
	Auto        bool `json:"auto"`
	AutoDelay   int  `json:"autodelay"` // in samples
	AutoVeto    int  `json:"autoveto"`
	Level       bool `json:"level"`
	LevelRising bool `json:"levelrising"`
	LevelLevel  int  `json:"levellevel"`
	Edge        bool `json:"edge"`
	EdgeRising  bool `json:"edgerising"`
	EdgeFalling bool `json:"edgefalling"`
	EdgeLevel   int  `json:"edgelevel"`
	EM          bool `json:"em"`
	EMMode      int  `json:"emmode"`
	EMThr       int  `json:"emthr"`
	EMNmono     int  `json:"emnmono"`
	EMZero      bool `json:"emzero"`
}

type stStep struct {
	K     string `json:"k"` // block | trig | len | conn
	N     int    `json:"n"`
	Chans []int  `json:"chans"`
	T     stTrig `json:"t"`
	Nsamp int    `json:"nsamp"`
	Npre  int    `json:"npre"`
	Op    string `json:"op"` // add | del | stop
	S     int    `json:"s"`
	R     int    `json:"r"`
	Jit   int    `json:"jit"` // block steps: offset (ns) of this block's time stamp from the nominal grid
}

type stScen struct {
	Origin   string   `json:"origin"`
	Nchan    int      `json:"nchan"`
	Npre     int      `json:"npre"`
	Nsamp    int      `json:"nsamp"`
	Signed   bool     `json:"signed"`
	PeriodNs int      `json:"period"`
	RateHz   float64  `json:"ratehz"` // if set: the sample rate; the period is then the rounded 1e9/rate, as every source sets it
	Frame0   int64    `json:"frame0"`
	Start    string   `json:"start"` // fresh | restored
	Trig     []stTrig `json:"trig"`  // per channel; used at start (restored) or by the first trig step
	Steps    []stStep `json:"steps"`
	Data     [][]int  `json:"data"`
	OneBlock bool     `json:"oneblock"` // C08: also run the same stream as a single block (run "A")
}

func (t stTrig) toState(rate float64) TriggerState {
	ts := TriggerState{AutoTrigger: t.Auto, AutoDelay: time.Duration(float64(t.AutoDelay) / rate * 1e9),
		AutoVetoRange: RawType(t.AutoVeto), LevelTrigger: t.Level, LevelRising: t.LevelRising, LevelLevel: RawType(t.LevelLevel),
		EdgeTrigger: t.Edge, EdgeRising: t.EdgeRising, EdgeFalling: t.EdgeFalling, EdgeLevel: int32(t.EdgeLevel), EdgeMulti: t.EM}
	if t.EM {
		ts.EMTState = EMTState{mode: EMTMode(t.EMMode), threshold: int32(t.EMThr), nmonotone: int32(t.EMNmono), enableZeroThreshold: t.EMZero}
	}
	return ts
}

func stPairs(g GroupTriggerState) [][]int {
	out := [][]int{}
	for s, rs := range g.Connections {
		for _, r := range rs {
			out = append(out, []int{s, r})
		}
	}
	sort.Slice(out, func(i, j int) bool {
		if out[i][0] != out[j][0] {
			return out[i][0] < out[j][0]
		}
		return out[i][1] < out[j][1]
	})
	return out
}

// stRunOnce executes the scenario's steps; if oneBlock, all block steps are merged into a single block at the
// position of the first one (control steps other than the initial ones are not allowed in that mode).
func stRunOnce(id int, sc *stScen, run string, oneBlock bool) {
	rate := 1e9 / float64(sc.PeriodNs)
	if sc.RateHz > 0 {
		rate = sc.RateHz
		sc.PeriodNs = roundint(1e9 / rate)
	}
	viper.Set("trigger", nil)
	if sc.Start == "restored" {
		fts := []FullTriggerState{}
		for c, t := range sc.Trig {
			if c < sc.Nchan {
				fts = append(fts, FullTriggerState{ChannelIndices: []int{c}, TriggerState: t.toState(rate)})
			}
		}
		viper.Set("trigger", fts)
	}
	ds := &AnySource{nchan: sc.Nchan, name: "VerifStream"}
	ds.sampleRate = rate
	ds.samplePeriod = time.Duration(sc.PeriodNs)
	ds.PrepareChannels()
	ds.rowColCodes = make([]RowColCode, sc.Nchan)
	if err := ds.PrepareRun(sc.Npre, sc.Nsamp); err != nil {
		panic(err)
	}
	viper.Set("trigger", nil)
	vTakeRecords()
	keep := make([]int, sc.Nchan)
	for c, dsp := range ds.processors {
		keep[c] = dsp.NToKeepOnTrim()
	}
	trig := make([]stTrig, sc.Nchan)
	if sc.Start == "restored" {
		for c := range trig {
			if c < len(sc.Trig) {
				trig[c] = sc.Trig[c]
				trig[c].EM = false // start-up clears the edge-multi switch on purpose (issue #271 in the source)
			}
		}
	}
	vEmit(vmap{"ev": "Config", "scen": id, "run": run, "origin": sc.Origin, "nchan": sc.Nchan, "npre": sc.Npre, "nsamp": sc.Nsamp,
		"signed": sc.Signed, "period": sc.PeriodNs, "start": sc.Start, "trig": trig, "keep": keep, "oneblock": sc.OneBlock})
	pos := 0
	t0 := time.Unix(1700000000, 0)
	crashed := false
	steps := sc.Steps
	if oneBlock {
		total := 0
		var pre []stStep
		for _, st := range steps {
			if st.K == "block" {
				total += st.N
			} else if total == 0 {
				pre = append(pre, st)
			}
		}
		steps = append(pre, stStep{K: "block", N: total})
	}
	for _, st := range steps {
		if crashed {
			break
		}
		func() {
			defer func() {
				if r := recover(); r != nil {
					vEmit(vmap{"ev": "Panic", "where": st.K, "msg": fmt.Sprint(r)})
					crashed = true
				}
			}()
			switch st.K {
			case "trig":
				chans := st.Chans
				if chans == nil {
					chans = make([]int, sc.Nchan)
					for i := range chans {
						chans[i] = i
					}
				}
				err := ds.ChangeTriggerState(&FullTriggerState{ChannelIndices: chans, TriggerState: st.T.toState(rate)})
				vEmit(vmap{"ev": "Trig", "chans": chans, "t": st.T, "ok": err == nil, "at": pos, "keep": ds.processors[chans[0]%sc.Nchan].NToKeepOnTrim()})
			case "len":
				err := ds.ConfigurePulseLengths(st.Nsamp, st.Npre)
				vEmit(vmap{"ev": "Len", "nsamp": st.Nsamp, "npre": st.Npre, "ok": err == nil, "at": pos, "keep": ds.processors[0].NToKeepOnTrim()})
			case "conn":
				var err error
				switch st.Op {
				case "add":
					err = ds.ChangeGroupTrigger(true, &GroupTriggerState{Connections: map[int][]int{st.S: {st.R}}})
				case "del":
					err = ds.ChangeGroupTrigger(false, &GroupTriggerState{Connections: map[int][]int{st.S: {st.R}}})
				case "stop":
					err = ds.StopTriggerCoupling()
				}
				vEmit(vmap{"ev": "Conn", "op": st.Op, "s": st.S, "r": st.R, "ok": err == nil, "rep": stPairs(ds.ComputeGroupTriggerState())})
			case "block":
				n := st.N
				if pos+n > len(sc.Data[0]) {
					n = len(sc.Data[0]) - pos
				}
				if n <= 0 {
					return
				}
				block := new(dataBlock)
				block.segments = make([]DataSegment, sc.Nchan)
				first := FrameIndex(sc.Frame0 + int64(pos))
				d := make([][]int, sc.Nchan)
				for c := 0; c < sc.Nchan; c++ {
					raw := make([]RawType, n)
					for i := range raw {
						raw[i] = RawType(uint16(sc.Data[c][pos+i]))
					}
					d[c] = sc.Data[c][pos : pos+n]
					block.segments[c] = DataSegment{rawData: raw, framesPerSample: 1, framePeriod: ds.samplePeriod, firstFrameIndex: first,
						firstTime: t0.Add(time.Duration(pos)*ds.samplePeriod + time.Duration(st.Jit)), signed: sc.Signed}
				}
				block.nSamp = n
				vEmit(vmap{"ev": "Block", "first": pos, "n": n, "d": d, "ts": pos*sc.PeriodNs + st.Jit})
				pos += n
				nPanicBefore := vPanics()
				if err := ds.ProcessSegments(block); err != nil {
					vEmit(vmap{"ev": "Panic", "where": "ProcessSegments", "msg": err.Error()})
					crashed = true
				}
				for _, batch := range vTakeRecords() {
					for _, r := range batch {
						vEmit(vmap{"ev": "Rec", "c": r.channelIndex, "f": int(int64(r.trigFrame) - sc.Frame0), "npre": r.presamples, "n": len(r.data),
							"s": vInts16(r.data), "t": int(r.trigTime.Sub(t0).Nanoseconds()), "signed": r.signed})
					}
				}
				if vPanics() != nPanicBefore {
					crashed = true
				}
				prim := make([][]int, sc.Nchan)
				kp := make([]int, sc.Nchan)
				for c, dsp := range ds.processors {
					prim[c] = []int{}
					for _, f := range dsp.lastTrigList.frames {
						prim[c] = append(prim[c], int(int64(f)-sc.Frame0))
					}
					kp[c] = len(dsp.stream.rawData)
				}
				vEmit(vmap{"ev": "Cycle", "prim": prim, "kept": kp, "crashed": crashed})
			}
		}()
	}
	vEmit(vmap{"ev": "End", "run": run})
}

var vPanicCount int

func vPanics() int { vOutMu.Lock(); defer vOutMu.Unlock(); return vPanicCount }

func TestVerifStream(t *testing.T) {
	old := VRecover
	VRecover = func(name string, r any) {
		vEmit(vmap{"ev": "Panic", "where": name, "msg": fmt.Sprint(r)})
		vOutMu.Lock()
		vPanicCount++
		vOutMu.Unlock()
	}
	defer func() { VRecover = old }()
	var scens []*stScen
	vLoadScen(&scens)
	for i, sc := range scens {
		if sc.PeriodNs == 0 {
			sc.PeriodNs = 1000
		}
		if sc.OneBlock {
			stRunOnce(i+1, sc, "A", true)
		}
		stRunOnce(i+1, sc, "B", false)
	}
}

// TestVerifEMDrop: edge-multi processing across DATA DROPS (the source numbers the next block later: Lancero and ROACH do
// so after lost data).  Only crash-freedom is looked at here (C08: no stream content or block pattern can crash
// processing); the trace gets one EMDrop line per run, with the panic message if there was one.
func TestVerifEMDrop(t *testing.T) {
	rng := vRng()
	nrun := 150
	if os.Getenv("VERIF_TIER") != "quick" {
		nrun = 4000
	}
	var panics []string
	var pmu sync.Mutex
	VRecover = func(name string, r any) {
		pmu.Lock()
		panics = append(panics, name+": "+fmt.Sprint(r))
		pmu.Unlock()
	}
	for run := 1; run <= nrun; run++ {
		npre := 4 + rng.Intn(8)
		nsamp := npre + 4 + rng.Intn(20)
		mode := []EMTMode{EMTRecordsTwoFullLength, EMTRecordsVariableLength, EMTRecordsFullLengthIsolated}[rng.Intn(3)]
		zero := rng.Intn(2) == 0
		ds := &AnySource{nchan: 1, name: "VerifEMDrop"}
		ds.sampleRate = 10000
		ds.samplePeriod = 100 * time.Microsecond
		ds.PrepareChannels()
		ds.rowColCodes = make([]RowColCode, 1)
		if err := ds.PrepareRun(npre, nsamp); err != nil {
			t.Fatal(err)
		}
		ts := TriggerState{EdgeMulti: true, EMTState: EMTState{mode: mode, threshold: 20, nmonotone: 1, enableZeroThreshold: zero}}
		if err := ds.ChangeTriggerState(&FullTriggerState{ChannelIndices: []int{0}, TriggerState: ts}); err != nil {
			t.Fatal(err)
		}
		vTakeRecords()
		frame := int64(rng.Intn(3)) * (int64(1) << 32)
		frame += int64(100000 + rng.Intn(1000))
		pmu.Lock()
		panics = nil
		pmu.Unlock()
		nblocks := 3 + rng.Intn(4)
		drops := []int{}
		level := 1000
		for b := 0; b < nblocks; b++ {
			L := nsamp + rng.Intn(6*nsamp)
			data := make([]RawType, L)
			// pulses; one of them close to the end of the block, so that an edge is pending when the block ends
			edges := map[int]bool{L - 1 - rng.Intn(nsamp): true, rng.Intn(L): true}
			v := level
			for i := range data {
				if edges[i] {
					v = level + 400
				} else if v > level {
					v -= (v-level)/6 + 1
				}
				data[i] = RawType(v)
			}
			gap := 0
			if b > 0 && rng.Intn(2) == 0 {
				gap = []int{1, 2, 5, 9, 10, 11, nsamp - 1, nsamp, nsamp + 1, nsamp + 9, nsamp + 10, nsamp + 11, 2*nsamp + 10, 2*nsamp + 11, 5000}[rng.Intn(15)]
			}
			frame += int64(gap)
			drops = append(drops, gap)
			flagged := gap
			if run%2 == 0 {
				flagged = 0 // the ROACH source numbers a block later without setting droppedFrames: the numbering is what counts
			}
			block := new(dataBlock)
			block.segments = []DataSegment{{rawData: data, framesPerSample: 1, framePeriod: ds.samplePeriod, firstFrameIndex: FrameIndex(frame),
				firstTime: time.Unix(1700000000, 0).Add(time.Duration(frame) * ds.samplePeriod), droppedFrames: flagged}}
			block.nSamp = L
			func() {
				defer func() {
					if r := recover(); r != nil {
						pmu.Lock()
						panics = append(panics, "ProcessSegments: "+fmt.Sprint(r))
						pmu.Unlock()
					}
				}()
				ds.ProcessSegments(block)
			}()
			frame += int64(L)
			vTakeRecords()
			pmu.Lock()
			np := len(panics)
			pmu.Unlock()
			if np > 0 {
				break
			}
		}
		pmu.Lock()
		msg := ""
		if len(panics) > 0 {
			msg = panics[0]
		}
		pmu.Unlock()
		vEmit(vmap{"ev": "EMDrop", "scen": 700000 + run, "npre": npre, "nsamp": nsamp, "mode": int(mode), "zero": zero, "drops": drops, "panic": msg})
	}
}
