package main

// Separate-process restart for C16: for every directory snapshot taken by the save driver, run the REAL start-up
// code of cmd/dastard (makeFileExist + setupViper) with HOME pointing at the snapshot, then the UnmarshalKey calls
// RunRPCServer / PrepareRun make, and log what was read.  One line per snapshot.

import (
	"crypto/sha1"
	"encoding/json"
	"fmt"
	"os"
	"path/filepath"
	"sort"
	"strconv"
	"testing"

	"github.com/spf13/viper"
	"github.com/usnistgov/dastard"
)

func suPrune(x any) any {
	switch t := x.(type) {
	case map[string]any:
		out := map[string]any{}
		for k, v := range t {
			p := suPrune(v)
			if p != nil {
				out[k] = p
			}
		}
		if len(out) == 0 {
			return nil
		}
		return out
	case []any:
		if len(t) == 0 {
			return nil
		}
		out := make([]any, len(t))
		for i, v := range t {
			out[i] = suPrune(v)
		}
		return out
	default:
		return x
	}
}

func suCanon(v any) string {
	b, err := json.Marshal(v)
	if err != nil {
		return "ERR:" + err.Error()
	}
	var x any
	if err = json.Unmarshal(b, &x); err != nil {
		return "ERR:" + err.Error()
	}
	b, _ = json.Marshal(suPrune(x))
	return string(b)
}

func suRestored() map[string]string {
	out := map[string]string{}
	var spc dastard.SimPulseSourceConfig
	spc.SampleRate = 1000.0
	if err := viper.UnmarshalKey("simpulse", &spc); err == nil {
		out["SIMPULSE"] = suCanon(&spc)
	}
	var tsc dastard.TriangleSourceConfig
	tsc.SampleRate = 1000.0
	if err := viper.UnmarshalKey("triangle", &tsc); err == nil {
		out["TRIANGLE"] = suCanon(&tsc)
	}
	var lsc dastard.LanceroSourceConfig
	if err := viper.UnmarshalKey("lancero", &lsc); err == nil {
		out["LANCERO"] = suCanon(&lsc)
	}
	var asc dastard.AbacoSourceConfig
	asc.AbacoUnwrapOptions.Unwrap = true
	asc.AbacoUnwrapOptions.ResetAfter = 20000
	if err := viper.UnmarshalKey("abaco", &asc); err == nil {
		out["ABACO"] = suCanon(&asc)
	}
	var rsc dastard.RoachSourceConfig
	if err := viper.UnmarshalKey("roach", &rsc); err == nil {
		out["ROACH"] = suCanon(&rsc)
	}
	var st dastard.ServerStatus
	if err := viper.UnmarshalKey("status", &st); err == nil {
		out["STATUS"] = suCanon(map[string]int{"Npresamp": st.Npresamp, "Nsamples": st.Nsamples})
	}
	var ws dastard.WritingState
	if err := viper.UnmarshalKey("writing", &ws); err == nil {
		out["WRITING"] = suCanon(map[string]string{"BasePath": ws.BasePath})
	}
	var fts []dastard.FullTriggerState
	if err := viper.UnmarshalKey("trigger", &fts); err == nil {
		// per channel, as the in-process driver reports it from the processors PrepareRun builds (those are not
		// reachable from package main: here the decoded topic itself is put into the same form)
		per := map[string]dastard.TriggerState{}
		for _, g := range fts {
			st := g.TriggerState
			st.EdgeMulti = false
			for _, ch := range g.ChannelIndices {
				per[strconv.Itoa(ch)] = st
			}
		}
		out["TRIGGER"] = suCanon(per)
	}
	var mapFileName string
	if err := viper.UnmarshalKey("tesmapfile", &mapFileName); err == nil {
		out["TESMAPFILE"] = suCanon(mapFileName)
	}
	return out
}

func TestVerifStartup(t *testing.T) {
	snapdir := os.Getenv("VERIF_SNAPDIR")
	out, err := os.Create(os.Getenv("VERIF_OUT"))
	if err != nil {
		t.Fatal(err)
	}
	defer out.Close()
	enc := json.NewEncoder(out)
	snaps, _ := filepath.Glob(filepath.Join(snapdir, "sc*", "r*"))
	sort.Strings(snaps)
	for _, snap := range snaps {
		os.Setenv("HOME", snap)
		viper.Reset()
		rec := map[string]any{"snap": snap}
		func() {
			defer func() {
				if r := recover(); r != nil {
					rec["kind"] = "panic"
					rec["err"] = fmt.Sprint(r)
				}
			}()
			if err := setupViper(); err != nil {
				rec["kind"] = "bad"
				rec["h"] = ""
				rec["err"] = err.Error()
				return
			}
			m := viper.AllSettings()
			delete(m, "verbose")
			delete(m, "currenttime")
			if len(m) == 0 {
				rec["kind"] = "empty"
				rec["h"] = ""
			} else {
				b, _ := json.Marshal(m)
				rec["kind"] = "conf"
				rec["h"] = fmt.Sprintf("%x", sha1.Sum(b))[:12]
			}
			rec["restored"] = suRestored()
		}()
		enc.Encode(rec)
	}
}
