package main

// Separate-process restart for C16: for every directory snapshot taken by the save driver, run the REAL start-up
// code of cmd/dastard (makeFileExist + setupViper) with HOME pointing at the snapshot, then the UnmarshalKey calls
// RunRPCServer / PrepareRun make, and log what was read.  One line per snapshot.

import (
	"crypto/sha1"
	"encoding/json"
	"fmt"
	"net"
	"net/rpc/jsonrpc"
	"os"
	"os/exec"
	"path/filepath"
	"sort"
	"strconv"
	"testing"
	"time"

	"github.com/pebbe/zmq4"
	"github.com/spf13/viper"
	"github.com/usnistgov/dastard"
)

// ---- the complete real start-up, one process per snapshot -----------------------------------------------------------
// TestVerifStartupChild is what `dastard` does at start-up: setupViper, RunClientUpdater, RunRPCServer (which restores
// the source configurations, record lengths and output path from the saved file and tells the clients).  A SUB socket
// and one SendAllStatus request collect what clients are told; that is "what start-up restored", as a client sees it.
// RunRPCServer can run only once per process (it registers HTTP handlers), hence the child processes.

func suFreePort() int {
	l, err := net.Listen("tcp", ":0")
	if err != nil {
		panic(err)
	}
	defer l.Close()
	return l.Addr().(*net.TCPAddr).Port
}

func TestVerifStartupChild(t *testing.T) {
	snap := os.Getenv("VERIF_CHILD_SNAP")
	if snap == "" {
		return
	}
	rec := map[string]any{"snap": snap, "panic": "", "restored": map[string]string{}}
	defer func() {
		b, _ := json.Marshal(rec) // into a file: the server's terminal heart-beat goroutine writes to stdout all the time
		os.WriteFile(os.Getenv("VERIF_CHILD_OUT"), b, 0664)
	}()
	os.Setenv("HOME", snap)
	viper.Reset()
	if err := setupViper(); err != nil {
		rec["panic"] = "setupViper: " + err.Error()
		return
	}
	statusPort, rpcPort := suFreePort(), suFreePort()
	sub, err := zmq4.NewSocket(zmq4.SUB)
	if err != nil {
		rec["panic"] = err.Error()
		return
	}
	defer sub.Close()
	sub.SetSubscribe("")
	sub.Connect(fmt.Sprintf("tcp://localhost:%d", statusPort))
	abort := make(chan struct{})
	go dastard.RunClientUpdater(statusPort, abort)
	func() {
		defer func() {
			if r := recover(); r != nil {
				rec["panic"] = fmt.Sprint(r)
			}
		}()
		dastard.RunRPCServer(rpcPort, false)
	}()
	if rec["panic"] != "" {
		return
	}
	last := map[string]string{}
	collect := func(d time.Duration) {
		end := time.Now().Add(d)
		for time.Now().Before(end) {
			if p, err := sub.RecvMessage(zmq4.DONTWAIT); err == nil && len(p) >= 2 {
				last[p[0]] = p[1]
			} else {
				time.Sleep(2 * time.Millisecond)
			}
		}
	}
	collect(900 * time.Millisecond)
	if conn, err := net.DialTimeout("tcp", fmt.Sprintf("localhost:%d", rpcPort), 2*time.Second); err == nil {
		client := jsonrpc.NewClient(conn)
		dummy, ok := "", false
		client.Call("SourceControl.SendAllStatus", &dummy, &ok)
		client.Close()
	}
	collect(700 * time.Millisecond)
	restored := map[string]string{}
	for _, topic := range []string{"TRIANGLE", "SIMPULSE", "STATUS", "WRITING"} {
		body, ok := last[topic]
		if !ok {
			continue
		}
		var x any
		if json.Unmarshal([]byte(body), &x) != nil {
			continue
		}
		m, _ := x.(map[string]any)
		switch topic {
		case "STATUS":
			x = map[string]any{"Npresamp": m["Npresamp"], "Nsamples": m["Nsamples"]}
		case "WRITING":
			x = map[string]any{"BasePath": m["BasePath"]}
		}
		b, _ := json.Marshal(suPrune(x))
		restored[topic] = string(b)
	}
	rec["restored"] = restored
	topics := []string{}
	for k := range last {
		topics = append(topics, k)
	}
	sort.Strings(topics)
	rec["topics"] = topics
}

// suRunChildren runs the complete start-up on up to n of the snapshots, each in a process of its own.
func suRunChildren(snaps []string, n int) map[string]map[string]any {
	out := map[string]map[string]any{}
	if n <= 0 || len(snaps) == 0 {
		return out
	}
	// snapshots the save driver marked (taken after an undisturbed save of several topics) first, evenly spread
	marked := []string{}
	for _, s := range snaps {
		if _, err := os.Stat(filepath.Join(s, "FULLSTART")); err == nil {
			marked = append(marked, s)
		}
	}
	if len(marked) == 0 {
		marked = snaps
	}
	step := len(marked) / n
	if step < 1 {
		step = 1
	}
	for i := len(marked) - 1; i >= 0 && len(out) < n; i -= step {
		snap := marked[i]
		tmp, err := os.MkdirTemp("", "verif_child")
		if err != nil {
			continue
		}
		exec.Command("cp", "-r", filepath.Join(snap, ".dastard"), tmp).Run()
		cmd := exec.Command(os.Args[0], "-test.run", "TestVerifStartupChild$")
		cmd.Env = append(os.Environ(), "VERIF_CHILD_SNAP="+tmp, "HOME="+tmp, "VERIF_CHILD_OUT="+filepath.Join(tmp, "child.json"))
		done := make(chan []byte, 1)
		go func() { b, _ := cmd.CombinedOutput(); done <- b }()
		var outb []byte
		select {
		case outb = <-done:
		case <-time.After(15 * time.Second):
			if cmd.Process != nil {
				cmd.Process.Kill()
			}
			outb = <-done
		}
		found := false
		if b, err := os.ReadFile(filepath.Join(tmp, "child.json")); err == nil {
			var r map[string]any
			if json.Unmarshal(b, &r) == nil {
				out[snap] = r
				found = true
			}
		}
		if !found {
			tail := string(outb)
			if len(tail) > 600 {
				tail = tail[len(tail)-600:]
			}
			out[snap] = map[string]any{"panic": "child gave no result: " + tail, "restored": map[string]any{}}
		}
		os.RemoveAll(tmp)
	}
	return out
}

func suPrune(x any) any {
	switch t := x.(type) {
	case map[string]any:
		out := map[string]any{}
		for k, v := range t {
			p := suPrune(v)
			if p != nil {
				out[k] = p
			}
		}
		if len(out) == 0 {
			return nil
		}
		return out
	case []any:
		if len(t) == 0 {
			return nil
		}
		out := make([]any, len(t))
		for i, v := range t {
			out[i] = suPrune(v)
		}
		return out
	default:
		return x
	}
}

func suCanon(v any) string {
	b, err := json.Marshal(v)
	if err != nil {
		return "ERR:" + err.Error()
	}
	var x any
	if err = json.Unmarshal(b, &x); err != nil {
		return "ERR:" + err.Error()
	}
	b, _ = json.Marshal(suPrune(x))
	return string(b)
}

func suRestored() map[string]string {
	out := map[string]string{}
	var spc dastard.SimPulseSourceConfig
	spc.SampleRate = 1000.0
	if err := viper.UnmarshalKey("simpulse", &spc); err == nil {
		out["SIMPULSE"] = suCanon(&spc)
	}
	var tsc dastard.TriangleSourceConfig
	tsc.SampleRate = 1000.0
	if err := viper.UnmarshalKey("triangle", &tsc); err == nil {
		out["TRIANGLE"] = suCanon(&tsc)
	}
	var lsc dastard.LanceroSourceConfig
	if err := viper.UnmarshalKey("lancero", &lsc); err == nil {
		out["LANCERO"] = suCanon(&lsc)
	}
	var asc dastard.AbacoSourceConfig
	asc.AbacoUnwrapOptions.Unwrap = true
	asc.AbacoUnwrapOptions.ResetAfter = 20000
	if err := viper.UnmarshalKey("abaco", &asc); err == nil {
		out["ABACO"] = suCanon(&asc)
	}
	var rsc dastard.RoachSourceConfig
	if err := viper.UnmarshalKey("roach", &rsc); err == nil {
		out["ROACH"] = suCanon(&rsc)
	}
	var st dastard.ServerStatus
	if err := viper.UnmarshalKey("status", &st); err == nil {
		out["STATUS"] = suCanon(map[string]int{"Npresamp": st.Npresamp, "Nsamples": st.Nsamples})
	}
	var ws dastard.WritingState
	if err := viper.UnmarshalKey("writing", &ws); err == nil {
		out["WRITING"] = suCanon(map[string]string{"BasePath": ws.BasePath})
	}
	var fts []dastard.FullTriggerState
	if err := viper.UnmarshalKey("trigger", &fts); err == nil {
		// per channel, as the in-process driver reports it from the processors PrepareRun builds (those are not
		// reachable from package main: here the decoded topic itself is put into the same form)
		per := map[string]dastard.TriggerState{}
		for _, g := range fts {
			st := g.TriggerState
			st.EdgeMulti = false
			for _, ch := range g.ChannelIndices {
				per[strconv.Itoa(ch)] = st
			}
		}
		out["TRIGGER"] = suCanon(per)
	}
	var mapFileName string
	if err := viper.UnmarshalKey("tesmapfile", &mapFileName); err == nil {
		out["TESMAPFILE"] = suCanon(mapFileName)
	}
	return out
}

func TestVerifStartup(t *testing.T) {
	snapdir := os.Getenv("VERIF_SNAPDIR")
	out, err := os.Create(os.Getenv("VERIF_OUT"))
	if err != nil {
		t.Fatal(err)
	}
	defer out.Close()
	enc := json.NewEncoder(out)
	snaps, _ := filepath.Glob(filepath.Join(snapdir, "sc*", "r*"))
	sort.Strings(snaps)
	nreal, _ := strconv.Atoi(os.Getenv("VERIF_NREAL"))
	children := suRunChildren(snaps, nreal)
	for _, snap := range snaps {
		os.Setenv("HOME", snap)
		viper.Reset()
		rec := map[string]any{"snap": snap}
		func() {
			defer func() {
				if r := recover(); r != nil {
					rec["kind"] = "panic"
					rec["err"] = fmt.Sprint(r)
				}
			}()
			if err := setupViper(); err != nil {
				rec["kind"] = "bad"
				rec["h"] = ""
				rec["err"] = err.Error()
				return
			}
			m := viper.AllSettings()
			delete(m, "verbose")
			delete(m, "currenttime")
			if len(m) == 0 {
				rec["kind"] = "empty"
				rec["h"] = ""
			} else {
				b, _ := json.Marshal(m)
				rec["kind"] = "conf"
				rec["h"] = fmt.Sprintf("%x", sha1.Sum(b))[:12]
			}
			rec["restored"] = suRestored()
		}()
		// where the complete start-up ran on this snapshot, what IT told the clients replaces the replicated reads
		if ch, ok := children[snap]; ok {
			rec["fullstart"] = true
			rec["fullpanic"] = ch["panic"]
			if rm, ok := rec["restored"].(map[string]string); ok && ch["panic"] == "" {
				if cr, ok := ch["restored"].(map[string]any); ok {
					for k, v := range cr {
						rm[k] = fmt.Sprint(v)
					}
				}
			}
		}
		enc.Encode(rec)
	}
}
