package off

// C07 driver for the real OFF writer on a stalled "disk" (named pipe).

import (
	"bytes"
	"encoding/binary"
	"encoding/json"
	"math"
	"testing"

	"gonum.org/v1/gonum/mat"
)

func c07decodeOff(nb, nsamp int) func(b []byte, final bool) map[string]any {
	return func(b []byte, final bool) map[string]any {
		recs := []int{}
		garbled := 0
		dec := json.NewDecoder(bytes.NewReader(b))
		var h map[string]any
		if err := dec.Decode(&h); err != nil {
			return map[string]any{"recs": recs, "trailing": len(b), "garbled": 0, "header": false}
		}
		off := int(dec.InputOffset())
		skip := off + 1 + 8*nb*nsamp*2
		if len(b) < skip {
			return map[string]any{"recs": recs, "trailing": len(b), "garbled": 0, "header": false}
		}
		body := b[skip:]
		rl := 36 + 4*nb
		for len(body) >= rl {
			id := int(int64(binary.LittleEndian.Uint64(body[8:16])))
			ok := int(int32(binary.LittleEndian.Uint32(body[:4]))) == nsamp && int(int32(binary.LittleEndian.Uint32(body[4:8]))) == 3 &&
				int64(binary.LittleEndian.Uint64(body[16:24])) == int64(id)*1000
			for k := 0; k < 3+nb && ok; k++ {
				if math.Float32frombits(binary.LittleEndian.Uint32(body[24+4*k:])) != float32(id+k) {
					ok = false
				}
			}
			if !ok {
				garbled++
			}
			recs = append(recs, id)
			body = body[rl:]
		}
		return map[string]any{"recs": recs, "trailing": len(body), "garbled": garbled, "header": true}
	}
}

func TestVerifC07(t *testing.T) {
	rng, n, done := c07setup()
	defer done()
	for s := 0; s < n; s++ {
		nb := []int{1, 1, 2, 3, 6, 1 + rng.Intn(40)}[rng.Intn(6)] // small models too: record size and buffer sizes interact
		if s < 4 {
			nb = []int{1, 2, 3, 6}[s]
		}
		nsamp := 8
		f := c07NewFifo("x_chan1.off")
		p := mat.NewDense(nb, nsamp, nil)
		bs := mat.NewDense(nsamp, nb, nil)
		w := NewWriter(f.path, 0, "chan1", 1, 3, nsamp, 1e-5, p, bs, "m", "v", "g", "s", TimeDivisionMultiplexingInfo{}, PixelInfo{})
		if err := w.CreateFile(); err != nil {
			t.Fatal(err)
		}
		if err := w.WriteHeader(); err != nil {
			t.Fatal(err)
		}
		c07emit(map[string]any{"ev": "Open", "scen": s + 1, "kind": "off", "nsamp": nb})
		c07schedule(rng, f, 3+rng.Intn(6), 2500, func(id int) error {
			data := make([]float32, nb)
			for k := range data {
				data[k] = float32(id + 3 + k)
			}
			return w.WriteRecord(int32(nsamp), 3, int64(id), int64(id)*1000, float32(id), float32(id+1), float32(id+2), data)
		}, w.Flush, w.Close, c07decodeOff(nb, nsamp))
		f.cleanup()
	}
}
