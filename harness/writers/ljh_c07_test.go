package ljh

// C07 driver for the real LJH2.2 and LJH3 writers on a stalled "disk" (named pipe).

import (
	"bytes"
	"encoding/binary"
	"encoding/json"
	"testing"
	"time"
)

func c07decode22(nsamp int) func(b []byte, final bool) map[string]any {
	return func(b []byte, final bool) map[string]any {
		recs := []int{}
		garbled := 0
		tag := []byte("#End of Header\n")
		i := bytes.Index(b, tag)
		if i < 0 {
			return map[string]any{"recs": recs, "trailing": len(b), "garbled": 0, "header": false}
		}
		body := b[i+len(tag):]
		rl := 16 + 2*nsamp
		for len(body) >= rl {
			id := int(int64(binary.LittleEndian.Uint64(body[:8])))
			ok := int64(binary.LittleEndian.Uint64(body[8:16])) == int64(id)*1000
			for k := 0; k < nsamp && ok; k++ {
				if binary.LittleEndian.Uint16(body[16+2*k:]) != uint16(id+k) {
					ok = false
				}
			}
			if !ok {
				garbled++
			}
			recs = append(recs, id)
			body = body[rl:]
		}
		return map[string]any{"recs": recs, "trailing": len(body), "garbled": garbled, "header": true}
	}
}

func c07decode3(b []byte, final bool) map[string]any {
	recs := []int{}
	garbled := 0
	dec := json.NewDecoder(bytes.NewReader(b))
	var h map[string]any
	if err := dec.Decode(&h); err != nil {
		return map[string]any{"recs": recs, "trailing": len(b), "garbled": 0, "header": false}
	}
	off := int(dec.InputOffset())
	if off >= len(b) || b[off] != '\n' {
		return map[string]any{"recs": recs, "trailing": len(b), "garbled": 0, "header": false}
	}
	body := b[off+1:]
	for len(body) >= 24 {
		n := int(int32(binary.LittleEndian.Uint32(body[:4])))
		if n < 0 || n > 100000 || len(body) < 24+2*n {
			break
		}
		id := int(int64(binary.LittleEndian.Uint64(body[8:16])))
		ok := int64(binary.LittleEndian.Uint64(body[16:24])) == int64(id)*1000 && int(int32(binary.LittleEndian.Uint32(body[4:8]))) == 7
		ok = ok && n == 20+id%30
		for k := 0; k < n && ok; k++ {
			if binary.LittleEndian.Uint16(body[24+2*k:]) != uint16(id+k) {
				ok = false
			}
		}
		if !ok {
			garbled++
		}
		recs = append(recs, id)
		body = body[24+2*n:]
	}
	return map[string]any{"recs": recs, "trailing": len(body), "garbled": garbled, "header": true}
}

func TestVerifC07(t *testing.T) {
	rng, n, done := c07setup()
	defer done()
	for s := 0; s < n; s++ {
		if s%2 == 0 {
			nsamp := []int{40, 200, 500, 1000}[rng.Intn(4)]
			f := c07NewFifo("x_chan1.ljh")
			w := Writer{Samples: nsamp, Presamples: 5, FileName: f.path, SubframeDivisions: 1, Timebase: 1e-5, NumberOfRows: 1, NumberOfColumns: 1, NumberOfChans: 1}
			if err := w.CreateFile(); err != nil {
				t.Fatal(err)
			}
			w.WriteHeader(time.Now())
			c07emit(map[string]any{"ev": "Open", "scen": s + 1, "kind": "ljh22", "nsamp": nsamp})
			c07schedule(rng, f, 3+rng.Intn(6), 1500, func(id int) error {
				data := make([]uint16, nsamp)
				for k := range data {
					data[k] = uint16(id + k)
				}
				return w.WriteRecord(int64(id), int64(id)*1000, data)
			}, w.Flush, w.Close, c07decode22(nsamp))
			f.cleanup()
		} else {
			f := c07NewFifo("x_chan1.ljh3")
			w := Writer3{FileName: f.path, Timebase: 1e-5, NumberOfRows: 1, NumberOfColumns: 1}
			if err := w.CreateFile(); err != nil {
				t.Fatal(err)
			}
			w.WriteHeader()
			c07emit(map[string]any{"ev": "Open", "scen": s + 1, "kind": "ljh3", "nsamp": 0})
			c07schedule(rng, f, 3+rng.Intn(6), 1500, func(id int) error {
				data := make([]uint16, 20+id%30)
				for k := range data {
					data[k] = uint16(id + k)
				}
				return w.WriteRecord(7, int64(id), int64(id)*1000, data)
			}, w.Flush, w.Close, c07decode3)
			f.cleanup()
		}
	}
}
