package packets

// Driver for C15: (1) decodes byte strings built from the abstract cases of Packet.tla (TLV grammar x header variants x
// payload variants) and byte-level mutations of them, calls every accessor under recover and logs what happened;
// (2) builds packets through the public constructors, encodes them and decodes the bytes again.
// Nothing is judged here; PacketTrace.tla judges.

import (
	"io"
	"bytes"
	"encoding/binary"
	"encoding/json"
	"fmt"
	"math/rand"
	"os"
	"strconv"
	"strings"
	"sync"
	"testing"
	"time"
)

// Watchdog: a call of the code that does not return is an observation like any other.  The driver notes which call of
// which case is running; a second goroutine writes a Hang event and ends the process when that does not change for 10 s.
// The runner then starts the driver again with the case in VERIF_SKIPIDS.
var c15cur struct {
	mu    sync.Mutex
	id    int
	kind  string
	call  string
	hex   string
	since time.Time
}

func c15note(id int, kind, call string, b []byte) {
	c15cur.mu.Lock()
	c15cur.id, c15cur.kind, c15cur.call, c15cur.since = id, kind, call, time.Now()
	if b != nil {
		c15cur.hex = fmt.Sprintf("%x", b)
	}
	c15cur.mu.Unlock()
}

func c15watch(fp *os.File, encMu *sync.Mutex) {
	for {
		time.Sleep(500 * time.Millisecond)
		c15cur.mu.Lock()
		id, kind, call, hex, since := c15cur.id, c15cur.kind, c15cur.call, c15cur.hex, c15cur.since
		c15cur.mu.Unlock()
		if id != 0 && time.Since(since) > 10*time.Second {
			encMu.Lock()
			json.NewEncoder(fp).Encode(map[string]any{"ev": "Hang", "scen": id, "kind": kind, "call": call, "hex": hex})
			fp.Sync()
			os.Exit(7)
		}
	}
}

func c15skip() map[int]bool {
	out := map[int]bool{}
	for _, f := range strings.Split(os.Getenv("VERIF_SKIPIDS"), ",") {
		if n, err := strconv.Atoi(f); err == nil {
			out[n] = true
		}
	}
	return out
}

type c15case struct {
	Tlvs    []string `json:"tlvs"`
	Hdr     string   `json:"hdr"`
	Payload string   `json:"payload"`
}

func c15tlv(name string, left int) []byte {
	b := make([]byte, 8)
	switch name {
	case "fmt_h":
		copy(b, []byte{tlvFORMAT, 1, '<', 'h', 0, 0, 0, 0})
	case "fmt_i":
		copy(b, []byte{tlvFORMAT, 1, '<', 'i', 0, 0, 0, 0})
	case "fmt_q":
		copy(b, []byte{tlvFORMAT, 1, '<', 'q', 0, 0, 0, 0})
	case "fmt_H_be":
		copy(b, []byte{tlvFORMAT, 1, '>', 'H', 0, 0, 0, 0})
	case "fmt_hh":
		copy(b, []byte{tlvFORMAT, 1, '<', 'h', 'h', 0, 0, 0})
	case "fmt_empty":
		copy(b, []byte{tlvFORMAT, 1, '<', 0, 0, 0, 0, 0})
	case "fmt_bad":
		copy(b, []byte{tlvFORMAT, 1, '<', 'Z', 0, 0, 0, 0})
	case "shape1":
		copy(b, []byte{tlvSHAPE, 1, 0, 3, 0, 0, 0, 0})
	case "shape2":
		copy(b, []byte{tlvSHAPE, 1, 0, 2, 0, 2, 0, 0})
	case "shape0":
		copy(b, []byte{tlvSHAPE, 1, 0, 0, 0, 0, 0, 0})
	case "chanoff":
		copy(b, []byte{tlvCHANOFFSET, 1, 0, 0, 0, 0, 0, 8})
	case "chanoff_pad":
		copy(b, []byte{tlvCHANOFFSET, 1, 0, 1, 0, 0, 0, 8})
	case "ts":
		copy(b, []byte{tlvTIMESTAMP, 1, 0, 1, 0, 0, 0, 9})
	case "tsunit":
		b = make([]byte, 16)
		copy(b, []byte{tlvTIMESTAMPUNIT, 2, 64, 0xf5, 0, 10, 0, 1, 0, 0, 0, 0, 0, 0, 1, 0})
	case "counter":
		copy(b, []byte{tlvCOUNTER, 1, 0, 1, 0, 0, 0, 5})
	case "tag":
		copy(b, []byte{tlvTAG, 1, 0, 0, 0, 0, 0, 7})
	case "label":
		copy(b, []byte{tlvPAYLOADLABEL, 1, 'a', ',', 'b', 0, 0, 0})
	case "label_ext":
		b = make([]byte, 16)
		copy(b, append([]byte{tlvPAYLOADLABEL, 2}, []byte("value,active,t")...))
	case "unknown":
		copy(b, []byte{0x77, 1, 1, 2, 3, 4, 5, 6})
	case "len0":
		copy(b, []byte{tlvTAG, 0, 0, 0, 0, 0, 0, 7})
	case "toolong":
		copy(b, []byte{tlvTAG, 9, 0, 0, 0, 0, 0, 7})
	}
	return b
}

// c15bytes builds the datagram of an abstract case; returns bytes, declared header length, declared payload length.
func c15bytes(c c15case) ([]byte, int, int) {
	var tl []byte
	wordlen, nchan := 2, 1
	for _, t := range c.Tlvs {
		tl = append(tl, c15tlv(t, 0)...)
		switch t {
		case "fmt_i":
			wordlen = 4
		case "fmt_q":
			wordlen = 8
		case "fmt_hh":
			wordlen = 4
		case "shape1":
			nchan = 3
		case "shape2":
			nchan = 4
		}
	}
	hdrlen := 16 + len(tl)
	switch c.Hdr {
	case "short":
		hdrlen = 8
	case "hdrlen_minus8":
		hdrlen -= 8
	case "hdrlen_plus8":
		hdrlen += 8
	}
	frames := 2
	plen := frames * nchan * wordlen
	present := plen
	switch c.Payload {
	case "zero":
		plen, present = 0, 0
	case "odd":
		plen, present = plen+1, plen+1
	case "truncated":
		present = plen / 2
	case "extra":
		present = plen + 24
	}
	h := make([]byte, 16)
	h[0] = 0x10
	h[1] = byte(hdrlen)
	binary.BigEndian.PutUint16(h[2:], uint16(plen))
	magic := packetMAGIC
	if c.Hdr == "badmagic" {
		magic ^= 0x100
	}
	binary.BigEndian.PutUint32(h[4:], magic)
	binary.BigEndian.PutUint32(h[8:], 0x01020304)
	binary.BigEndian.PutUint32(h[12:], 77)
	out := append(h, tl...)
	for i := 0; i < present; i++ {
		out = append(out, byte(i*7+1))
	}
	return out, hdrlen, plen
}

type c15res map[string]any

func c15call(res c15res, name string, f func() any) {
	c15cur.mu.Lock()
	c15cur.call, c15cur.since = name, time.Now()
	c15cur.mu.Unlock()
	defer func() {
		if r := recover(); r != nil {
			res["panics"] = append(res["panics"].([]string), name+": "+fmt.Sprint(r))
		}
	}()
	res[name] = f()
}

// c15decode decodes b and exercises every accessor.
func c15decode(b []byte) c15res {
	res := c15res{"panics": []string{}, "nbytes": len(b)}
	c15cur.mu.Lock()
	c15cur.call, c15cur.since = "ReadPacket", time.Now()
	c15cur.mu.Unlock()
	rd := bytes.NewReader(b)
	var p *Packet
	var err error
	func() {
		defer func() {
			if r := recover(); r != nil {
				res["panics"] = append(res["panics"].([]string), "ReadPacket: "+fmt.Sprint(r))
			}
		}()
		p, err = ReadPacket(rd)
	}()
	res["consumed"] = len(b) - rd.Len()
	res["err"] = ""
	if err != nil {
		res["err"] = err.Error()
	}
	res["ok"] = err == nil && p != nil && len(res["panics"].([]string)) == 0
	if res["ok"].(bool) {
		res["hdrlen"], res["plen"] = int(p.headerLength), int(p.payloadLength)
		c15call(res, "frames", func() any { return p.Frames() })
		c15call(res, "chaninfo", func() any { n, o := p.ChannelInfo(); return []int{n, o} })
		c15call(res, "length", func() any { return p.Length() })
		c15call(res, "ts", func() any { return p.Timestamp() != nil })
		c15call(res, "isext", func() any { return p.IsExternalTrigger() })
		c15call(res, "seq", func() any { return int(p.SequenceNumber()) })
		c15call(res, "readvalue", func() any { return []int{p.ReadValue(0), p.ReadValue(-1), p.ReadValue(1 << 20)} })
		c15call(res, "string", func() any { return len(p.String()) > 0 })
		c15call(res, "pretend", func() any {
			n := 1
			if p.shape != nil {
				n, _ = p.ChannelInfo()
			}
			q := p.MakePretendPacket(99, n)
			return int(q.SequenceNumber())
		})
		c15call(res, "rebytes", func() any { return len(p.Bytes()) })
		nd := -1
		wl := 0
		switch d := p.Data.(type) {
		case []int16:
			nd, wl = len(d), 2
		case []int32:
			nd, wl = len(d), 4
		case []int64:
			nd, wl = len(d), 8
		case []byte:
			nd, wl = len(d), 1
		}
		res["ndata"], res["dataword"] = nd, wl
		res["hasshape"], res["hasformat"] = p.shape != nil, p.format != nil
	}
	return res
}

type c15ctor struct {
	Kind int      `json:"kind"` // 16 | 32 | 64
	Dims []int    `json:"dims"`
	N    int      `json:"n"` // values
	Off  int      `json:"off"`
	Seq  uint32   `json:"seq"`
	Src  uint32   `json:"src"`
	Ver  int      `json:"ver"`
	Ops  []string `json:"ops"` // after NewData: settime | resettime | cleardata | newdata
	TS   uint64   `json:"ts"`
	Rate float64  `json:"rate"` // timestamp rate handed to SetTimestamp
}

func c15roundtrip(c c15ctor, rng *rand.Rand) (res c15res) {
	res = c15res{"panics": []string{}, "decode_err": "", "rt": map[string]bool{}}
	defer func() {
		if r := recover(); r != nil {
			res["panics"] = append(res["panics"].([]string), "ctor: "+fmt.Sprint(r))
		}
	}()
	p := NewPacket(uint8(c.Ver), c.Src, c.Seq, c.Off)
	dims := make([]int16, len(c.Dims))
	for i, d := range c.Dims {
		dims[i] = int16(d)
	}
	vals := make([]int, c.N)
	for i := range vals {
		vals[i] = rng.Intn(65536) - 32768
	}
	mk := func() error {
		switch c.Kind {
		case 32:
			d := make([]int32, c.N)
			for i := range d {
				d[i] = int32(vals[i]) * 65537
			}
			return p.NewData(d, dims)
		case 64:
			d := make([]int64, c.N)
			for i := range d {
				d[i] = int64(vals[i]) * 4294967297
			}
			return p.NewData(d, dims)
		default:
			d := make([]int16, c.N)
			for i := range d {
				d[i] = int16(vals[i])
			}
			return p.NewData(d, dims)
		}
	}
	err := mk()
	res["newdata_err"] = err != nil
	hasTS, hasData := false, err == nil
	for _, op := range c.Ops {
		switch op {
		case "settime":
			p.SetTimestamp(&PacketTimestamp{T: c.TS, Rate: c.Rate})
			hasTS = true
		case "resettime":
			p.ResetTimestamp()
			hasTS = false
		case "cleardata":
			p.ClearData()
			hasData = false
		case "newdata":
			hasData = mk() == nil
		}
	}
	b := p.Bytes()
	res["declared_len"] = p.Length()
	res["nbytes"] = len(b)
	q, err := ReadPacket(bytes.NewReader(b))
	res["decode_err"] = ""
	if err != nil {
		res["decode_err"] = err.Error()
		return res
	}
	same := true
	switch a := p.Data.(type) {
	case []int16:
		bb, ok := q.Data.([]int16)
		same = ok && len(a) == len(bb)
		for i := range a {
			same = same && a[i] == bb[i]
		}
	case []int32:
		bb, ok := q.Data.([]int32)
		same = ok && len(a) == len(bb)
		for i := range a {
			same = same && a[i] == bb[i]
		}
	case []int64:
		bb, ok := q.Data.([]int64)
		same = ok && len(a) == len(bb)
		for i := range a {
			same = same && a[i] == bb[i]
		}
	default:
		same = q.Data == nil
	}
	shapeSame := (p.shape == nil) == (q.shape == nil)
	if p.shape != nil && q.shape != nil {
		// zero sizes are padding on the wire
		var pa, qa []int16
		for _, s := range p.shape.Sizes {
			if s > 0 {
				pa = append(pa, s)
			}
		}
		for _, s := range q.shape.Sizes {
			if s > 0 {
				qa = append(qa, s)
			}
		}
		shapeSame = len(pa) == len(qa)
		for i := range pa {
			shapeSame = shapeSame && i < len(qa) && pa[i] == qa[i]
		}
	}
	tsSame := (p.timestamp == nil) == (q.timestamp == nil)
	if p.timestamp != nil && q.timestamp != nil {
		tsSame = p.timestamp.T == q.timestamp.T
	}
	rt := map[string]bool{"version": p.version == q.version, "source": p.sourceID == q.sourceID, "seq": p.sequenceNumber == q.sequenceNumber,
		"offset": p.offset == q.offset, "shape": shapeSame, "payload": same, "timestamp": tsSame, "length": len(b) == p.Length()}
	// the encoding is a value: bytes handed out must not change when the same packet (or a filler copied from it) is
	// encoded again later (a sender holds a datagram while the generator builds the next one)
	held := append([]byte{}, b...)
	func() {
		defer func() { recover() }()
		nch := 1
		if p.shape != nil {
			nch, _ = p.ChannelInfo()
		}
		if f := p.MakePretendPacket(p.sequenceNumber+7, nch); f != nil {
			_ = f.Bytes()
		}
		p.SetTimestamp(&PacketTimestamp{T: c.TS + 12345, Rate: 1e8})
		_ = p.Bytes()
	}()
	heldSame := bytes.Equal(held, b)
	rt["held"] = heldSame
	res["rt"] = rt
	res["hasts"], res["hasdata"] = hasTS, hasData
	return res
}

func TestVerifC15(t *testing.T) {
	fp, err := os.Create(os.Getenv("VERIF_OUT"))
	if err != nil {
		t.Fatal(err)
	}
	defer fp.Close()
	enc := json.NewEncoder(fp)
	var encMu sync.Mutex
	go c15watch(fp, &encMu)
	skip := c15skip()
	seed, _ := strconv.ParseInt(os.Getenv("VERIF_SEED"), 10, 64)
	nmut, _ := strconv.Atoi(os.Getenv("VERIF_NRANDOM"))
	rng := rand.New(rand.NewSource(seed))
	var cases []c15case
	if p := os.Getenv("VERIF_SCEN"); p != "" {
		b, _ := os.ReadFile(p)
		if err := json.Unmarshal(b, &cases); err != nil {
			t.Fatal(err)
		}
	}
	id := 0
	var good [][]byte
	for _, c := range cases {
		id++
		b, hl, pl := c15bytes(c)
		if skip[id] {
			continue
		}
		c15note(id, "grammar", "ReadPacket", b)
		r := c15decode(b)
		r["ev"], r["scen"], r["kind"] = "Decode", id, "grammar"
		r["case"] = c
		r["declhdr"], r["declpay"] = hl, pl
		encMu.Lock()
		enc.Encode(r)
		encMu.Unlock()
		if r["ok"].(bool) && len(good) < 400 {
			good = append(good, b)
		}
	}
	// byte-level mutations of decodable packets (and of constructor-made ones)
	for i := 0; i < nmut && len(good) > 0; i++ {
		id++
		src := good[rng.Intn(len(good))]
		b := append([]byte{}, src...)
		for k := 1 + rng.Intn(3); k > 0; k-- {
			switch rng.Intn(4) {
			case 0:
				if len(b) > 0 {
					b[rng.Intn(len(b))] = byte(rng.Intn(256))
				}
			case 1:
				if len(b) > 0 {
					b[rng.Intn(len(b))] ^= 1 << uint(rng.Intn(8))
				}
			case 2:
				b = b[:rng.Intn(len(b)+1)]
			default:
				j := rng.Intn(len(b) + 1)
				b = append(append(append([]byte{}, b[:j]...), byte(rng.Intn(256)), byte(rng.Intn(4))), b[j:]...)
			}
			if len(b) == 0 {
				b = []byte{0}
			}
		}
		if skip[id] {
			continue
		}
		c15note(id, "mutation", "ReadPacket", b)
		r := c15decode(b)
		r["ev"], r["scen"], r["kind"] = "Decode", id, "mutation"
		hl, pl := 0, 0
		if len(b) >= 4 {
			hl, pl = int(b[1]), int(binary.BigEndian.Uint16(b[2:]))
		}
		r["declhdr"], r["declpay"] = hl, pl
		r["case"] = c15case{Tlvs: []string{}, Hdr: "mutated", Payload: "mutated"}
		encMu.Lock()
		enc.Encode(r)
		encMu.Unlock()
	}
	// constructor histories
	kinds := []int{16, 32, 64}
	dimsets := [][]int{{1}, {3}, {2, 2}, {2, 3, 1}, {1, 2, 2, 2}} // at least one dimension: a packet without any has no channel count
	opsets := [][]string{{}, {"settime"}, {"settime", "resettime"}, {"cleardata"}, {"settime", "cleardata", "newdata"}, {"cleardata", "settime"}, {"newdata", "settime", "settime"}}
	for _, k := range kinds {
		for _, ds := range dimsets {
			for _, ops := range opsets {
				id++
				nch := 1
				for _, d := range ds {
					nch *= d
				}
				c := c15ctor{Kind: k, Dims: ds, N: nch * (1 + rng.Intn(4)), Off: []int{0, 8, 1 << 20}[rng.Intn(3)], Seq: []uint32{0, 77, 0xfffffffe}[rng.Intn(3)],
					Src: rng.Uint32(), Ver: 0x10, Ops: ops, TS: []uint64{0, 1, 1 << 47, 1<<63 + 5}[rng.Intn(4)],
					Rate: []float64{1e8, 1.25e8, 1e9, 5e6, 1, 0}[(id+k)%6]} // 0 = the field left unset
				if skip[id] {
					continue
				}
				c15note(id, "ctor", "roundtrip", []byte(fmt.Sprintf("%+v", c)))
				r := c15roundtrip(c, rng)
				r["ev"], r["scen"], r["kind"], r["ctor"] = "Roundtrip", id, "ctor", c
				encMu.Lock()
				enc.Encode(r)
				encMu.Unlock()
			}
		}
	}
	// several decoders at once (one goroutine per UDP source in the server): encode -> decode round trips of packets with
	// different headers in four goroutines; a decoder must not depend on what another one is doing
	{
		nit := 4000
		if os.Getenv("VERIF_TIER") != "quick" {
			nit = 60000
		}
		ctors := []c15ctor{
			{Kind: 16, Dims: []int{8}, N: 16, Off: 0, Seq: 1, Src: 11, Ver: 0x10, Ops: []string{"settime"}, TS: 5, Rate: 1e8},
			{Kind: 32, Dims: []int{6}, N: 12, Off: 8, Seq: 2, Src: 22, Ver: 0x10, Ops: []string{"settime"}, TS: 1 << 40, Rate: 1.25e8},
			{Kind: 16, Dims: []int{2, 3}, N: 6, Off: 1 << 20, Seq: 3, Src: 33, Ver: 0x10, Ops: []string{}, TS: 0, Rate: 0},
			{Kind: 64, Dims: []int{1}, N: 5, Off: 3, Seq: 0xfffffffe, Src: 44, Ver: 0x10, Ops: []string{"settime"}, TS: 1 << 45, Rate: 1e9},
		}
		var wg sync.WaitGroup
		results := make([]c15res, len(ctors))
		counts := make([]int, len(ctors))
		for g := range ctors {
			wg.Add(1)
			go func(g int) {
				defer wg.Done()
				r := rand.New(rand.NewSource(int64(1000 + g)))
				for k := 0; k < nit; k++ {
					res := c15roundtrip(ctors[g], r)
					results[g] = res
					counts[g] = k + 1
					bad := len(res["panics"].([]string)) > 0 || res["decode_err"].(string) != ""
					for _, ok := range res["rt"].(map[string]bool) {
						if !ok {
							bad = true
						}
					}
					if bad {
						return // the first round trip that failed is the one reported
					}
				}
			}(g)
		}
		wg.Wait()
		for g := range ctors {
			id++
			r := results[g]
			r["ev"], r["scen"], r["kind"], r["ctor"], r["iterations"] = "Roundtrip", id, "ctor-concurrent", ctors[g], counts[g]
			encMu.Lock()
			enc.Encode(r)
			encMu.Unlock()
		}
	}
	// a STREAM of encoded packets, each padded to a multiple of a stride (the ring-buffer path: ReadPacketPlusPad): the
	// decoder must consume exactly the padded length of every packet, also when a packet's length is itself a multiple
	// of the stride, and give back every packet of the stream in order
	{
		nstream := 40
		if os.Getenv("VERIF_TIER") != "quick" {
			nstream = 1500
		}
		for k := 0; k < nstream; k++ {
			id++
			stride := []int{8, 16, 64, 256, 8192}[rng.Intn(5)]
			npk := 2 + rng.Intn(5)
			var stream []byte
			lens := []int{}
			seqs := []int{}
			for j := 0; j < npk; j++ {
				p := NewPacket(0x10, uint32(7+k), uint32(1000+j), 0)
				nval := 1 + rng.Intn(40)
				if rng.Intn(2) == 0 { // aim at an encoded length that is a multiple of the stride
					probe := NewPacket(0x10, 1, 1, 0)
					probe.NewData(make([]int16, 1), []int16{1})
					hdr := probe.Length() - 2
					for n := 1; n < 5000; n++ {
						if (hdr+2*n)%stride == 0 {
							nval = n
							break
						}
					}
				}
				d := make([]int16, nval)
				for i := range d {
					d[i] = int16(rng.Intn(65536) - 32768)
				}
				p.NewData(d, []int16{1})
				b := p.Bytes()
				lens = append(lens, len(b))
				seqs = append(seqs, 1000+j+1) // (NewData advances the sequence number)
				stream = append(stream, b...)
				if pad := (stride - len(b)%stride) % stride; pad > 0 {
					stream = append(stream, make([]byte, pad)...)
				}
			}
			res := c15res{"panics": []string{}, "decode_err": "", "rt": map[string]bool{}}
			func() {
				defer func() {
					if r := recover(); r != nil {
						res["panics"] = append(res["panics"].([]string), "stream: "+fmt.Sprint(r))
					}
				}()
				rd := bytes.NewReader(stream)
				got := []int{}
				consumed := []int{}
				for {
					before := rd.Len()
					p, err := ReadPacketPlusPad(rd, stride)
					if err != nil || p == nil {
						if err != nil && err != io.EOF && rd.Len() > 0 {
							res["decode_err"] = err.Error()
						}
						break
					}
					got = append(got, int(p.SequenceNumber()))
					consumed = append(consumed, before-rd.Len())
				}
				okSeq := len(got) == len(seqs)
				for i := 0; okSeq && i < len(got); i++ {
					okSeq = got[i] == seqs[i]
				}
				okLen := len(consumed) == len(lens)
				for i := 0; okLen && i < len(consumed); i++ {
					okLen = consumed[i] == (lens[i]+stride-1)/stride*stride
				}
				res["rt"] = map[string]bool{"stream_packets": okSeq, "stream_consumed": okLen}
				res["got"], res["want"] = got, seqs
			}()
			res["ev"], res["scen"], res["kind"], res["ctor"] = "Roundtrip", id, "stream", map[string]any{"stride": stride, "lens": lens}
			encMu.Lock()
			enc.Encode(res)
			encMu.Unlock()
		}
	}
}
