#!/usr/bin/env python3
"""Regenerates MANIFEST.json from the table below (so that it is always schema-valid)."""
import json, os, subprocess
V = os.path.dirname(os.path.dirname(os.path.abspath(__file__)))
props = [json.loads(l) for l in open(os.path.join(V, "properties.jsonl"))]
T = json.load(open(os.path.join(V, "lib", "manifest_table.json")))
checks = []
na = []
for p in props:
    pid = p["id"]
    t = T["checks"].get(pid)
    if not t:
        na.append({"property_id": pid, "reason": T["not_applicable"].get(pid, "check not built yet (work in progress); see DESIGN.md section 5")})
        continue
    checks.append({
        "property_id": pid,
        "quick_cmd": "bin/check %s --tier quick" % pid,
        "thorough_cmd": "bin/check %s --tier thorough" % pid,
        "evidence_file": "/verif/evidence/%s.json" % pid,
        "replay_cmd_template": "bin/check %s --replay {path}" % pid,
        "engine": t.get("engine", "tlc+go-overlay"),
        "level_claimed": {"category": t["level"], "text": t["text"], "design_ref": t.get("design_ref", "DESIGN.md section 5 / " + pid)},
        "level_note": t["note"],
        "technique": t["technique"],
    })
hooks = T["hooks"]
try:
    log = subprocess.run(["git", "-C", "/repo", "log", "--format=%h %s"], capture_output=True, text=True).stdout.splitlines()
    hooks["source_commits"] = [l.split()[0] for l in log if l.split(" ", 1)[1].startswith("verif hook")]
except Exception:
    pass
m = {"version": 1, "setup_cmd": "bin/setup", "hooks": hooks, "engines": T["engines"], "checks": checks,
     "notes": T["notes"], "not_applicable": na}
json.dump(m, open(os.path.join(V, "MANIFEST.json"), "w"), indent=1)
print("MANIFEST.json: %d checks, %d not_applicable" % (len(checks), len(na)))
