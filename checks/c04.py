"""C04 — Lancero ingest: frame alignment, channel order, err/fb pairing, external triggers."""
import json
import os
import vlib

LEVEL = "model_checking"
HARNESS = [os.path.join(vlib.HARNESS, "root", "common_test.go"), os.path.join(vlib.HARNESS, "root", "lancero_test.go")]


FUZZY_UNDER_LOSS = ("C04_once_in_order", "C04_retard_mix", "C04_ext", "C04_complete", "C04_invented")


def _go(ctx, sp, tp, nrandom, extra):
    env = {"VERIF_SCEN": sp, "VERIF_OUT": tp, "VERIF_NRANDOM": nrandom}
    env.update(extra)
    return vlib.go_test(ctx, "", HARNESS, "TestVerifLancero$", env=env, timeout=2400)


def run_driver(ctx, scens, nrandom, tag="t"):
    sp = ctx.path("scen_%s.json" % tag)
    json.dump(scens, open(sp, "w"))
    tp = ctx.path("trace_%s.ndjson" % tag)
    rc, out = _go(ctx, sp, tp, nrandom, {})
    if rc != 0 and "panic:" in out:
        # a panic in the reader goroutine ends the process: find the culprit(s) one scenario at a time
        events, skip, crashes = [], 0, []
        for attempt in range(12):
            tpi = ctx.path("trace_%s_seq%d.ndjson" % (tag, attempt))
            rc, out = _go(ctx, sp, tpi, nrandom, {"VERIF_SEQ": 1, "VERIF_SKIP": skip})
            part = vlib.read_ndjson(tpi) if os.path.exists(tpi) else []
            running = [e["scen"] for e in part if e["ev"] == "Running"]
            done = {}
            cur = None
            for e in part:
                if e["ev"] == "Config":
                    cur = e["scen"]
                    done[cur] = []
                if cur is not None and e["ev"] != "Running":
                    done[cur].append(e)
            complete = [k for k, v in done.items() if v and v[-1]["ev"] == "End"]
            for k in sorted(complete):
                events.extend(done[k])
            if rc == 0:
                break
            if "panic:" not in out or not running:
                raise vlib.MachineryError("lancero driver failed:\n" + out[-4000:])
            culprit = running[-1]
            msg = [l for l in out.splitlines() if l.startswith("panic:")]
            crashes.append({"scen": culprit, "msg": msg[0] if msg else "?"})
            skip = culprit
        else:
            raise vlib.MachineryError("lancero driver keeps crashing:\n" + out[-2000:])
        ctx.notes["reader_panics"] = crashes[:10]
        # a crashed scenario is represented by its configuration (from a dry listing) and a Panic event
        ctx.lancero_crashes = crashes
    elif rc != 0:
        raise vlib.MachineryError("lancero driver failed:\n" + out[-4000:])
    else:
        events = vlib.read_ndjson(tp)
        ctx.lancero_crashes = []
    # fold what is only known at the end of a scenario (when the second mix request was answered) into its Config line
    cur = None
    for e in events:
        if e["ev"] == "Config":
            cur = e
            cur["mixlo"], cur["mixhi"] = 0, 0
            nblk = 0
        elif e["ev"] == "Block":
            nblk += 1
        elif e["ev"] == "End":
            mb = e.get("mixatblock", -1)
            if cur["mixafter"] and mb >= 0:
                # old mix allowed up to the block that may have been on its way when the request returned (measured, not assumed)
                cur["mixlo"], cur["mixhi"] = mb, max(mb, e.get("mixdoneblock", mb)) + 1
            elif cur["mixafter"]:
                cur["mixlo"], cur["mixhi"] = 0, 10 ** 6   # the request was never answered (source ended first): either mix is acceptable
    for e in events:
        for k, v in list(e.items()):
            if v is None:
                e[k] = []
    vlib.write_ndjson(tp, events)
    return tp, events


def split(events):
    scs, cur = [], None
    for i, e in enumerate(events):
        if e["ev"] == "Config":
            cur = {"id": e["scen"], "first": i + 1, "cfg": e, "events": []}
            scs.append(cur)
        cur["events"].append(e)
    return scs


def judge(ctx, events, viols, scens):
    scs = split(events)
    for c in getattr(ctx, "lancero_crashes", []):
        i = c["scen"] - 1
        sc = scens[i] if i < len(scens) else {"seeded": True, "index": c["scen"]}
        msg = c["msg"]
        what = "dropFromEnd" if "dropFromEnd" in msg else ("divide by zero" if "divide by zero" in msg else msg[:50])
        vlib.report_violation(ctx, {"predicate": "C04_nocrash", "event": "ReaderPanic", "panic": what, "gap": bool(sc.get("gap"))}, sc)
    for s in scs:
        c = s["cfg"]
        nblk = sum(1 for e in s["events"] if e["ev"] == "Block")
        key = [c["cols"], c["rows"], c["reads"], c["gap"], c["mix"], c["mix2"], c["mixafter"], len(c["truth"])]
        vlib.add_case(ctx, key, nontrivial=nblk > 1 and (c["cols"] > 1 or c["gap"] or c["mix"]))
    ctx.samples = [{"origin": s["cfg"].get("origin"), "cols": s["cfg"]["cols"], "rows": s["cfg"]["rows"], "reads": s["cfg"]["reads"][:8],
                    "gap": s["cfg"]["gap"], "mix": s["cfg"]["mix"],
                    "blocks": [[e["first"], e["n"], e["dropped"], e["ext"]] for e in s["events"] if e["ev"] == "Block"][:6]} for s in scs[:4]]
    ctx.notes["blocks"] = sum(1 for e in events if e["ev"] == "Block")
    ctx.notes["scenarios_with_gap"] = sum(1 for s in scs if s["cfg"]["gap"])
    for v in viols:
        s = [x for x in scs if x["first"] <= v["line"]][-1]
        e = s["events"][v["line"] - s["first"]]
        c = s["cfg"]
        sig = {"predicate": v["predicate"], "event": e["ev"], "multi_column": c["cols"] > 1, "gap": bool(c["gap"])}
        if c["gap"]:
            # derived fact: did the lost bytes fall inside one driver read (some block spans the position of the loss)?
            inside, p0 = False, 0
            for b in s["events"]:
                if b["ev"] == "Block":
                    if p0 < c["beforegap"] < p0 + b["n"]:
                        inside = True
                    p0 += b["n"]
            sig["gap_inside_read"] = inside
            # derived from the card's side: is this a loss today's reader re-aligns on (junction in the first frame of a
            # driver read, regular frame-bit pattern behind it)?  F5b covers only the others.
            gc = [x for x in s["events"] if x["ev"] == "End"]
            gc = gc[-1].get("gapclass") if gc else None
            sig["loss_visible_to_reader"] = bool(gc and gc["found"] and gc["infirst"] and gc["regular"])
            # The reference of a perfect frame-bit reader is more than the property asks for under a loss (it says:
            # re-align to the next frame boundary, report the loss): where the reader can see the loss, only
            # C04_realigned / loss_reported / monotone / shape / nocrash are demanded; the reference predicates are not.
            if sig["loss_visible_to_reader"] and v["predicate"] in FUZZY_UNDER_LOSS:
                ctx.notes["reference_predicates_not_demanded_under_visible_loss"] = ctx.notes.get("reference_predicates_not_demanded_under_visible_loss", 0) + 1
                continue
        sc = scens[s["id"] - 1] if s["id"] - 1 < len(scens) else {"seeded": True, "config": {k: c[k] for k in c if k != "truth"}}
        vlib.report_violation(ctx, sig, sc)


def handmade():
    out = []
    # 2 columns x 3 rows, external trigger edges in rows 1 and 2 (the expected counts are frame*3+row)
    out.append({"origin": "hand:ext-2col", "cols": 2, "rows": 3, "nsampcard": 4, "nframes": 14, "ext": [[2, 1], [2, 2], [5, 2], [6, 0]],
                "reads": [4 * 24, 9 * 24 + 8, 14 * 24], "gap": None, "mix": [], "mixafter": 0, "mix2": [], "frame0": 0, "valmode": "id", "vseed": 1})
    # one column: the same edges
    out.append({"origin": "hand:ext-1col", "cols": 1, "rows": 3, "nsampcard": 4, "nframes": 14, "ext": [[2, 1], [2, 2], [5, 2], [6, 0]],
                "reads": [4 * 12, 9 * 12 + 4, 14 * 12], "gap": None, "mix": [], "mixafter": 0, "mix2": [], "frame0": 0, "valmode": "id", "vseed": 1})
    # 1.5 frames cut out exactly between two reads
    fs = 2 * 3 * 4
    out.append({"origin": "hand:gap-between-reads", "cols": 2, "rows": 3, "nsampcard": 4, "nframes": 24, "ext": [],
                "reads": [6 * fs, 6 * fs + 6 * fs, 22 * fs + 12], "gap": {"at": 6 * fs, "len": fs + 12}, "mix": [], "mixafter": 0, "mix2": [],
                "frame0": 100, "valmode": "id", "vseed": 1})
    # the same loss in the middle of one read
    out.append({"origin": "hand:gap-inside-read", "cols": 2, "rows": 3, "nsampcard": 4, "nframes": 24, "ext": [],
                "reads": [4 * fs, 14 * fs, 22 * fs + 12], "gap": {"at": 8 * fs + 8, "len": fs + 12}, "mix": [], "mixafter": 0, "mix2": [],
                "frame0": 0, "valmode": "id", "vseed": 1})
    # mix with saturation at both ends
    out.append({"origin": "hand:mix-saturation", "cols": 1, "rows": 2, "nsampcard": 2, "nframes": 20, "ext": [],
                "reads": [5 * 8, 12 * 8, 20 * 8], "gap": None, "mix": [{"ch": 1, "num": 8, "den": 1}, {"ch": 3, "num": -1, "den": 2}], "mixafter": 0, "mix2": [],
                "frame0": 0, "valmode": "extreme", "vseed": 3})
    return out


def validate(ctx, scens, nrandom, tag="t"):
    tp, events = run_driver(ctx, scens, nrandom, tag)
    viols, done = vlib.validate_trace(ctx, "LanceroTrace", "LanceroTrace.cfg", tp, heap="16g", timeout=2400, xss=True)
    judge(ctx, events, viols, scens)
    return events, viols


EXTS = {"Ext1": [[1, 1], [1, 2], [3, 0]], "Ext2": [[2, 1], [4, 0], [4, 1]], "NoExt": []}


def cfg_consts(cfg):
    out = {}
    with open(os.path.join(vlib.SPEC, cfg)) as f:
        for line in f:
            line = line.strip()
            if line.startswith("CONSTANTS"):
                line = line[len("CONSTANTS"):].strip()
            for k in ("Cols", "Rows", "NFrames"):
                if line.startswith(k + " ="):
                    out[k] = int(line.split("=")[1])
            if line.startswith("ExtCells <-"):
                out["ext"] = EXTS[line.split("<-")[1].strip()]
    return out


def scen_from_cex(r, cfg, origin):
    """LanceroIngest.tla behaviour -> driver scenario (production points in bytes, the loss, the external-trigger cells)."""
    k = cfg_consts(cfg)
    reads, gap = [], None
    for st in r.error_trace:
        a = st.get("act") or {}
        if a.get("a") == "Produce":
            reads.append(4 * a["to"])
        if st.get("GapLen"):
            gap = {"at": 4 * st["GapAt"], "len": 4 * st["GapLen"]}
    total = 4 * k["Cols"] * k["Rows"] * k["NFrames"] - (gap["len"] if gap else 0)
    reads.append(total)
    return {"origin": origin, "cols": k["Cols"], "rows": k["Rows"], "nsampcard": 4, "nframes": k["NFrames"], "ext": k["ext"], "reads": reads, "gap": gap,
            "mix": [], "mixafter": 0, "mix2": [], "frame0": 0, "valmode": "id", "vseed": 1}


def run(ctx):
    q = ctx.quick()
    scens = handmade()
    # 1. exhaustive: the code-shaped reader model (all read chunkings in the bound) follows the reference when nothing is lost
    for cfg in ("LanceroMC.cfg", "LanceroMC13.cfg"):
        r = vlib.run_tlc(ctx, "LanceroIngest", cfg, workers=16, timeout=1800)
        if r.violated:
            scens.append(scen_from_cex(r, cfg, "model-counterexample:%s:%s" % (cfg, r.violated)))
            ctx.notes.setdefault("model_counterexamples", []).append({"cfg": cfg, "invariant": r.violated})
    # 2. one run per deviation switch (the repaired defects) and the design limit F5b: canonical histories, replayed on the code
    for cfg in ("LanceroAsCodeExt.cfg", "LanceroAsCodeCounter.cfg", "LanceroAsCodeAlign.cfg", "LanceroAsTreeGap.cfg"):
        r = vlib.run_tlc(ctx, "LanceroIngest", cfg, workers=8, timeout=900)
        if r.violated:
            scens.append(scen_from_cex(r, cfg, "deviation:%s:%s" % (cfg, r.violated)))
    nrandom = 150 if q else 3000
    ctx.notes["scenarios_random"] = nrandom
    validate(ctx, scens, nrandom)
    return vlib.finish(ctx, LEVEL, "scenario = (geometry, frame contents, external-trigger cells, production points of the card per read, gap, mix settings); distinct by hash; non-trivial = more than one block and (several columns or a gap or a mix)",
                       ["exhaustive model: geometries 2x2 and 1x3, 9-10 frames, 6 production steps, <= 5 reads; the model with a loss is checked only as 'the tree has design limit F5b' (a reader that follows the reference under every loss is not modelled)",
                        "the card is scripted in memory (AvailableBuffer/ReleaseBytes); the reader tick (50 ms) is the real one, scenarios run concurrently",
                        "lost bytes are whole words and not a whole number of frames (a loss of exactly k frames is invisible to any reader of the frame bits)",
                        "mix fractions are dyadic so that the expected value is exact; the rounding direction of a half is not prescribed (floor or ceiling accepted)",
                        "one card (the source itself refuses several)"])


def replay(ctx, path):
    with open(path) as f:
        obj = json.load(f)
    sc = obj["replay"]
    if sc.get("seeded"):
        raise vlib.MachineryError("seeded scenario: re-run with the same VERIF_SEED")
    validate(ctx, [sc], 0)
    return vlib.finish(ctx, LEVEL, "replay of one recorded scenario", [])
