"""C18 — shared-memory ring buffer is a loss-free, duplication-free FIFO across wrap."""
import json
import os
import vlib

LEVEL = "model_checking"
HARNESS = [os.path.join(vlib.HARNESS, "ringbuffer", "c18_test.go")]


def scen_from_cex(r):
    ops = []
    cap = None
    for st in r.error_trace:
        a = st.get("act")
        if not a:
            continue
        if a["op"] == "Create":
            cap = a["cap"]
        elif a["op"] == "Recreate":
            ops.append({"op": "Recreate", "n": a["cap"]})
        else:
            ops.append({"op": a["op"], "n": a.get("n", 0)})
    return {"cap": cap, "ops": ops}


def run(ctx):
    q = ctx.quick()
    # 1. design: exhaustive model of the property-conforming ring (all operation histories in the bound)
    r = vlib.run_tlc(ctx, "RingBuffer", "RingBufferMC.cfg" if q else "RingBufferMCBig.cfg", workers=8 if q else 16)
    if not r.ok:
        raise vlib.MachineryError("RingBufferMC not clean: %s" % r.violated)
    # 2. deviation switch: the canonical failing history of 'DiscardStride rewinds'
    scens = []
    rc = vlib.run_tlc(ctx, "RingBuffer", "RingBufferAsCode.cfg", workers=4)
    if rc.violated:
        scens.append(scen_from_cex(rc))
    # deviation: Create trusts the pointers it finds in regions a previous writer left behind
    rk = vlib.run_tlc(ctx, "RingBuffer", "RingBufferKeepsPointers.cfg", workers=4)
    if not rk.violated:
        raise vlib.MachineryError("deviation CreateKeepsPointers no longer violates the model's invariants")
    scens.append(scen_from_cex(rk))
    # 3. behaviours from the spec (simulation) -> scenarios
    nsim = 40 if q else 2000
    rs = vlib.run_tlc(ctx, "RingBufferSim", "RingBufferSim.cfg", workers=1, simulate="num=%d" % nsim, depth=16)
    seen = {}
    for s in vlib.printed_json(rs.out, "SCEN"):
        key = json.dumps(s["ops"][:-1])
        seen.setdefault(key, [])
        if len(seen[key]) < 2:
            seen[key].append({"cap": s["cap"], "ops": [{"op": o["op"], "n": o.get("cap", 0) if o["op"] == "Recreate" else o.get("n", 0)} for o in s["ops"]]})
    for v in seen.values():
        scens.extend(v)
    nmodel = len(scens)
    sp = ctx.path("scen.json")
    with open(sp, "w") as f:
        json.dump(scens, f)
    tp = ctx.path("trace.ndjson")
    nrand = 300 if q else 40000
    rc_, out = vlib.go_test(ctx, "ringbuffer", HARNESS, "TestVerifC18$",
                            env={"VERIF_SCEN": sp, "VERIF_OUT": tp, "VERIF_NRANDOM": nrand})
    if rc_ != 0:
        raise vlib.MachineryError("driver failed:\n" + out[-3000:])
    # the two users at the same time: RingConc.tla (Write / Read as the steps in which they touch the shared memory) and a
    # writer + a reader goroutine on two RingBuffer objects that map the same shared memory
    for cfg in ("RingConcTree.cfg",):
        rcc = vlib.run_tlc(ctx, "RingConc", cfg, workers=8, timeout=900)
        if not rcc.ok:
            raise vlib.MachineryError("RingConc %s: %s" % (cfg, rcc.violated))
    rpf = vlib.run_tlc(ctx, "RingConc", "RingConcPublishFirst.cfg", workers=4, timeout=600)
    ctx.notes["ringconc_variant_publish_first"] = {"violated": rpf.violated, "meaning": "storing the write pointer before the bytes are copied lets a concurrent read return bytes that were not written yet"}
    tc = ctx.path("trace_conc.ndjson")
    rc_, out = vlib.go_test(ctx, "ringbuffer", HARNESS, "TestVerifC18Conc$", env={"VERIF_OUT": tc, "VERIF_NRANDOM": 3 if q else 40}, timeout=1800)
    if rc_ != 0:
        raise vlib.MachineryError("concurrent driver failed:\n" + out[-3000:])
    conc = vlib.read_ndjson(tc)
    ctx.notes["concurrent_sessions"] = len(conc)
    vlib.write_ndjson(tp, vlib.read_ndjson(tp) + conc)
    viols, done = vlib.validate_trace(ctx, "RingBufferTrace", "RingBufferTrace.cfg", tp)
    events = vlib.read_ndjson(tp)
    judge(ctx, events, viols)
    ctx.notes["scenarios_from_model"] = nmodel
    ctx.notes["scenarios_random"] = nrand
    return vlib.finish(ctx, LEVEL,
                       "scenario = (capacity, operation history); distinct by hash of the recorded calls; non-trivial = data wrapped past the end of the buffer or a write was truncated by a full buffer",
                       ["bytes carry their global index mod 251 (a displacement by a multiple of 251 would be invisible)",
                        "single-threaded use (the property quantifies over call sequences, not concurrent writer/reader)",
                        "chunk/stride sizes >= 1"],
                       exhaustive=False)


def split_scen(events):
    scen = []
    cur = None
    for i, e in enumerate(events):
        if e["ev"] == "Create":
            cur = {"id": e["scen"], "cap": e["cap"], "first": i + 1, "events": []}
            scen.append(cur)
        cur["events"].append(e)
    return scen


def judge(ctx, events, viols):
    conc = {e["scen"]: e for e in events if e["ev"] == "Conc"}
    events = [e for e in events if e["ev"] != "Conc"]
    for v in [v for v in viols if v["scen"] in conc]:
        vlib.report_violation(ctx, {"predicate": v["predicate"], "call": "concurrent writer and reader"}, {"session": conc[v["scen"]]})
    viols = [v for v in viols if v["scen"] not in conc]
    for e in conc.values():
        vlib.add_case(ctx, ["conc", e["cap"], e["block"]], nontrivial=True)
    scs = split_scen(events)
    byid = {s["id"]: s for s in scs}
    for s in scs:
        acc = sum(e.get("ret", 0) for e in s["events"] if e["ev"] == "Write")
        trunc = any(e["ev"] == "Write" and e["ret"] < e["n"] for e in s["events"])
        vlib.add_case(ctx, [s["cap"], s["events"][1:]], nontrivial=(acc > s["cap"] or trunc))
    if scs:
        ctx.samples = [{"cap": s["cap"], "calls": s["events"][1:8]} for s in scs[:3]]
    for v in viols:
        s = byid[v["scen"]]
        idx = v["line"] - s["first"]
        e = s["events"][idx]
        sig = {"predicate": v["predicate"], "call": e["ev"]}
        sig["after_rewind"] = after_rewind(s["events"][:idx])
        if e["ev"] == "Discard":
            # derived fact: did the read position move backwards?  (position before = bytes consumed so far)
            before = 0
            for p in s["events"][:idx]:
                if p["ev"] in ("Read", "ReadAll", "ReadMult", "Drain"):
                    before += len(p.get("data") or [])
                elif p["ev"] == "Discard":
                    before = p["rp"]
                elif p["ev"] == "Recreate":
                    before = 0
            sig["rewind"] = e["rp"] < before
        vlib.report_violation(ctx, sig, {"cap": s["cap"], "calls": s["events"][:idx + 1]})


def after_rewind(prefix):
    """derived fact: did an earlier DiscardStride in this history move the read position backwards?"""
    pos = 0
    for p in prefix:
        if p["ev"] in ("Read", "ReadAll", "ReadMult", "Drain"):
            pos += len(p.get("data") or [])
        elif p["ev"] == "Discard":
            if p["rp"] < pos:
                return True
            pos = p["rp"]
    return False


def replay(ctx, path):
    with open(path) as f:
        obj = json.load(f)
    calls = obj["replay"]["calls"]
    ops = [{"op": {"ReadMult": "ReadMult"}.get(c["ev"], c["ev"]), "n": c.get("cap", 0) if c["ev"] == "Recreate" else c.get("n", 0)} for c in calls if c["ev"] not in ("Create", "Drain")]
    sp = ctx.path("scen.json")
    with open(sp, "w") as f:
        json.dump([{"cap": obj["replay"]["cap"], "ops": ops}], f)
    tp = ctx.path("trace.ndjson")
    vlib.go_test(ctx, "ringbuffer", HARNESS, "TestVerifC18", env={"VERIF_SCEN": sp, "VERIF_OUT": tp, "VERIF_NRANDOM": 0})
    viols, _ = vlib.validate_trace(ctx, "RingBufferTrace", "RingBufferTrace.cfg", tp)
    judge(ctx, vlib.read_ndjson(tp), viols)
    return vlib.finish(ctx, LEVEL, "replay of one recorded history", [])
