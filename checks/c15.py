"""C15 — packet decoding is total and inverse to encoding."""
import json
import os
import vlib

LEVEL = "exploration"
HARNESS = [os.path.join(vlib.HARNESS, "packets", "c15_test.go")]


def run(ctx):
    q = ctx.quick()
    r = vlib.run_tlc(ctx, "Packet", "PacketGen2.cfg" if q else "PacketGen3.cfg", workers=1, timeout=1800, heap="16g", dump_trace=False)
    cases = vlib.printed_json(r.out, "CASES")
    if not cases:
        raise vlib.MachineryError("Packet.tla printed no cases")
    cases = cases[0]
    sp = ctx.path("cases.json")
    json.dump(cases, open(sp, "w"))
    tp = ctx.path("trace.ndjson")
    nmut = 3000 if q else 600000
    # a call that never returns ends the driver with a Hang event (watchdog); the driver is started again without that case
    hangs, skip = [], []
    for attempt in range(40):
        rc, out = vlib.go_test(ctx, "packets", HARNESS, "TestVerifC15$", tags="", timeout=2400,
                               env={"VERIF_SCEN": sp, "VERIF_OUT": tp, "VERIF_NRANDOM": nmut, "VERIF_SKIPIDS": ",".join(map(str, skip))})
        events = vlib.read_ndjson(tp) if os.path.exists(tp) else []
        if rc == 0:
            break
        if events and events[-1]["ev"] == "Hang":
            hangs.append(events[-1])
            skip.append(events[-1]["scen"])
            continue
        raise vlib.MachineryError("packets driver failed:\n" + out[-3000:])
    else:
        raise vlib.MachineryError("packets driver: more than 40 hanging cases")
    for h in hangs:
        h["case"] = {"tlvs": [], "hdr": "hang", "payload": "hang"}
    events = events + hangs
    ctx.notes["calls_that_never_returned"] = len(hangs)
    def clamp(x):          # TLC integers are 32 bit: a channel count of 2.4e9 (product of shape dimensions) would wrap to a negative number
        if isinstance(x, bool):
            return x
        if isinstance(x, int):
            return max(-2147483647, min(2147483647, x))
        if isinstance(x, list):
            return [clamp(y) for y in x]
        return x
    for e in events:
        for k in ("chaninfo", "frames", "length", "seq", "readvalue", "pretend", "ndata"):
            if k in e:
                e[k] = clamp(e[k])
    for e in events:       # JSON nulls (nil slices) are not representable in TLA+
        for k, v in list(e.items()):
            if v is None:
                e[k] = []
        if isinstance(e.get("case"), dict) and e["case"].get("tlvs") is None:
            e["case"]["tlvs"] = []
    vlib.write_ndjson(tp, events)
    viols, done = vlib.validate_trace(ctx, "PacketTrace", "PacketTrace.cfg", tp, heap="24g", timeout=3000)
    ndec = sum(1 for e in events if e["ev"] == "Decode")
    nok = sum(1 for e in events if e["ev"] == "Decode" and e.get("ok"))
    ctx.notes["grammar_cases"] = len(cases)
    ctx.notes["mutations"] = nmut
    ctx.notes["decoded_without_error"] = nok
    ctx.notes["decodes"] = ndec
    ctx.notes["constructor_histories"] = sum(1 for e in events if e["ev"] == "Roundtrip")
    for e in events:
        if e["ev"] == "Decode" and e["kind"] == "grammar":
            vlib.add_case(ctx, e["case"], nontrivial=len(e["case"]["tlvs"]) > 0)
        elif e["ev"] == "Roundtrip":
            vlib.add_case(ctx, e["ctor"], nontrivial=True)
        elif e["ev"] == "Hang":
            pass
        else:
            ctx.evaluations += 1
    ctx.samples = [e["case"] for e in events[:3] if e["ev"] == "Decode"] + [e["ctor"] for e in events if e["ev"] == "Roundtrip"][:2]
    for v in viols:
        e = events[v["line"] - 1]
        sig = {"predicate": v["predicate"], "kind": e["kind"]}
        if e["ev"] == "Hang":
            sig["call"] = e["call"]
            vlib.report_violation(ctx, sig, {"hang": e})
            continue
        if e["ev"] == "Decode":
            pn = e.get("panics") or []
            sig["panic_in"] = sorted({p.split(":")[0] for p in pn})
            if e["kind"] == "grammar":
                t = e["case"]["tlvs"]
                sig["has_shape"] = any(x.startswith("shape") for x in t)
                sig["has_format"] = any(x.startswith("fmt") for x in t)
                sig["fmt_empty"] = "fmt_empty" in t
        else:
            sig["dims"] = len(e["ctor"].get("dims") or [])
            sig["panic_in"] = sorted({p.split(":")[0] for p in (e.get("panics") or [])})
        vlib.report_violation(ctx, sig, {"case": e.get("case"), "ctor": e.get("ctor"), "observed": {k: e[k] for k in e if k not in ("case", "ctor")}})
    return vlib.finish(ctx, LEVEL,
                       "case = one datagram of Packet.tla's grammar (TLV sequence x header variant x payload variant), a byte-level mutation of a decodable one, or a constructor history; distinct by hash of the abstract case; non-trivial = at least one TLV item / any constructor history",
                       ["the specification is the case generator and the judge; arbitrary byte strings beyond the grammar and its mutations are not enumerated (no coverage-guided fuzzing in this family)",
                        "consistency is judged on what the accessors report, not on the decoder's internals"])


def replay(ctx, path):
    return run(ctx)
