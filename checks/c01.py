"""C01 — each pulse record is an exact, correctly labelled excerpt of its channel stream."""
import random
import vlib
import streamgen
import stream_common as sc
import c08

LEVEL = "model_checking"
PREFIXES = ["C01_"]
RULE = ("scenario = (channels, record lengths, signedness, trigger settings incl. group connections, streams, block partition); every "
        "published record (primary or secondary) is compared sample by sample with the delivered stream around its stated frame, and its "
        "time with the block stamps; distinct by hash; non-trivial = at least one record and more than one block")


def group_relen_scenario(rng):
    """Group trigger across a change of the record lengths: channel 0 (edge trigger) feeds channels 1.. (no trigger of
    their own); the records become 2-4 times LONGER between two blocks, the trigger settings are sent again to channel 0
    only, and pulses sit early in the following blocks, so that the receivers' records reach back into the history their
    streams retained under the old lengths."""
    nchan = rng.choice([2, 3])
    npre = rng.randint(4, 10)
    nsamp = npre + rng.choice([10, 20])
    k = rng.choice([2, 3, 4])
    nsamp2, npre2 = nsamp * k, npre * rng.choice([1, k])
    blen = nsamp2 - rng.randint(0, nsamp2 // 4)           # blocks a bit shorter than a new record
    nb1, nb2 = rng.randint(2, 3), rng.randint(4, 6)
    total = (nb1 + nb2) * blen
    data = []
    for c in range(nchan):
        xs = [(1000 + 37 * c + (i * (7 + c)) % 23) for i in range(total)]   # position-dependent samples on every channel
        data.append(xs)
    p = npre + 2
    while p < total - 2:
        for i in range(p, min(total, p + 6)):
            data[0][i] += int(500 * 0.7 ** (i - p))
        # often shortly behind a block start: the record of a receiver then begins well before that block
        nxt = ((p // blen) + 1) * blen + rng.choice([1, 2, 5, npre2 // 2 + 1, blen // 3])
        p = max(p + nsamp2 + 3, nxt) if rng.random() < 0.8 else p + nsamp2 + rng.randint(3, blen)
    t = sc.edge_trig(level=150)
    off = streamgen.trig_off()
    steps = [{"k": "trig", "chans": [0], "t": t}]
    for r in range(1, nchan):
        steps.append({"k": "conn", "op": "add", "s": 0, "r": r})
    for _ in range(nb1):
        steps.append({"k": "block", "n": blen})
    steps.append({"k": "len", "nsamp": nsamp2, "npre": npre2})
    if rng.random() < 0.8:
        steps.append({"k": "trig", "chans": [0], "t": t})
    for _ in range(nb2):
        steps.append({"k": "block", "n": blen})
    return {"origin": "group-trigger-across-length-change", "nchan": nchan, "npre": npre, "nsamp": nsamp, "signed": False, "period": 1000,
            "frame0": rng.choice([0, 1 << 33]), "start": "fresh", "trig": [t] + [off] * (nchan - 1), "steps": steps, "data": data, "oneblock": False}


def run(ctx):
    q = ctx.quick()
    scens, _ = sc.stream_mc(ctx, q, reconf=False)
    rng = random.Random(ctx.seed + 1000)
    n = 250 if q else 4000
    scens += [streamgen.random_scenario(rng) for _ in range(n)]
    ctx.notes["scenarios_random"] = n
    nem = 80 if q else 1500
    scens += [c08.random_scen(rng) for _ in range(nem)]   # edge-multi records (variable length, all three modes) are records too
    ctx.notes["scenarios_edge_multi"] = nem
    ng = 60 if q else 1200
    scens += [group_relen_scenario(rng) for _ in range(ng)]
    ctx.notes["scenarios_group_trigger_across_length_change"] = ng
    sc.validate(ctx, scens, PREFIXES)
    # data drops (frame numbers that jump between blocks, flagged by the source or not): crash-freedom of record cutting
    tp = ctx.path("emdrop.ndjson")
    rc, out = vlib.go_test(ctx, "", sc.HARNESS, "TestVerifEMDrop$", env={"VERIF_OUT": tp}, timeout=1800)
    if rc != 0:
        raise vlib.MachineryError("edge-multi data-drop driver failed:\n" + out[-3000:])
    dviols, _ = vlib.validate_trace(ctx, "StreamTrace", "StreamTrace.cfg", tp, timeout=900)
    dev = vlib.read_ndjson(tp)
    for v in dviols:
        if v["predicate"].startswith("C01_"):
            e = dev[v["line"] - 1]
            vlib.report_violation(ctx, {"predicate": v["predicate"], "event": "EMDrop", "where": (e["panic"] or "").split(":")[0]},
                                  {"emdrop": {k: e[k] for k in ("npre", "nsamp", "mode", "zero", "drops", "panic")}})
    return vlib.finish(ctx, LEVEL, RULE,
                       ["block time stamps are mutually consistent (first sample time = epoch + frame * period)",
                        "edge-multi scenarios are shared with C08 (its generator); C08 additionally compares one-block and partitioned runs", "frame numbers up to 2^40 + stream length"])


def replay(ctx, path):
    return sc.replay(ctx, path, PREFIXES, LEVEL)
