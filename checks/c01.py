"""C01 — each pulse record is an exact, correctly labelled excerpt of its channel stream."""
import random
import vlib
import streamgen
import stream_common as sc
import c08

LEVEL = "model_checking"
PREFIXES = ["C01_"]
RULE = ("scenario = (channels, record lengths, signedness, trigger settings incl. group connections, streams, block partition); every "
        "published record (primary or secondary) is compared sample by sample with the delivered stream around its stated frame, and its "
        "time with the block stamps; distinct by hash; non-trivial = at least one record and more than one block")


def run(ctx):
    q = ctx.quick()
    scens, _ = sc.stream_mc(ctx, q, reconf=False)
    rng = random.Random(ctx.seed + 1000)
    n = 250 if q else 4000
    scens += [streamgen.random_scenario(rng) for _ in range(n)]
    ctx.notes["scenarios_random"] = n
    nem = 80 if q else 1500
    scens += [c08.random_scen(rng) for _ in range(nem)]   # edge-multi records (variable length, all three modes) are records too
    ctx.notes["scenarios_edge_multi"] = nem
    sc.validate(ctx, scens, PREFIXES)
    return vlib.finish(ctx, LEVEL, RULE,
                       ["block time stamps are mutually consistent (first sample time = epoch + frame * period)",
                        "edge-multi scenarios are shared with C08 (its generator); C08 additionally compares one-block and partitioned runs", "frame numbers up to 2^40 + stream length"])


def replay(ctx, path):
    return sc.replay(ctx, path, PREFIXES, LEVEL)
