"""C10 — source life cycle: start/stop always completes, cleans up, and is repeatable."""
import random
import vlib
import lifecycle_common as L
import lancerolife as LL

LEVEL = "model_checking"
PREFIXES = ("C10_",)
ASSUME = ["gates sit at the vpoint hooks (build tag verif); a step of the model = release of the goroutine(s) it names and their arrival at the next gate",
          "select races the driver cannot force (timer vs abort, data vs closed channel) are left out of replayed behaviours (Replayable = TRUE); they are in the exhaustive model",
          "gated replay: producers Triangle (simple) and Erroring; the real Abaco source is exercised ungated over localhost UDP (failed start without data, start, stop, restart, goroutine census); the Lancero chain runs ungated on a scripted card through the RPC methods (LanceroLifecycle.tla: start, stop, restart, silent card, goroutine census, card released)",
          "free-running schedules (2-8 simultaneous Stop callers, also racing the erroring source's own end) sample the windows between the hooks; the vheld hook reports whether Stop and Start decide and act under the state lock, as the model's atomic actions assume",
          "a hang is a call that has not returned 2 s after every gate was opened, reported with its blocking frame",
          "Stop on a source that is still Starting panics by design below the RPC layer; the RPC layer never lets it happen (checked in the model with RPCLayer = TRUE/FALSE)"]


def abaco_chain(ctx, q):
    """Design level: the Abaco chain reader -> buffersChan -> getNextBlock goroutine -> core loop (AbacoLifecycle.tla).
    'as the tree is' must hold; the variants document what the localhost-UDP driver observes on the real code."""
    for cfg in ("AbacoLifeTree.cfg", "AbacoLifeMC.cfg") + (() if q else ("AbacoLifeTreeBig.cfg",)):
        r = vlib.run_tlc(ctx, "AbacoLifecycle", cfg, workers=4, timeout=900)
        if not r.ok:
            raise vlib.MachineryError("AbacoLifecycle %s: %s" % (cfg, r.violated))
    r = vlib.run_tlc(ctx, "AbacoLifecycle", "AbacoLifeAsCode.cfg", workers=2, timeout=600)
    ctx.notes["abaco_chain_panic_timer_races_orderly_timeout"] = {"violated": r.violated, "meaning": "as the code is, a silent hardware can end the run by the reader's orderly time-out or by getNextBlock's deliberate panic (equal 5 s timers): design observation, see DESIGN.md"}
    r = vlib.run_tlc(ctx, "AbacoLifecycle", "AbacoLifeSeed.cfg", workers=2, timeout=600)
    ctx.notes["abaco_chain_variant_close_in_abort_arm_only"] = {"violated": r.violated, "meaning": "closing the devices only in the reader's abort arm leaves them open after a run that ended by the time-out (seeded change C10-s4; the UDP driver reproduces it on the code)"}


def collect(ctx, q):
    abaco_chain(ctx, q)
    scens = []
    for cfg in (["LifecycleMC.cfg", "LifecycleErr.cfg"] if q else ["LifecycleMC.cfg", "LifecycleErr.cfg", "LifecycleBig.cfg"]):
        r = vlib.run_tlc(ctx, "Lifecycle", cfg, workers=16, timeout=3000, heap="24g")
        if r.violated:
            scens.append(L.scen_from_cex(r, cfg, "model-counterexample:%s:%s" % (cfg, r.violated)))
            ctx.notes.setdefault("model_counterexamples", []).append({"cfg": cfg, "property": r.violated})
    r = vlib.run_tlc(ctx, "Lifecycle", "LifecycleAsCodeWG.cfg", workers=8, timeout=900)
    if r.violated:
        scens.append(L.scen_from_cex(r, "LifecycleAsCodeWG.cfg", "deviation:SharedWaitGroup:" + r.violated))
    r = vlib.run_tlc(ctx, "Lifecycle", "LifecycleAsCodeWriting.cfg", workers=8, timeout=900)
    if r.violated:
        sc = L.scen_from_cex(r, "LifecycleAsCodeWriting.cfg", "deviation:WritingOutlivesRun:" + r.violated)
        sc["reqkinds"] = ["writecontrol", "trigger"]
        scens.extend([sc] * 3)
    # deviation: a Stop whose decision and action are two steps. There is no gate inside the critical section of the code
    # (parking a goroutine there would park everybody else too), so the counterexample is not replayed; the hook vheld
    # checks on every recorded Stop / Start that the code acts on the state it read while still holding the lock.
    r = vlib.run_tlc(ctx, "Lifecycle", "LifecycleStopTorn.cfg", workers=8, timeout=900)
    if not r.violated:
        raise vlib.MachineryError("deviation StopCheckThenAct no longer violates the model")
    ctx.notes["deviation_torn_stop"] = {"violates": r.violated, "bound_to_code_by": "hook vheld -> predicates C10_stop_atomic / C10_start_atomic"}
    scens += L.witness_scens(ctx, repeat=6 if q else 20)
    n = 40 if q else 400
    scens += L.sim_scens(ctx, "LifecycleSim.cfg", n)
    scens += L.sim_scens(ctx, "LifecycleSimErr.cfg", n // 2)
    # free-running schedules: Start, then 2-8 simultaneous Stop callers (racing with the erroring source's own end); the
    # windows between the hooks, which the gated replay cannot open, are left to the Go scheduler
    rng = random.Random(ctx.seed + 77)
    nf = 40 if q else 800
    for i in range(nf):
        scens.append({"origin": "free-running", "producer": ("simple", "erroring", "simpulse")[i % 3], "steps": [], "reqkinds": ["trigger", "pulselengths"],
                      "free": {"nstop": rng.choice([2, 3, 8]), "delayus": rng.choice([0, 200, 1000, 3000, 10000, 30000]), "rounds": rng.choice([1, 4, 10])}})
    ctx.notes["free_running_schedules"] = nf
    return scens


def run(ctx):
    scens = collect(ctx, ctx.quick())
    ctx.notes["schedules"] = len(scens)
    L.validate(ctx, scens, PREFIXES, udp=True)
    LL.stage(ctx, PREFIXES)
    return vlib.finish(ctx, LEVEL,
                       "schedule = TLC behaviour of Lifecycle.tla (counterexample or simulation) replayed step by step on the real code; distinct by hash of the executed steps; non-trivial = the core loop exited or a request was answered, with >= 2 concurrent callers",
                       ASSUME, exhaustive=False)


def replay(ctx, path):
    import json
    with open(path) as f:
        obj = json.load(f)
    if "lancero_life" in obj.get("replay", {}):
        LL.stage(ctx, PREFIXES, only=obj["replay"]["lancero_life"])
        return vlib.finish(ctx, LEVEL, "replay of one recorded Lancero life-cycle history", [])
    return L.replay(ctx, path, PREFIXES, LEVEL)
