"""C07 — file writing is record-atomic and order-preserving under any disk timing."""
import json
import os
import vlib

LEVEL = "model_checking"
W = os.path.join(vlib.HARNESS, "writers")
H_ASYNC = [os.path.join(vlib.HARNESS, "asyncbufio", "c07_test.go")]
RULE = ("scenario = one writer life (open, bursts of WriteRecord, disk stalls/partial drains chosen by the driver, Flush calls, Close); "
        "distinct by hash of (kind, accepted/rejected pattern, flush points); non-trivial = at least one record was rejected because "
        "the queue was full, or a flush happened with a non-empty queue")


def sched_from_hist(s):
    ops = []
    for a in s["steps"]:
        n = a["a"]
        if n == "WritePart":
            ops.append({"op": "W", "n": 0})
        elif n in ("Take", "Spill", "FlushDone"):
            ops.append({"op": "R", "n": 1})
        elif n == "DrainStep":
            pass   # channel -> bufio memory: no disk operation of its own
        elif n == "Tick":
            ops.append({"op": "K", "n": 0})   # the ticker fires with the disk as it is (possibly stalled)
        elif n == "CallFlush":
            ops.append({"op": "F", "n": 0})
        elif n == "CallClose":
            ops.append({"op": "C", "n": 0})
    return {"cap": s["cap"], "ops": ops, "origin": "tlc-simulate"}


def helper(ctx, pkg):
    h = ctx.path("fifo_helper_%s.go" % pkg)
    with open(os.path.join(W, "fifo_helper.go.tmpl")) as f:
        src = f.read().replace("package PKG", "package " + pkg)
    with open(h, "w") as f:
        f.write(src)
    return h


def run(ctx):
    q = ctx.quick()
    r = vlib.run_tlc(ctx, "AsyncWriter", "AsyncWriterMC.cfg" if q else "AsyncWriterMCBig.cfg", workers=8)
    if not r.ok:
        raise vlib.MachineryError("AsyncWriter model (atomic variant) not clean: %s" % r.violated)
    rl = vlib.run_tlc(ctx, "AsyncWriter", "AsyncWriterLive.cfg", workers=8)
    if not rl.ok:
        raise vlib.MachineryError("AsyncWriter liveness not clean: %s" % rl.violated)
    ra = vlib.run_tlc(ctx, "AsyncWriter", "AsyncWriterAsCode.cfg", workers=4)
    ctx.notes["as_code_model_counterexample"] = [st.get("act") for st in ra.error_trace][-4:] if ra.violated else None
    rs = vlib.run_tlc(ctx, "AsyncWriterSim", "AsyncWriterSim.cfg", workers=1, simulate="num=%d" % (25 if q else 250), depth=31)
    scheds, seen = [], set()
    for s in vlib.printed_json(rs.out, "SCEN"):
        k = json.dumps(s["steps"][:-1], sort_keys=True)
        if k in seen:
            continue
        seen.add(k)
        scheds.append(sched_from_hist(s))
    ctx.notes["schedules_from_model"] = len(scheds)
    sp = ctx.path("sched.json")
    with open(sp, "w") as f:
        json.dump(scheds, f)
    traces = []
    t1 = ctx.path("t_async.ndjson")
    rc, out = vlib.go_test(ctx, "asyncbufio", [os.path.join(vlib.HARNESS, "asyncbufio", "c07_test.go")], "TestVerifC07",
                           env={"VERIF_SCEN": sp, "VERIF_OUT": t1, "VERIF_NRANDOM": 60 if q else 1500})
    if rc != 0:
        raise vlib.MachineryError("asyncbufio driver failed:\n" + out[-3000:])
    traces.append(t1)
    t2 = ctx.path("t_ljh.ndjson")
    rc, out = vlib.go_test(ctx, "ljh", [helper(ctx, "ljh"), os.path.join(W, "ljh_c07_test.go")], "TestVerifC07",
                           env={"VERIF_OUT": t2, "VERIF_NRANDOM": 6 if q else 60})
    if rc != 0:
        raise vlib.MachineryError("ljh driver failed:\n" + out[-3000:])
    traces.append(t2)
    t3 = ctx.path("t_off.ndjson")
    rc, out = vlib.go_test(ctx, "off", [helper(ctx, "off"), os.path.join(W, "off_c07_test.go")], "TestVerifC07",
                           env={"VERIF_OUT": t3, "VERIF_NRANDOM": 6 if q else 60})
    if rc != 0:
        raise vlib.MachineryError("off driver failed:\n" + out[-3000:])
    traces.append(t3)
    events = []
    nscen = 0
    for t in traces:
        for e in vlib.read_ndjson(t):
            if e["ev"] == "Open":
                nscen += 1
                e["scen"] = nscen
            events.append(e)
    tp = ctx.path("trace.ndjson")
    vlib.write_ndjson(tp, events)
    viols, done = vlib.validate_trace(ctx, "AsyncWriterTrace", "AsyncWriterTrace.cfg", tp, heap="16g", timeout=1800)
    judge(ctx, events, viols)
    # the flush that a PAUSE request performs, at the level where clients ask for it (AnySource.WriteControl ->
    # DataPublisher.SetPause -> Flush of every writer): write-control histories of WriteControl.tla on a real AnySource,
    # the files decoded at the moment PAUSE has returned (WriteControlTrace.tla, predicate C07_pause_flushes)
    import wc_common as wc
    wevents, wviols = wc.model_and_traces(ctx, ["C07_"])
    ctx.notes["pause_requests_with_files_read"] = sum(1 for e in wevents if e["ev"] == "Req" and e["req"] == "PAUSE" and e["ok"])
    wc.judge(ctx, wevents, wviols, lambda s, idx, e: {"event": e["ev"], "layer": "write-control", "type": e.get("t", "")})
    return vlib.finish(ctx, LEVEL, RULE,
                       ["the disk is a named pipe (real writers) or a gated io.Writer (asyncbufio): stalls are whole-write granular",
                        "single producer thread per writer, as in dastard (PublishData and Flush of one channel never overlap)",
                        "file content is observed when Flush/Close return, not in between"])


def judge(ctx, events, viols):
    scs, cur = [], None
    for i, e in enumerate(events):
        if e["ev"] == "Open":
            cur = {"id": e["scen"], "kind": e["kind"], "first": i + 1, "events": []}
            scs.append(cur)
        cur["events"].append(e)
    byid = {s["id"]: s for s in scs}
    for s in scs:
        rejected = sum(len(e["fail"]) for e in s["events"] if e["ev"] == "WRB")
        pattern = [(e["ev"], len(e.get("ok", [])), len(e.get("fail", []))) for e in s["events"]]
        vlib.add_case(ctx, [s["kind"], pattern], nontrivial=rejected > 0 or any(e["ev"] == "FlushReturn" for e in s["events"]))
    ctx.samples = [{"kind": s["kind"], "events": [{"ev": e["ev"], "accepted": len(e.get("ok", [])), "rejected": len(e.get("fail", [])),
                                                   "records_on_disk": len(e.get("recs", []))} for e in s["events"][:10]]} for s in scs[:3]]
    ctx.notes["records_rejected_queue_full"] = sum(len(e["fail"]) for e in events if e["ev"] == "WRB")
    ctx.notes["records_accepted"] = sum(len(e["ok"]) for e in events if e["ev"] == "WRB")
    for v in viols:
        s = byid[v["scen"]]
        e = s["events"][v["line"] - s["first"]]
        sig = {"predicate": v["predicate"], "kind": s["kind"], "event": e["ev"]}
        brief = [{"ev": x["ev"], "accepted": len(x.get("ok", [])), "rejected": len(x.get("fail", [])), "recs": len(x.get("recs", [])),
                  "trailing": x.get("trailing"), "garbled": x.get("garbled")} for x in s["events"]]
        vlib.report_violation(ctx, sig, {"kind": s["kind"], "history": brief})


def replay(ctx, path):
    # the schedule depends on real pipe timing; replay = re-run the quick drivers
    return run(ctx)
