"""C12 — phase unwrapping keeps the signal modulo flux quanta and is block-independent."""
import json
import os
import random
import vlib

LEVEL = "model_checking"
HARNESS = [os.path.join(vlib.HARNESS, "root", "common_test.go"), os.path.join(vlib.HARNESS, "root", "phase_test.go")]


def structured(rng):
    """Inputs scaled up from the small-word model's alphabet: every step class (below / at / above the thresholds) in 16 bit."""
    out = []
    for frac, drop, bias, ra, ps, inv in [(16, 4, 0, 3, 1, False), (16, 4, 24904, 2, 1, False), (16, 4, -24904, 2, -1, True), (14, 2, 0, 1, 1, False), (13, 1, 1000, 5, -1, False)]:
        two = 1 << (frac - drop)
        b = (bias >> drop)
        b = b % two if b >= 0 else -((-b) % two) if False else int(b - two * int(b / two))
        up, lo = b + two // 2, b - two // 2
        steps = [0, 1, -1, up - 1, up, up + 1, lo + 1, lo, lo - 1, two - 1, -(two - 1), two // 2, -(two // 2)]
        seq, v = [], 7
        for k in range(120):
            s = steps[rng.randrange(len(steps))] if k % 4 else 0
            v = (v + s) % two
            seq.append(((v << drop) | rng.randrange(1 << drop)) % 65536 if not inv else 65535 - (((v << drop) | rng.randrange(1 << drop)) % 65536))
        out.append({"origin": "structured", "frac": frac, "drop": drop, "enable": True, "biaslevel": bias, "resetafter": ra, "pulsesign": ps, "invert": inv,
                    "inp": seq, "splits": [[1] * 10, [0, 3, 0, 50], [119]]})
    return out


ROACH = [os.path.join(vlib.HARNESS, "root", "common_test.go"), os.path.join(vlib.HARNESS, "root", "roach_test.go")]


def roach_stage(ctx, q):
    """The ROACH path (roach.go is one of C12's anchors): a scripted device sends packets over localhost UDP to a real
    RoachDevice; bundling into blocks is a matter of timing.  Per channel, (what was sent, what came out of the blocks)
    joins the unwrap trace, with a fresh unwrapper fed in one call as the split-independence reference.  Framing
    (frame numbers, block shapes) is validated by RoachTrace.tla as observations: no listed property speaks about it."""
    import re
    for cfg in ("RoachMC.cfg", "RoachMC3.cfg", "RoachDesignLoss.cfg") + (() if q else ("RoachMCBig.cfg",)):
        r = vlib.run_tlc(ctx, "RoachIngest", cfg, workers=8, timeout=900)
        if not r.ok:
            raise vlib.MachineryError("RoachIngest %s: %s" % (cfg, r.violated))
    r = vlib.run_tlc(ctx, "RoachIngest", "RoachAsCodeLoss.cfg", workers=4, timeout=600)
    ctx.notes["roach_model_as_code_with_loss"] = {"violated": r.violated, "meaning": "named deviation FirstPacketOnly: a loss inside a bundle is neither reported nor reflected in frame numbers (design observation outside the listed properties)"}
    tp = ctx.path("roach.ndjson")
    rc, out = vlib.go_test(ctx, "", ROACH, "TestVerifRoach$|TestVerifAbacoGroupUnwrap$", env={"VERIF_OUT": tp, "VERIF_NRANDOM": 12 if q else 60}, timeout=1500)
    if rc != 0:
        raise vlib.MachineryError("roach driver failed:\n" + out[-3000:])
    ev = vlib.read_ndjson(tp)
    if any(e["ev"] == "RoachSkip" for e in ev):
        ctx.notes["roach_skipped_scenarios"] = sum(1 for e in ev if e["ev"] == "RoachSkip")
    ro = [e for e in ev if e["ev"].startswith("Roach")]
    if not any(e["ev"] == "RoachBlock" for e in ro):
        raise vlib.MachineryError("roach driver produced no block")
    rp = ctx.path("roach_blocks.ndjson")
    vlib.write_ndjson(rp, ro)
    vlib.validate_trace(ctx, "RoachTrace", "RoachTrace.cfg", rp, timeout=600)
    obs = re.findall(r'^<<"OBS", (\d+), "([^"]+)", (\d+)>>$', ctx.last_tlc_out, re.M)
    cnt = {}
    for _, pred, _ in obs:
        cnt[pred] = cnt.get(pred, 0) + 1
    ctx.notes["roach_framing_observations"] = cnt or "none"
    for pred, n in sorted(cnt.items()):
        if not pred.startswith("DEV_"):
            print("OBSERVATION (ROACH framing, outside the listed properties): %s x%d" % (pred, n))
    return [e for e in ev if not e["ev"].startswith("Roach")]


def run(ctx):
    q = ctx.quick()
    for cfg in ("PhaseUnwrapMC1.cfg", "PhaseUnwrapMC2.cfg", "PhaseUnwrapMC3.cfg", "PhaseUnwrapMC4.cfg"):
        r = vlib.run_tlc(ctx, "PhaseUnwrap", cfg, workers=8, timeout=900)
        if not r.ok:
            ctx.notes.setdefault("model_counterexamples", []).append({"cfg": cfg, "violated": r.violated, "last": [st.get("act") for st in r.error_trace][-4:]})
    rng = random.Random(ctx.seed + 12)
    scens = structured(rng)
    sp = ctx.path("scen.json")
    json.dump(scens, open(sp, "w"))
    tp = ctx.path("trace.ndjson")
    nrandom = 300 if q else 6000
    rc, out = vlib.go_test(ctx, "", HARNESS, "TestVerifPhase$", env={"VERIF_SCEN": sp, "VERIF_OUT": tp, "VERIF_NRANDOM": nrandom}, timeout=1200)
    if rc != 0:
        raise vlib.MachineryError("phase driver failed:\n" + out[-3000:])
    events = vlib.read_ndjson(tp) + roach_stage(ctx, q)
    vlib.write_ndjson(tp, events)
    viols, done = vlib.validate_trace(ctx, "PhaseUnwrapTrace", "PhaseUnwrapTrace.cfg", tp, heap="16g", timeout=2400, xss=True)
    scs, cur = [], None
    for i, e in enumerate(events):
        if e["ev"] == "Config":
            cur = {"first": i + 1, "cfg": e, "events": []}
            scs.append(cur)
        cur["events"].append(e)
    for s in scs:
        runs = [e for e in s["events"] if e["ev"] == "Run"]
        wraps = 0
        if runs and s["cfg"]["enable"] and s["cfg"]["drop"] > 0:
            two = 1 << (s["cfg"]["frac"] - s["cfg"]["drop"])
            o = runs[0]["out"]
            i_ = runs[0]["inp"]
            offs = {(o[k] - ((i_[k] if not s["cfg"]["invert"] else 65535 - i_[k]) % (1 << s["cfg"]["frac"]) >> s["cfg"]["drop"])) % 65536 for k in range(len(o))}
            wraps = len(offs)
        if s["cfg"].get("origin") == "roach":
            ctx.notes["roach_channel_streams"] = ctx.notes.get("roach_channel_streams", 0) + 1
        vlib.add_case(ctx, [s["cfg"]["frac"], s["cfg"]["drop"], s["cfg"]["bias"], s["cfg"]["resetafter"], s["cfg"]["invert"], runs[0]["inp"] if runs else []],
                      nontrivial=wraps > 1)
    ctx.samples = [{"params": {k: s["cfg"][k] for k in ("frac", "drop", "enable", "bias", "resetafter", "pulsepos", "invert")},
                    "inp": s["events"][1]["inp"][:12] if len(s["events"]) > 1 and s["events"][1]["ev"] == "Run" else [],
                    "out": s["events"][1]["out"][:12] if len(s["events"]) > 1 and s["events"][1]["ev"] == "Run" else []} for s in scs[:3]]
    ctx.notes["sequences"] = len(scs)
    ctx.notes["runs_incl_splits"] = sum(1 for e in events if e["ev"] == "Run")
    for v in viols:
        s = [x for x in scs if x["first"] <= v["line"]][-1]
        e = s["events"][v["line"] - s["first"]]
        sig = {"predicate": v["predicate"], "enable": s["cfg"]["enable"], "invert": s["cfg"]["invert"]}
        if s["cfg"].get("origin") in ("roach", "abaco-group"):
            sig["via"] = s["cfg"]["origin"]
        vlib.report_violation(ctx, sig, {"config": s["cfg"], "run": {k: (e[k] if k == "split" else e[k][:300]) for k in ("split", "inp", "out") if k in e}})
    return vlib.finish(ctx, LEVEL,
                       "case = (option set, 16-bit input sequence, splits into calls); distinct by hash; non-trivial = the output used at least two different offsets (a wrap was removed or a reset happened)",
                       ["the exhaustive model uses a 6-7 bit word (all inputs, all sequence lengths, since the unwrapper's state is finite); the 16-bit code is covered by the traces",
                        "'between resets': a step is exempt from the range predicate only when a reset was due (offset back at home after at least resetAfter samples away)",
                        "the bias is computed in the trace spec from the constructor argument (configured bias), Go int16 arithmetic; generators keep |bias| below half a quantum as every real configuration does"])


def replay(ctx, path):
    return run(ctx)
