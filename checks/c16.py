"""C16 — status replay and configuration persistence are complete and crash-safe."""
import json
import os
import vlib

LEVEL = "model_checking"
ROOT = [os.path.join(vlib.HARNESS, "root", f) for f in ("common_test.go", "status_test.go", "lifecycle_test.go", "requests_test.go")]
CMD = [os.path.join(vlib.HARNESS, "cmddastard", "startup_test.go")]
CRASH_AT_PC = {1: (1, False), 2: (2, True), 3: (2, False), 4: (3, False), 5: (4, False)}


def scen_from_acts(acts, origin, vseed=7):
    """Status.tla behaviour -> (save-driver scenario, replay-driver scenario)."""
    steps, rsteps = [], []
    main0 = "empty"
    insave = False
    for a in acts:
        k = a["a"]
        if k == "Init":
            main0 = "conf" if a.get("main0", "empty") == "conf" else "empty"
        elif k == "Publish":
            steps.append({"k": "pub", "t": a["t"], "v": a["v"]})
            rsteps.append({"k": "pub", "t": a["t"], "v": a["v"]})
        elif k == "SendAll":
            rsteps.append({"k": "sendall"})
        elif k == "SaveSet":
            insave = True
        elif k == "RenameTmp":
            steps.append({"k": "save", "crash": 0})
            insave = False
        elif k == "CrashRestart":
            if a["at"] in CRASH_AT_PC and insave:
                c, part = CRASH_AT_PC[a["at"]]
                steps.append({"k": "save", "crash": c, "partial": part})
            steps.append({"k": "restart"})
            insave = False
    if insave:
        steps.append({"k": "save", "crash": 0})
    if not steps or steps[-1]["k"] != "restart":
        steps.append({"k": "restart"})
    if not rsteps or rsteps[-1]["k"] != "sendall":
        rsteps.append({"k": "sendall"})
    return ({"origin": origin, "main0": main0, "steps": steps, "vseed": vseed},
            {"origin": origin, "main0": "empty", "steps": rsteps, "vseed": vseed})


def handmade():
    pubs = [{"k": "pub", "t": t, "v": 1} for t in ("TRIANGLE", "SIMPULSE", "LANCERO", "ABACO", "ROACH", "STATUS", "WRITING", "TRIGGER", "TESMAPFILE", "MIX", "ALIVE")]
    out = []
    for main0 in ("empty", "conf"):
        for crash in (0, 1, 2, 3, 4):
            for partial in ((False, True) if crash == 2 else (False,)):
                out.append({"origin": "hand:crash%d%s:%s" % (crash, "p" if partial else "", main0), "main0": main0, "vseed": 11 + crash,
                            "steps": pubs + [{"k": "save", "crash": crash, "partial": partial}, {"k": "restart"},
                                             {"k": "pub", "t": "STATUS", "v": 2}, {"k": "save", "crash": 0}, {"k": "restart"}]})
    return out


def replay_hand():
    p = lambda t, v: {"k": "pub", "t": t, "v": v}
    return [
        {"origin": "hand:replay-timed-save", "main0": "empty", "vseed": 5,
         "steps": [p("NEWDASTARD", 1), p("STATUS", 1), p("TRIANGLE", 1), p("STATUS", 2), p("ALIVE", 1), p("STATUS", 2), {"k": "sendall"},
                   p("TRIGGER", 1), p("WRITING", 1), p("ALIVE", 2), p("TRIGGER", 1), p("STATUS", 1), {"k": "sendall"},
                   {"k": "wait"}, {"k": "sendall"}, {"k": "restart"}]},
        # a change arms the delayed save; before it fires, persistent topics are repeated with UNCHANGED values (a client
        # connecting and asking for all status does that): the change must still reach the file
        {"origin": "hand:replay-unchanged-repeat", "main0": "empty", "vseed": 6,
         "steps": [p("STATUS", 1), p("TRIANGLE", 1), p("WRITING", 1), {"k": "wait"},
                   p("TRIANGLE", 2), p("STATUS", 1), p("WRITING", 1), p("TRIANGLE", 2), {"k": "sendall"},
                   {"k": "wait"}, {"k": "restart"}]},
    ]


def split(events):
    scs, cur = [], None
    for i, e in enumerate(events):
        if e["ev"] == "Start":
            cur = {"id": e["scen"], "first": i + 1, "cfg": e, "events": []}
            scs.append(cur)
        cur["events"].append(e)
    return scs


def run_all(ctx, scens, rscens, nrandom):
    snap = ctx.path("snaps")
    os.makedirs(snap, exist_ok=True)
    sp = ctx.path("scen_save.json")
    json.dump(scens, open(sp, "w"))
    tp = ctx.path("trace_save.ndjson")
    rc, out = vlib.go_test(ctx, "", ROOT, "TestVerifStatusSave$", env={"VERIF_SCEN": sp, "VERIF_OUT": tp, "VERIF_NRANDOM": nrandom, "VERIF_SNAPDIR": snap}, timeout=1200)
    if rc != 0:
        raise vlib.MachineryError("status save driver failed:\n" + out[-3000:])
    # end to end: real SourceControl + real RunClientUpdater, the file after the updater's own delayed save; the session
    # with refused configuration requests leaves its configuration directory among the snapshots that are started for real
    tp3 = ctx.path("trace_e2e.ndjson")
    rc, out = vlib.go_test(ctx, "", ROOT, "TestVerifStatusE2E$",
                           env={"VERIF_OUT": tp3, "VERIF_REAL_CLIENTUPDATER": 1, "VERIF_SNAPDIR": snap}, timeout=600)
    if rc != 0:
        raise vlib.MachineryError("status end-to-end driver failed:\n" + out[-3000:])
    e2e = vlib.read_ndjson(tp3)
    rp = ctx.path("real.ndjson")
    rc, out = vlib.go_test(ctx, "cmd/dastard", CMD, "TestVerifStartup$", timeout=2400,
                           env={"VERIF_OUT": rp, "VERIF_SNAPDIR": snap, "VERIF_NREAL": 10 if ctx.quick() else 80})
    if rc != 0:
        raise vlib.MachineryError("start-up harness failed:\n" + out[-3000:])
    real = {r["snap"]: r for r in vlib.read_ndjson(rp)}
    events = vlib.read_ndjson(tp)
    nreal = 0
    for e in events:
        if e["ev"] == "Restart":
            r = real.get(e.get("snap"))
            if r is None:
                raise vlib.MachineryError("no separate-process restart for snapshot %s" % e.get("snap"))
            if r.get("kind") == "panic":
                r = {"kind": "bad", "h": "", "restored": {}, "err": r.get("err")}
            e["real"] = {"kind": r["kind"], "h": r.get("h", ""), "restored": r.get("restored") or {}}
            e["hasreal"] = True
            nreal += 1
            if r.get("fullstart"):
                ctx.notes["complete_startups_in_own_process"] = ctx.notes.get("complete_startups_in_own_process", 0) + 1
                if r.get("fullpanic"):
                    ctx.notes.setdefault("complete_startup_panics", []).append(str(r.get("fullpanic"))[:200])
    ctx.notes["separate_process_restarts"] = nreal
    nsave = max([e["scen"] for e in events if e["ev"] == "Start"] or [0])
    if rscens:
        sp2 = ctx.path("scen_replay.json")
        json.dump(rscens, open(sp2, "w"))
        tp2 = ctx.path("trace_replay.ndjson")
        rc, out = vlib.go_test(ctx, "", ROOT, "TestVerifStatusReplay$", env={"VERIF_SCEN": sp2, "VERIF_OUT": tp2, "VERIF_REAL_CLIENTUPDATER": 1}, timeout=1200)
        if rc != 0:
            raise vlib.MachineryError("status replay driver failed:\n" + out[-3000:])
        for e in vlib.read_ndjson(tp2):
            if e["ev"] == "Start":
                e["scen"] += nsave
            if e["ev"] == "Restart":
                e["hasreal"] = False
                e["real"] = {"kind": "none", "h": "", "restored": {}}
            events.append(e)
    for e in e2e:
        if e.get("snap"):
            r = real.get(e["snap"])
            if r is None or not r.get("fullstart"):
                raise vlib.MachineryError("no complete start-up for the end-to-end snapshot %s" % e["snap"])
            e["startup"] = {"panic": str(r.get("fullpanic") or ""), "restored": r.get("restored") or {}}
    ctx.notes["end_to_end_sessions"] = len(e2e)
    ctx.notes["end_to_end_sessions_restarted_for_real"] = sum(1 for e in e2e if "startup" in e)
    events.extend(e2e)
    mp = ctx.path("trace_all.ndjson")
    vlib.write_ndjson(mp, events)
    viols, done = vlib.validate_trace(ctx, "StatusTrace", "StatusTrace.cfg", mp, heap="8g", timeout=1800)
    return events, viols


def judge(ctx, events, viols, allscens):
    scs = split(events)
    for s in scs:
        crashes = [e["crash"] for e in s["events"] if e["ev"] == "Save"]
        key = [[(e["ev"], e.get("t"), e.get("v"), e.get("crash"), e.get("partial")) for e in s["events"]], s["cfg"].get("main0")]
        vlib.add_case(ctx, key, nontrivial=any(c > 0 for c in crashes) or any(e["ev"] == "SendAll" for e in s["events"]))
    ctx.samples = [{"origin": s["cfg"].get("origin"), "main0": s["cfg"].get("main0"),
                    "steps": [[e["ev"], e.get("t"), e.get("v"), e.get("crash")] for e in s["events"]][:14]} for s in scs[:3]]
    ctx.notes["saves"] = sum(1 for e in events if e["ev"] == "Save")
    ctx.notes["kills_injected"] = sum(1 for e in events if e["ev"] == "Save" and e["crash"] > 0)
    ctx.notes["sendall_replays"] = sum(1 for e in events if e["ev"] == "SendAll")
    for v in viols:
        s = [x for x in scs if x["first"] <= v["line"]][-1]
        idx = v["line"] - s["first"]
        e = s["events"][idx]
        sig = {"predicate": v["predicate"], "event": e["ev"]}
        if e["ev"] == "E2E":
            sig["variant"] = e.get("variant")
        if e["ev"] == "Restart":
            prev = [p for p in s["events"][:idx] if p["ev"] == "Save"]
            sig["crash"] = prev[-1]["crash"] if prev else -1
            sig["read_kind"] = e["read"]["kind"]
        sc = allscens[s["id"] - 1] if s["id"] - 1 < len(allscens) else {"seeded": True, "events": s["events"][:40]}
        vlib.report_violation(ctx, sig, sc)


def run(ctx):
    q = ctx.quick()
    scens, rscens = [], []
    r = vlib.run_tlc(ctx, "Status", "StatusMC.cfg" if q else "StatusMCBig.cfg", workers=16, timeout=3000, heap="24g")
    if r.violated:
        acts = [st["act"] for st in r.error_trace if "act" in st]
        s, rs = scen_from_acts(acts, "model-counterexample:" + r.violated)
        scens.append(s)
        rscens.append(rs)
        ctx.notes["model_counterexample"] = {"invariant": r.violated, "actions": acts}
    rc = vlib.run_tlc(ctx, "Status", "StatusAsCode.cfg", workers=8, timeout=900)
    if rc.violated:
        acts = [st["act"] for st in rc.error_trace if "act" in st]
        for m0 in ("empty", "conf"):
            s, _ = scen_from_acts([{"a": "Init", "main0": m0}] + acts[1:], "deviation:SaveMovesMain:" + rc.violated)
            scens.append(s)
    scens.extend(handmade())
    rs = vlib.run_tlc(ctx, "StatusSim", "StatusSim.cfg", workers=1, simulate="num=%d" % (60 if q else 600), depth=26)
    seen = set()
    nrep = 0
    for s in vlib.printed_json(rs.out, "SCEN"):
        k = json.dumps(s["steps"], sort_keys=True)
        if k in seen:
            continue
        seen.add(k)
        a, b = scen_from_acts(s["steps"], "tlc-simulate", vseed=len(seen))
        scens.append(a)
        if nrep < (5 if q else 40) and sum(1 for x in b["steps"] if x["k"] == "sendall") >= 2:
            rscens.append(b)
            nrep += 1
    rscens.extend(replay_hand())
    nrandom = 150 if q else 3000
    ctx.notes["scenarios_from_model"] = len(scens)
    ctx.notes["scenarios_random"] = nrandom
    ctx.notes["replay_sessions"] = len(rscens)
    events, viols = run_all(ctx, scens, rscens, nrandom)
    judge(ctx, events, viols, scens)
    return vlib.finish(ctx, LEVEL,
                       "scenario = publication history + saves with a kill point + restarts (save driver) or publication/SENDALL history over ZMQ (replay driver); distinct by hash; non-trivial = a kill was injected during a save or a SENDALL replay was checked",
                       ["a kill is simulated by returning from saveState at a vcrash point (file-system state is what a kill leaves; a partially written tmp file is simulated by truncation); no power-loss/fsync semantics",
                        "the save driver applies RunClientUpdater's remember rule itself and calls saveState directly; the real loop (ZMQ, delayed save) is exercised by the replay sessions",
                        "every snapshot is re-read by the real makeFileExist/setupViper in a separate process; the UnmarshalKey calls of RunRPCServer/PrepareRun are replicated",
                        "nil and empty lists are identified; the edge-multi switch is exempt from the round trip (cleared on purpose at start-up)",
                        "NEWDASTARD is treated as an event, not a status topic (never replayed, by design)"],
                       exhaustive=False)


def replay(ctx, path):
    with open(path) as f:
        obj = json.load(f)
    sc = obj["replay"]
    if sc.get("seeded"):
        raise vlib.MachineryError("seeded scenario: re-run with the same VERIF_SEED")
    if any(s["k"] == "sendall" for s in sc["steps"]):
        events, viols = run_all(ctx, [], [sc], 0)
    else:
        events, viols = run_all(ctx, [sc], [], 0)
    judge(ctx, events, viols, [sc])
    return vlib.finish(ctx, LEVEL, "replay of one recorded scenario", [])
