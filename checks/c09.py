"""C09 — group triggers deliver exactly the connected secondaries; edits act as a set."""
import json
import random
import vlib
import streamgen
import stream_common as sc

LEVEL = "model_checking"
PREFIXES = ["C09_"]
RULE = ("scenario = history of add/delete/stop-coupling requests with indices from -1..nchan (out-of-range, repeated, self) interleaved with "
        "data blocks whose pulses fire primaries on arbitrary channels; distinct by hash; non-trivial = at least one record and more than one block")


def conn_scenario(rng, origin="random-conn", edits=None):
    s = streamgen.random_scenario(rng, allow_conn=False, allow_ctrl=False)
    while s["nchan"] < 2:
        s = streamgen.random_scenario(rng, allow_conn=False, allow_ctrl=False)
    n = s["nchan"]
    out = []
    ei = 0
    for st in s["steps"]:
        if st["k"] == "block":
            if edits is not None:
                if ei < len(edits):
                    out.append(edits[ei])
                    ei += 1
            else:
                for _ in range(rng.choice([0, 0, 1, 1, 2])):
                    op = rng.choice(["add", "add", "add", "del", "stop"])
                    out.append({"k": "conn", "op": op, "s": rng.randint(-1, n), "r": rng.randint(-1, n)})
        out.append(st)
    s["steps"] = out
    s["origin"] = origin
    return s


def run(ctx):
    q = ctx.quick()
    r = vlib.run_tlc(ctx, "Broker", "BrokerMC.cfg", workers=16)
    if not r.ok:
        raise vlib.MachineryError("Broker model (validated variant) not clean: %s" % r.violated)
    ra = vlib.run_tlc(ctx, "Broker", "BrokerAsCode.cfg", workers=4)
    rng = random.Random(ctx.seed + 2000)
    scens = []
    if ra.violated:
        acts = [st["act"] for st in ra.error_trace if st.get("act", {}).get("a") in ("add", "del", "stop")]
        edits = [{"k": "conn", "op": a["a"], "s": a.get("s", 0), "r": a.get("r", 0)} for a in acts]
        scens.append(conn_scenario(rng, "model-counterexample", edits))
        ctx.notes["as_code_counterexample"] = acts
    n = 200 if q else 3000
    scens += [conn_scenario(rng) for _ in range(n)]
    ctx.notes["scenarios_random"] = n
    events, _ = sc.validate(ctx, scens, PREFIXES)
    ctx.notes["connection_requests"] = sum(1 for e in events if e["ev"] == "Conn")
    ctx.notes["cycles_with_connections"] = sum(1 for e in events if e["ev"] == "Cycle")
    return vlib.finish(ctx, LEVEL, RULE,
                       ["error/feedback coupling requests (Lancero only) are exercised by the C04 driver", "2-3 channels"])


def replay(ctx, path):
    return sc.replay(ctx, path, PREFIXES, LEVEL)
