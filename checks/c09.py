"""C09 — group triggers deliver exactly the connected secondaries; edits act as a set."""
import json
import os
import random
import vlib
import streamgen
import stream_common as sc

LEVEL = "model_checking"
PREFIXES = ["C09_"]
RULE = ("scenario = history of add/delete/stop-coupling requests with indices from -1..nchan (out-of-range, repeated, self) interleaved with "
        "data blocks whose pulses fire primaries on arbitrary channels; distinct by hash; non-trivial = at least one record and more than one block")


def conn_scenario(rng, origin="random-conn", edits=None):
    s = streamgen.random_scenario(rng, allow_conn=False, allow_ctrl=False)
    while s["nchan"] < 2:
        s = streamgen.random_scenario(rng, allow_conn=False, allow_ctrl=False)
    n = s["nchan"]
    out = []
    ei = 0
    for st in s["steps"]:
        if st["k"] == "block":
            if edits is not None:
                if ei < len(edits):
                    out.append(edits[ei])
                    ei += 1
            else:
                for _ in range(rng.choice([0, 0, 1, 1, 2])):
                    op = rng.choice(["add", "add", "add", "del", "stop"])
                    out.append({"k": "conn", "op": op, "s": rng.randint(-1, n), "r": rng.randint(-1, n)})
        out.append(st)
    s["steps"] = out
    s["origin"] = origin
    return s


def multi_rx_scenario(rng):
    """4-5 channels, several receivers with DIFFERENT source sets, every source firing at its own frames inside the same
    block (what one receiver gets must not depend on what another receiver gets)."""
    nchan = rng.choice([4, 5])
    npre, nsamp = 4, rng.choice([10, 16])
    nblocks = rng.choice([1, 2, 3])
    blen = rng.choice([6, 9]) * nsamp
    total = nblocks * blen
    data = []
    for c in range(nchan):
        xs = [1000 + 50 * c] * total
        # pulses (steps up, decaying) at channel-specific positions, at least 2 record lengths apart
        pos = rng.randrange(npre + 2, 3 * nsamp)
        while pos < total - nsamp:
            for i in range(pos, min(total, pos + nsamp)):
                xs[i] += int(400 * 0.8 ** (i - pos))
            pos += rng.randrange(2 * nsamp + 3, 4 * nsamp)
        data.append(xs)
    t = sc.edge_trig(level=150)
    steps = [{"k": "trig", "chans": list(range(nchan)), "t": t}]
    pairs = set()
    while len(pairs) < rng.choice([2, 3, 4]):
        a, b = rng.randrange(nchan), rng.randrange(nchan)
        if a != b:
            pairs.add((a, b))
    for a, b in sorted(pairs):
        steps.append({"k": "conn", "op": "add", "s": a, "r": b})
    for _ in range(nblocks):
        steps.append({"k": "block", "n": blen})
    return {"origin": "multi-receiver", "nchan": nchan, "npre": npre, "nsamp": nsamp, "signed": False, "period": 1000, "frame0": rng.choice([0, 1 << 33]),
            "start": "fresh", "trig": [t] * nchan, "steps": steps, "data": data, "oneblock": False}


def repoint_scenario(rng):
    """Every channel fires in every block; between blocks the connection set is edited so that its SIZE often returns to
    an earlier value while its content (in particular the set of receiving channels) differs: delete one pair and add
    another, stop everything and add as many pairs as before, swap the direction of a pair."""
    s = multi_rx_scenario(rng)
    nchan = s["nchan"]
    head = [st for st in s["steps"] if st["k"] != "block"]
    blen = [st for st in s["steps"] if st["k"] == "block"][0]["n"]
    nsamp = s["nsamp"]
    nblocks = rng.choice([3, 4, 5])
    total = nblocks * blen
    for c in range(nchan):       # extend the data: pulses at channel-specific positions all along
        xs = [1000 + 50 * c] * total
        pos = rng.randrange(s["npre"] + 2, 3 * nsamp)
        while pos < total - nsamp:
            for i in range(pos, min(total, pos + nsamp)):
                xs[i] += int(400 * 0.8 ** (i - pos))
            pos += rng.randrange(2 * nsamp + 3, 4 * nsamp)
        s["data"][c] = xs
    cur = {(st["s"], st["r"]) for st in head if st["k"] == "conn"}
    steps = list(head)
    for b in range(nblocks):
        steps.append({"k": "block", "n": blen})
        if b == nblocks - 1:
            break
        kind = rng.choice(["repoint", "repoint", "swap", "stop-readd", "none", "grow"])
        if kind == "repoint" and cur:
            a, r = rng.choice(sorted(cur))
            steps.append({"k": "conn", "op": "del", "s": a, "r": r})
            cur.discard((a, r))
            cand = [(x, y) for x in range(nchan) for y in range(nchan) if x != y and (x, y) not in cur and y != r]
            if cand:
                x, y = rng.choice(cand)
                steps.append({"k": "conn", "op": "add", "s": x, "r": y})
                cur.add((x, y))
        elif kind == "swap" and cur:
            a, r = rng.choice(sorted(cur))
            steps.append({"k": "conn", "op": "del", "s": a, "r": r})
            cur.discard((a, r))
            if (r, a) not in cur:
                steps.append({"k": "conn", "op": "add", "s": r, "r": a})
                cur.add((r, a))
        elif kind == "stop-readd":
            k = len(cur)
            steps.append({"k": "conn", "op": "stop", "s": 0, "r": 0})
            cur = set()
            while len(cur) < k:
                x, y = rng.randrange(nchan), rng.randrange(nchan)
                if x != y and (x, y) not in cur:
                    cur.add((x, y))
                    steps.append({"k": "conn", "op": "add", "s": x, "r": y})
        elif kind == "grow":
            x, y = rng.randrange(nchan), rng.randrange(nchan)
            steps.append({"k": "conn", "op": "add", "s": x, "r": y})
            if x != y:
                cur.add((x, y))
    s["steps"] = steps
    s["origin"] = "repoint"
    return s


def em_source_scenario(rng):
    """An edge-multi channel as group-trigger SOURCE of a channel without a trigger of its own (and of an edge-multi
    channel that never fires): edge-multi reports an edge found close to the end of a block only in the next cycle, with
    a frame inside the previous block, so the receivers' records reach back into retained history."""
    import c08
    s = c08.random_scen(rng)
    while len([st for st in s["steps"] if st["k"] == "block"]) < 3:
        s = c08.random_scen(rng)
    total = len(s["data"][0])
    t = s["trig"][0]
    off = streamgen.trig_off()
    s["nchan"] = 3
    s["data"] = [s["data"][0], [(2000 + (i * 7) % 31) for i in range(total)], [1500] * total]
    s["trig"] = [t, off, t]
    steps = [{"k": "trig", "chans": [0], "t": t}, {"k": "trig", "chans": [2], "t": t},
             {"k": "conn", "op": "add", "s": 0, "r": 1}, {"k": "conn", "op": "add", "s": 0, "r": 2}]
    steps += [st for st in s["steps"] if st["k"] == "block"]
    s["steps"] = steps
    s["oneblock"] = False
    s["origin"] = "edge-multi-source"
    return s


GR = [os.path.join(vlib.HARNESS, "root", f) for f in ("common_test.go", "lifecycle_test.go", "requests_test.go", "groupreport_test.go")]


def report_stage(ctx, q):
    """RPC layer: requests (also ones that mix valid and out-of-range pairs) through the real SourceControl methods on a
    running source; the latest GROUPTRIGGER update sent to clients vs the set in use (GroupReportTrace.tla)."""
    tp = ctx.path("groupreport.ndjson")
    rc, out = vlib.go_test(ctx, "", GR, "TestVerifGroupReport$", env={"VERIF_OUT": tp, "VERIF_NRANDOM": 25 if q else 1000}, timeout=1800)
    if rc != 0:
        raise vlib.MachineryError("group report driver failed:\n" + out[-3000:])
    tc = ctx.path("coupling.ndjson")
    rc, out = vlib.go_test(ctx, "", GR, "TestVerifCoupling$", env={"VERIF_OUT": tc, "VERIF_NRANDOM": 60 if q else 2000}, timeout=1800)
    if rc != 0:
        raise vlib.MachineryError("coupling driver failed:\n" + out[-3000:])
    vlib.write_ndjson(tp, vlib.read_ndjson(tp) + vlib.read_ndjson(tc))
    viols, done = vlib.validate_trace(ctx, "GroupReportTrace", "GroupReportTrace.cfg", tp, timeout=900)
    ev = vlib.read_ndjson(tp)
    ctx.notes["coupling_requests_on_lancero_object"] = sum(1 for e in ev if e["ev"] == "GReq" and e["op"] in ("fb2err", "err2fb", "none", "restart"))
    ctx.notes["rpc_group_requests"] = sum(1 for e in ev if e["ev"] == "GReq")
    ctx.notes["rpc_group_requests_mixed"] = sum(1 for e in ev if e["ev"] == "GReq" and not e["ok"] and e["op"] != "stop")
    for v in viols:
        e = ev[v["line"] - 1]
        k = v["line"] - 1
        while ev[k]["ev"] != "GBegin":
            k -= 1
        vlib.report_violation(ctx, {"predicate": v["predicate"], "event": "GReq", "op": e["op"], "ok": e["ok"], "layer": "rpc" if ev[k]["scen"] < 100000 else "lancero-object"},
                              {"history": ev[k:v["line"]]})


def run(ctx):
    q = ctx.quick()
    r = vlib.run_tlc(ctx, "Broker", "BrokerMC.cfg", workers=16)
    if not r.ok:
        raise vlib.MachineryError("Broker model (validated variant) not clean: %s" % r.violated)
    ra = vlib.run_tlc(ctx, "Broker", "BrokerAsCode.cfg", workers=4)
    rng = random.Random(ctx.seed + 2000)
    scens = []
    if ra.violated:
        acts = [st["act"] for st in ra.error_trace if st.get("act", {}).get("a") in ("add", "del", "stop")]
        edits = [{"k": "conn", "op": a["a"], "s": a.get("s", 0), "r": a.get("r", 0)} for a in acts]
        scens.append(conn_scenario(rng, "model-counterexample", edits))
        ctx.notes["as_code_counterexample"] = acts
    n = 200 if q else 12000
    scens += [conn_scenario(rng) for _ in range(n)]
    nm = 40 if q else 2500
    scens += [multi_rx_scenario(rng) for _ in range(nm)]
    ne = 60 if q else 2500
    scens += [em_source_scenario(rng) for _ in range(ne)]
    ctx.notes["scenarios_edge_multi_source"] = ne
    nr = 60 if q else 3000
    scens += [repoint_scenario(rng) for _ in range(nr)]
    ctx.notes["scenarios_repoint"] = nr
    ctx.notes["scenarios_multi_receiver"] = nm
    ctx.notes["scenarios_random"] = n
    events, _ = sc.validate(ctx, scens, PREFIXES)
    report_stage(ctx, q)
    ctx.notes["connection_requests"] = sum(1 for e in events if e["ev"] == "Conn")
    ctx.notes["cycles_with_connections"] = sum(1 for e in events if e["ev"] == "Cycle")
    return vlib.finish(ctx, LEVEL, RULE,
                       ["error/feedback coupling is exercised on a LanceroSource object without hardware (SetCoupling, group edits, restarts of the same object)", "2-5 channels"])


def replay(ctx, path):
    return sc.replay(ctx, path, PREFIXES, LEVEL)
