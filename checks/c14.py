"""C14 — published record and summary messages follow the documented binary layout."""
import os
import vlib

LEVEL = "exploration"
HARNESS = [os.path.join(vlib.HARNESS, "root", "common_test.go"), os.path.join(vlib.HARNESS, "root", "wire_test.go")]


def run(ctx):
    q = ctx.quick()
    tp = ctx.path("trace.ndjson")
    n = 300 if q else 60000
    rc, out = vlib.go_test(ctx, "", HARNESS, "TestVerifWire$", env={"VERIF_OUT": tp, "VERIF_NRANDOM": n, "VERIF_REAL_ZMQ": 1}, timeout=1800)
    if rc != 0:
        raise vlib.MachineryError("wire driver failed:\n" + out[-3000:])
    viols, done = vlib.validate_trace(ctx, "WireTrace", "WireTrace.cfg", tp, heap="24g", timeout=3000)
    events = vlib.read_ndjson(tp)
    for e in events:
        key = [e["kind"], e["via"], e["header"], len(e["payload"])]
        vlib.add_case(ctx, key, nontrivial=len(e["payload"]) > 0)
    ctx.samples = [{"kind": e["kind"], "via": e["via"], "header": e["header"], "payload_len": len(e["payload"])} for e in events[:3]]
    ctx.notes["messages"] = len(events)
    ctx.notes["received_over_zmq"] = sum(1 for e in events if e["via"] == "zmq")
    for v in viols:
        e = events[v["line"] - 1]
        vlib.report_violation(ctx, {"predicate": v["predicate"], "kind": e["kind"], "via": e["via"]}, {k: e[k] for k in e if k not in ("payload", "payload_expect")})
    return vlib.finish(ctx, LEVEL,
                       "case = one record with fields drawn from extreme values (channel 0..65535, lengths 0..5000, frames and times at the int64 limits, NaN/Inf analysis values, 0..40 coefficients), encoded by the real builders directly and behind a real PUB socket; distinct by hash of the produced header; non-trivial = non-empty payload",
                       ["layout tables copied from doc/BINARY_FORMATS.md (Wire.tla); field bytes computed independently with encoding/binary and math.Float32bits",
                        "ZMQ: loopback PUB/SUB, one message at a time"])


def replay(ctx, path):
    return run(ctx)
