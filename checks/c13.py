"""C13 — per-record analysis values equal their definitions."""
import json
import os
import vlib

LEVEL = "exploration"
HARNESS = [os.path.join(vlib.HARNESS, "root", "common_test.go"), os.path.join(vlib.HARNESS, "root", "analysis_test.go")]


def run(ctx):
    q = ctx.quick()
    r = vlib.run_tlc(ctx, "Analysis", "AnalysisGenQ.cfg" if q else "AnalysisGenT.cfg", workers=1, timeout=2400, heap="24g", dump_trace=False, xss=True)
    cases = vlib.printed_json(r.out, "CASES")
    pcases = vlib.printed_json(r.out, "PCASES")
    if not cases or not pcases:
        raise vlib.MachineryError("Analysis.tla printed no cases")
    sp = ctx.path("cases.json")
    json.dump({"cases": cases[0], "pcases": pcases[0]}, open(sp, "w"))
    tp = ctx.path("trace.ndjson")
    rc, out = vlib.go_test(ctx, "", HARNESS, "TestVerifAnalysis$", env={"VERIF_SCEN": sp, "VERIF_OUT": tp}, timeout=2400)
    if rc != 0:
        raise vlib.MachineryError("analysis driver failed:\n" + out[-3000:])
    # the model of a channel replaced while records are analysed, through the real RPC method on a running source
    tr = ctx.path("trace_reload.ndjson")
    rc, out = vlib.go_test(ctx, "", HARNESS, "TestVerifModelReload$", env={"VERIF_OUT": tr}, timeout=1200)
    if rc != 0:
        raise vlib.MachineryError("model reload driver failed:\n" + out[-3000:])
    rel = vlib.read_ndjson(tr)
    ctx.notes["records_analysed_during_model_reloads"] = sum(e["records"] for e in rel[-1:])
    vlib.write_ndjson(tp, vlib.read_ndjson(tp) + rel)
    viols, done = vlib.validate_trace(ctx, "AnalysisTrace", "AnalysisTrace.cfg", tp, heap="24g", timeout=3000)
    events = vlib.read_ndjson(tp)
    for e in events:
        vlib.add_case(ctx, [e["scen"]], nontrivial=e["n"] > 2)
    ctx.notes["definition_cases_from_spec"] = len(cases[0])
    ctx.notes["projector_cases_from_spec"] = len(pcases[0])
    ctx.notes["records_analysed"] = len(events)
    ctx.samples = [{"d": c["d"], "npre": c["npre"], "expected": c["exp"]} for c in cases[0][:3]]
    for v in viols:
        e = events[v["line"] - 1]
        sig = {"predicate": v["predicate"], "kind": e.get("kind", "definition"), "large_baseline": abs(e["base"]) >= 20000}
        vlib.report_violation(ctx, sig, e)
    return vlib.finish(ctx, LEVEL,
                       "case = one record (base + small offsets; signed/unsigned; bases at 0, mid-scale, full scale and the signed wrap) with the expected values computed exactly by Analysis.tla; plus cancellation cases (tiny RMS on a large base) and small integer projector/basis matrices; distinct by case; non-trivial = more than 2 samples",
                       ["TLC has no floating point: it produces the exact rationals, the driver compares in math/big with tolerance 1e-9 relative (to max(|value|, 1 count))",
                        "pulse RMS and residual standard deviation are compared as squares",
                        "a peak value clamped at 0 (never below the pre-trigger mean) is accepted as well as max - mean: the statement does not decide it",
                        "model reload stage: two integer-valued models of 100 bases x 1000 samples loaded alternately through SourceControl.ConfigureProjectorsBasis while a 1 MHz Triangle source triggers back to back; every record's coefficients and residual must belong to the same loaded model",
                        "large spreads (second moments beyond 32-bit integers) are not covered by the specification's enumeration"])


def replay(ctx, path):
    return run(ctx)
