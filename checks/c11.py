"""C11 — control requests: serialised with data, answered once, never wedge or crash."""
import json
import os
import vlib
import lifecycle_common as L
import lancerolife as LL

LEVEL = "model_checking"
PREFIXES = ("C11_",)
RQ = [os.path.join(vlib.HARNESS, "root", "common_test.go"), os.path.join(vlib.HARNESS, "root", "lifecycle_test.go"),
      os.path.join(vlib.HARNESS, "root", "requests_test.go")]


def requests_matrix(ctx):
    tp = ctx.path("trace_rq.ndjson")
    rc, out = vlib.go_test(ctx, "", RQ, "TestVerifRequests$", env={"VERIF_OUT": tp}, timeout=2400)
    events = vlib.read_ndjson(tp) if os.path.exists(tp) else []
    crashed = rc != 0
    if crashed:
        # the process died: the case that was running is the culprit (a panic outside the recover hooks)
        open_case = None
        for e in events:
            if e["ev"] == "Case":
                open_case = e
            elif e["ev"] == "CaseEnd":
                open_case = None
        if open_case is None or "panic" not in out:
            raise vlib.MachineryError("requests driver failed:\n" + out[-3000:])
        msg = [l for l in out.splitlines() if l.startswith("panic:")]
        # close the open case with synthetic events so that the trace is well-formed
        last = events[-1]["ev"]
        if last == "Case":
            events.append({"ev": "Ret", "returned": False, "err": "", "ms": 0})
        events.append({"ev": "Probe", "progress": False, "sentinel": "hang", "overlap": 0, "foreign": 0, "panics": ["process died: " + (msg[0] if msg else "?")]})
        events.append({"ev": "CaseEnd", "stopped": False})
        ctx.notes["process_died_in_case"] = {k: open_case[k] for k in ("timing", "kind", "arg")}
    vlib.write_ndjson(tp, events)
    viols, done = vlib.validate_trace(ctx, "RequestsTrace", "RequestsTrace.cfg", tp, heap="4g", timeout=900)
    cases, cur = [], None
    for i, e in enumerate(events):
        if e["ev"] == "Case":
            cur = {"first": i + 1, "case": e, "events": []}
            cases.append(cur)
        cur["events"].append(e)
    for c in cases:
        vlib.add_case(ctx, [c["case"]["timing"], c["case"]["kind"], c["case"]["arg"]], nontrivial=c["case"]["expect"] != "ok" or c["case"]["timing"] != "running")
    ctx.notes["request_cases"] = len(cases)
    ctx.notes["request_sample"] = [[c["case"]["timing"], c["case"]["kind"], c["case"]["arg"], c["case"]["expect"], c["events"][1].get("err", "")[:60] if len(c["events"]) > 1 else ""] for c in cases[:8]]
    for v in viols:
        c = [x for x in cases if x["first"] <= v["line"]][-1]
        e = c["events"][v["line"] - c["first"]]
        sig = {"predicate": v["predicate"], "timing": c["case"]["timing"], "kind": c["case"]["kind"], "arg": c["case"]["arg"]}
        vlib.report_violation(ctx, sig, {"request_case": c["case"], "observed": c["events"][1:]})


def run(ctx):
    q = ctx.quick()
    scens = []
    for cfg in (["LifecycleMC.cfg", "LifecycleErr.cfg"] if q else ["LifecycleMC.cfg", "LifecycleErr.cfg", "LifecycleBig.cfg"]):
        r = vlib.run_tlc(ctx, "Lifecycle", cfg, workers=16, timeout=3000, heap="24g")
        if r.violated:
            scens.append(L.scen_from_cex(r, cfg, "model-counterexample:%s:%s" % (cfg, r.violated)))
            ctx.notes.setdefault("model_counterexamples", []).append({"cfg": cfg, "property": r.violated})
    for cfg, tag in (("LifecycleAsCodeStale.cfg", "StaleFlag"), ("LifecycleAsCodeDouble.cfg", "DoubleSend")):
        r = vlib.run_tlc(ctx, "Lifecycle", cfg, workers=8, timeout=900)
        if r.violated:
            s = L.scen_from_cex(r, cfg, "deviation:%s:%s" % (tag, r.violated))
            if tag == "DoubleSend":
                continue   # needs an I/O failure inside the closure: exercised by the request matrix (comment/uncreatable)
            scens.append(s)
    r = vlib.run_tlc(ctx, "Lifecycle", "LifecyclePollOnce.cfg", workers=8, timeout=900)
    if r.violated:   # design variant: the waiting client looks at the source only once
        scens.extend([L.scen_from_cex(r, "LifecyclePollOnce.cfg", "deviation:PollOnce:%s" % r.violated)] * 2)
    scens += L.witness_scens(ctx, repeat=6 if q else 20)
    n = 40 if q else 400
    scens += L.sim_scens(ctx, "LifecycleSim.cfg", n)
    scens += L.sim_scens(ctx, "LifecycleSimErr.cfg", n // 2)
    ctx.notes["schedules"] = len(scens)
    L.validate(ctx, scens, PREFIXES)
    requests_matrix(ctx)
    LL.stage(ctx, PREFIXES)
    return vlib.finish(ctx, LEVEL,
                       "schedule = TLC behaviour of Lifecycle.tla replayed on the real code (clients issuing every request kind) + request matrix case = (arrival time, request kind, argument class[, I/O failure]); distinct by hash; non-trivial = concurrent callers with a request answered / an invalid-argument, no-source or I/O-failure case",
                       ["as C10 for the replay part",
                        "request matrix: Triangle source wrapped by a recorder (handlers vs ProcessSegments, goroutine identity); SourceControl.Start's tail replicated for the wrapper",
                        "expected outcome per argument class is taken from the property statement (error for no source / invalid arguments / I/O failure; result otherwise); classes the statement does not decide are 'any'",
                        "watchdog 2.5 s per request; the fire-and-forget mode of the state-label request is excluded as the property says",
                        "Lancero-only requests: on a non-Lancero source only their error replies; the mix-fraction request (the one request that does not go through the request rendezvous) on a real LanceroSource with a scripted card, at every arrival time of LanceroLifecycle.tla (before any start, running, racing Stop, after Stop, second run, silent card, malformed lists)"],
                       exhaustive=False)


def replay(ctx, path):
    with open(path) as f:
        obj = json.load(f)
    if "lancero_life" in obj.get("replay", {}):
        LL.stage(ctx, PREFIXES, only=obj["replay"]["lancero_life"])
        return vlib.finish(ctx, LEVEL, "replay of one recorded Lancero life-cycle history", [])
    if "request_case" in obj.get("replay", {}):
        requests_matrix(ctx)
        return vlib.finish(ctx, LEVEL, "re-run of the request matrix", [])
    return L.replay(ctx, path, PREFIXES, LEVEL)
