"""C19 — channel identity is unique and consistent everywhere it is reported."""
import itertools
import json
import os
import random
import vlib

LEVEL = "model_checking"
HARNESS = [os.path.join(vlib.HARNESS, "root", "common_test.go"), os.path.join(vlib.HARNESS, "root", "abaco_test.go"),
           os.path.join(vlib.HARNESS, "root", "chanid_test.go")]


def enumerate_lancero(quick, rng):
    # the order is the client's ActiveCards order, which need not be ascending
    devsets = [[0], [1], [0, 1], [1, 0], [0, 3], [3, 0], [1, 3], [0, 1, 3], [3, 0, 1], [1, 3, 0]]
    geoms = [(1, 1), (2, 3), (3, 2)] if quick else [(1, 1), (1, 3), (2, 2), (2, 3), (3, 2), (3, 3)]
    firsts = [-1, 0, 1, 5]
    sepcards = [-1, 0, 1, 4, 6, 9, 10] + ([] if quick else [8, 12, 18, 27])
    sepcols = [-1, 0, 1, 2, 3, 4] + ([] if quick else [5, 9])
    out = []
    for ds in devsets:
        for gs in itertools.product(geoms, repeat=len(ds)):
            for f in firsts:
                for sc in sepcards:
                    for sl in sepcols:
                        out.append({"kind": "lancero", "origin": "enumerated", "first": f, "sepcards": sc, "sepcols": sl,
                                    "devs": [{"devnum": d, "ncols": g[0], "nrows": g[1]} for d, g in zip(ds, gs)]})
    if quick:
        rng.shuffle(out)
        out = out[:4000]
    return out


def enumerate_abaco():
    out = []
    layouts = [(0, 1), (0, 2), (1, 2), (2, 2), (3, 1), (4, 3)]
    for k in (1, 2, 3):
        for combo in itertools.permutations(layouts, k):
            out.append({"kind": "abaco", "origin": "enumerated", "groups": [{"first": a, "nch": b} for a, b in combo]})
    return out


def run(ctx):
    q = ctx.quick()
    r = vlib.run_tlc(ctx, "ChannelId", "ChannelIdMC.cfg" if q else "ChannelIdMCBig.cfg", workers=16, timeout=3000, heap="24g")
    if r.violated:
        ctx.notes["model_counterexample"] = {"invariant": r.violated, "cfg": [st.get("cfg") for st in r.error_trace][-1:]}
    rk = vlib.run_tlc(ctx, "ChannelId", "ChannelIdKeepGroups.cfg", workers=4, timeout=600)
    ctx.notes["model_design_variant_keep_groups"] = {"violated": rk.violated, "meaning": "without the reset of the group list at the top of PrepareChannels a second call on the same object (Start retried after a failure behind PrepareChannels) reports every group twice"}
    rl = vlib.run_tlc(ctx, "ChannelId", "ChannelIdSkipLast.cfg", workers=8, timeout=900)
    ctx.notes["model_design_variant_skip_last_card"] = {"violated": rl.violated, "meaning": "exempting the last listed card from the card-separation check collides as soon as the cards are not listed in ascending order"}
    rng = random.Random(ctx.seed + 19)
    scens = enumerate_lancero(q, rng) + enumerate_abaco()
    scens += [{"kind": k, "origin": "enumerated", "nchan": n} for k in ("roach", "simple") for n in (1, 2, 7, 64)]
    sp = ctx.path("scen.json")
    json.dump(scens, open(sp, "w"))
    tp = ctx.path("trace.ndjson")
    nrandom = 300 if q else 5000
    rc, out = vlib.go_test(ctx, "", HARNESS, "TestVerifChanID$", env={"VERIF_SCEN": sp, "VERIF_OUT": tp, "VERIF_NRANDOM": nrandom}, timeout=1800)
    if rc != 0:
        raise vlib.MachineryError("channel-id driver failed:\n" + out[-3000:])
    viols, done = vlib.validate_trace(ctx, "ChannelIdTrace", "ChannelIdTrace.cfg", tp, heap="24g", timeout=3000)
    events = vlib.read_ndjson(tp)
    acc = sum(1 for e in events if e["accepted"])
    ctx.notes["configurations"] = len(events)
    ctx.notes["accepted"] = acc
    ctx.notes["rejected"] = len(events) - acc
    for e in events:
        vlib.add_case(ctx, [e["kind"], e.get("cfg")], nontrivial=e["accepted"] and len(e["table"]) > 2)
    ctx.samples = [{"kind": e["kind"], "cfg": e.get("cfg"), "accepted": e["accepted"], "numbers": [t["num"] for t in e["table"]][:16], "groups": e["groups"][:6]} for e in events[:3]]
    for v in viols:
        e = events[v["line"] - 1]
        sig = {"predicate": v["predicate"], "kind": e["kind"]}
        if e.get("origin", "").endswith("/again"):
            sig["history"] = "second PrepareChannels on the same object"
        vlib.report_violation(ctx, sig, {"config": e.get("cfg"), "kind": e["kind"], "table": e["table"][:40], "groups": e["groups"]})
    # "file headers carry the same identity as status messages": write-control histories on a real AnySource, half of them
    # with a source of mixed geometry; every written file's header is decoded (WriteControlTrace.tla, C19_header_identity)
    import wc_common as wc
    wevents, wviols = wc.model_and_traces(ctx, ["C19_"])
    ctx.notes["files_with_headers_decoded"] = sum(1 for e in wevents if e["ev"] == "File" and e.get("exists"))
    wc.judge(ctx, wevents, wviols, lambda s, idx, e: {"event": e["ev"], "layer": "file-header", "type": e.get("t", "")})
    return vlib.finish(ctx, LEVEL,
                       "case = one source configuration (Lancero: active device numbers, geometry per device, first-row number, card and column separations incl. 0 / negative / too small; Abaco: group layouts incl. overlaps and holes; Roach / simulated: channel count); distinct by hash; non-trivial = accepted with more than two data streams",
                       ["the exhaustive TLC model is the transcription of the Lancero numbering and its validation; the real PrepareChannels / Sample overlap check is run on the enumerated and seeded configurations and judged declaratively",
                        "file names are derived from the channel names (distinct names => distinct files); header identity and geometry are decoded from files written by write-control histories on sources of uniform and of mixed geometry",
                        "fake devices: only the fields PrepareChannels reads are filled"], exhaustive=not q)


def replay(ctx, path):
    return run(ctx)
