"""C20 — run-log side files record every event exactly once, in order."""
import vlib
import wc_common as wc

LEVEL = "model_checking"
PREFIXES = ["C20_"]
RULE = ("scenario = write-control history interleaved with blocks carrying external-trigger lists (0-2 counts) and drop "
        "counts; distinct by hash; non-trivial = an accepted START and at least one block")


def sig(s, idx, e):
    return {"event": e["ev"]}


def run(ctx):
    events, viols = wc.model_and_traces(ctx, PREFIXES)
    wc.judge(ctx, events, viols, sig)
    nb = sum(1 for e in events if e["ev"] == "Block" and (e["ext"] or e["drop"]))
    ctx.notes["blocks_with_ext_or_drop"] = nb
    return vlib.finish(ctx, LEVEL, RULE,
                       ["side files are read back after STOP", "timestamps in the state file are only required to be non-decreasing"])


def replay(ctx, path):
    return wc.replay(ctx, path, PREFIXES, sig, LEVEL)
