"""Shared machinery of C10 / C11: Lifecycle.tla model checking, behaviour generation, the gated replay driver and
LifecycleTrace.tla validation."""
import json
import re
import os
import vlib

HARNESS = [os.path.join(vlib.HARNESS, "root", "common_test.go"), os.path.join(vlib.HARNESS, "root", "lifecycle_test.go")]
REQKINDS = ["trigger", "pulselengths", "coupling", "grouptrigger", "statelabel", "writecontrol", "comment"]


def cfg_const(cfg, name):
    with open(os.path.join(vlib.SPEC, cfg)) as f:
        for line in f:
            line = line.strip()
            if line.startswith("CONSTANTS"):
                line = line[len("CONSTANTS"):].strip()
            if line.startswith(name + " ="):
                return line.split("=", 1)[1].strip()
    return None


def obs_from_state(st):
    """TLC error-trace state -> the observation record LifecycleSim would have produced."""
    stoppers = list(st["kpc"].keys()) if isinstance(st["kpc"], dict) else []
    allret = all(st["kpc"][s] == "returned" for s in stoppers)
    someok = any(st["kres"][s] == "ok" for s in stoppers)
    samegen = all(st["kgen"][s] == st["gen"] for s in stoppers)
    return {"act": st["act"], "st": st["st"], "flag": st["flag"], "cpc": st["cpc"], "ppc": st["ppc"],
            "afterstops": bool(allret and someok and st["spc"] in ("done", "failed") and samegen), "quiet": st["st"] == "Active"}


def scen_from_steps(steps, producer, origin, kinds=None):
    steps = [s for s in steps if s["act"]["a"] != "Init"]
    return {"origin": origin, "producer": producer, "steps": steps, "reqkinds": kinds or ["trigger", "pulselengths"]}


def scen_from_cex(r, cfg, origin):
    prod = (cfg_const(cfg, "ProducerKind") or '"simple"').strip('"')
    return scen_from_steps([obs_from_state(st) for st in r.error_trace if "act" in st], prod, origin)


def sim_scens(ctx, cfg, n, depth=41, kinds_cycle=True):
    rs = vlib.run_tlc(ctx, "LifecycleSim", cfg, workers=1, simulate="num=%d" % n, depth=depth)
    prod = (cfg_const(cfg, "ProducerKind") or '"simple"').strip('"')
    out, seen = [], set()
    for s in vlib.printed_json(rs.out, "SCEN"):
        k = json.dumps([x["act"] for x in s["steps"]], sort_keys=True)
        if k in seen:
            continue
        seen.add(k)
        i = len(seen)
        kinds = [REQKINDS[i % len(REQKINDS)], REQKINDS[(i // 2 + 3) % len(REQKINDS)]] if kinds_cycle else None
        if kinds and i % 3 == 0:
            kinds[0] = "writecontrol"   # c1 is the model's write client
        out.append(scen_from_steps(s["steps"], prod, "tlc-simulate:" + cfg, kinds))
    return out


GOALS = ["NotG1", "NotG2", "NotG3", "NotG4", "NotG5", "NotG6", "NotG7", "NotG8", "NotG9", "NotG10", "NotG11", "NotG12", "NotG13", "NotG14"]


def witness_scens(ctx, producers=("simple", "erroring"), repeat=6):
    """One shortest behaviour per reachability goal (TLC 'violates' the negated goal), repeated because the free-running
    continuation after the witness is scheduled by the Go runtime."""
    out = []
    for prod in producers:
        for g in GOALS:
            cfgtxt = ("SPECIFICATION Spec\nCONSTANTS Stoppers = {\"s1\", \"s2\"}\n Clients = {\"c1\", \"c2\"}\n ProducerKind = \"%s\"\n MaxBlocks = 2\n"
                      " MaxRuns = 2\n StartMayFail = {}\n RPCLayer = TRUE\n StaleFlag = FALSE\n DoubleSend = FALSE\n SharedWaitGroup = FALSE\n"
                      " Replayable = TRUE\n WriteClients = {\"c1\"}\n WritingOutlivesRun = FALSE\n StopCheckThenAct = FALSE\n MaxPolls = 1\n PollOnce = FALSE\nINVARIANTS %s\nCHECK_DEADLOCK FALSE\n" % (prod, g))
            r = vlib.run_tlc(ctx, "Lifecycle", "Blank.cfg", workers=8, extra_files={"Blank.cfg": cfgtxt}, timeout=600)
            if r.violated:
                steps = [obs_from_state(st) for st in r.error_trace if "act" in st]
                # client c1 is the model's write client: every second copy asks for WriteControl(START), the others for triggers
                for k in range(repeat):
                    kinds = ["writecontrol", "trigger"] if (k % 2 == 0 or g == "NotG13") else None
                    out.append(scen_from_steps(steps, prod, "witness:%s:%s" % (g, prod), kinds))
    return out


UDP = HARNESS + [os.path.join(vlib.HARNESS, "root", "abaco_udp_test.go"), os.path.join(vlib.HARNESS, "root", "roach_test.go")]


def run_driver(ctx, scens, tag="t", udp=False):
    sp = ctx.path("scen_%s.json" % tag)
    json.dump(scens, open(sp, "w"))
    tp = ctx.path("trace_%s.ndjson" % tag)
    events, skip = [], 0
    for attempt in range(8):
        tpi = ctx.path("trace_%s_part%d.ndjson" % (tag, attempt))
        rc, out = vlib.go_test(ctx, "", HARNESS, "TestVerifLifecycle$", env={"VERIF_SCEN": sp, "VERIF_OUT": tpi, "VERIF_SKIP": skip}, timeout=2400)
        part = vlib.read_ndjson(tpi) if os.path.exists(tpi) else []
        events.extend(part)
        if rc == 0:
            break
        begins = [e["scen"] for e in part if e["ev"] == "Begin"]
        if "panic:" not in out or not begins:
            raise vlib.MachineryError("lifecycle driver failed:\n" + out[-4000:])
        # the code under test panicked in one of its own goroutines: the process is gone. The scenario that was running is the culprit.
        msg = [l for l in out.splitlines() if l.startswith("panic:")]
        if events and events[-1]["ev"] != "End":
            events.append({"ev": "Crash", "msg": msg[0] if msg else "?"})
            events.append({"ev": "End", "hangs": [], "finalstop": True, "finalstoperr": "", "st": "Inactive", "flag": False, "probe": "skipped",
                           "census": {"core": 0, "producer": 0}, "returns": {}, "ndone": 0, "crashed": True, "writing": False})
        skip = begins[-1]
    else:
        raise vlib.MachineryError("lifecycle driver keeps crashing:\n" + out[-2000:])
    vlib.write_ndjson(tp, events)
    if udp:
        # the real Abaco source over localhost UDP (free-running cycles, then cycles with the receiver goroutine gated): failed start without data, start with data, stop, restart
        tu = ctx.path("trace_%s_udp.ndjson" % tag)
        rc, out = vlib.go_test(ctx, "", UDP, "TestVerifAbacoUDP$|TestVerifRoachSelfEnd$", env={"VERIF_OUT": tu}, timeout=600)
        udp_crash = None
        if rc != 0:
            # a panic in a goroutine of the code under test (not of the harness) ended the process: that is what happened
            # to the server in this history, not a problem of the machinery
            pl = [l for l in out.splitlines() if l.startswith("panic:")]
            in_code = "github.com/usnistgov/dastard." in out and "zz_verif_" not in out.split("panic:", 1)[-1].split("created by", 1)[0]
            if not pl or not in_code:
                raise vlib.MachineryError("abaco udp driver failed:\n" + out[-3000:])
            udp_crash = pl[0]
        ev = vlib.read_ndjson(tp)
        nscen = max([e["scen"] for e in ev if e["ev"] == "Begin"] or [0])
        extra = vlib.read_ndjson(tu) if os.path.exists(tu) else []
        if udp_crash:
            extra.append({"ev": "Crash", "msg": udp_crash})
        ev.append({"ev": "Begin", "scen": nscen + 1, "origin": "udp-sources-localhost", "producer": "udp-sources"})
        gated = [e for e in extra if e["ev"] == "UDPGated"]
        starts_ok = all(e.get("err", "") == "" for e in extra if e["ev"] == "UDPStep" and e.get("scen") == 1 and e["step"] == "restart")
        if (not gated or gated[0]["gated"] < 1) and starts_ok and not udp_crash:   # (when the restarts themselves fail, the trace says so: let it be judged)
            raise vlib.MachineryError("abaco udp driver: the receiver goroutine never reached its gate (hook AbacoUDP.loop missing?)")
        ctx.notes["abaco_udp_gated_stops"] = gated[0]["gated"] if gated else 0
        for e in extra:
            if e["ev"] == "UDPGated":
                continue
            e["scen"] = nscen + 1
            ev.append(e)
        vlib.write_ndjson(tp, ev)
    return tp


def split(events):
    scs, cur = [], None
    for i, e in enumerate(events):
        if e["ev"] == "Begin":
            cur = {"id": e["scen"], "first": i + 1, "cfg": e, "events": []}
            scs.append(cur)
        cur["events"].append(e)
    return scs


def norm_where(w):
    for key in ("RunDoneWait", "runLaterIfActive", "WriteComment", "Stop", "Start"):
        if key in w:
            return key
    return w[:60]


def judge(ctx, events, viols, scens, prefixes, tlc_out):
    scs = split(events)
    ndiv = sum(1 for e in events if e["ev"] == "Diverged")
    nstep = sum(1 for e in events if e["ev"] == "Step")
    ctx.notes["steps_replayed"] = nstep
    ctx.notes["schedules_diverged"] = ndiv
    ctx.notes["model_drift_steps"] = tlc_out.count('<<"DRIFT"')
    for s in scs:
        acts = [e["a"] for e in s["events"] if e["ev"] == "Step"]
        conc = len({e.get("role") for e in s["events"] if e["ev"] == "Step" and e.get("role")})
        vlib.add_case(ctx, [s["cfg"]["producer"], [(e["a"], e.get("role"), e.get("r")) for e in s["events"] if e["ev"] == "Step"]],
                      nontrivial=("CoreExit" in acts or "CoreSendResult" in acts) and conc >= 2)
    ctx.samples = [{"origin": s["cfg"].get("origin"), "producer": s["cfg"]["producer"],
                    "steps": [[e["a"], e.get("role"), e.get("r"), e.get("st")] for e in s["events"] if e["ev"] == "Step"][:30],
                    "end": {k: v for k, v in s["events"][-1].items() if k in ("hangs", "probe", "st", "census")}} for s in scs[:3]]
    if scs and ndiv > max(3, len(scs) // 4):
        raise vlib.MachineryError("%d of %d schedules diverged from the model: the replay driver or the model needs attention" % (ndiv, len(scs)))
    for v in viols:
        if not any(v["predicate"].startswith(p) for p in prefixes):
            continue
        s = [x for x in scs if x["first"] <= v["line"]][-1]
        e = s["events"][v["line"] - s["first"]]
        sig = {"predicate": v["predicate"], "event": e["ev"], "producer": s["cfg"]["producer"]}
        if e["ev"] == "End":
            roles = sorted({h["role"].rstrip("0123456789") for h in e.get("hangs", [])})
            sig["hung"] = roles
            sig["where"] = sorted({norm_where(h["where"]) for h in e.get("hangs", [])})
        elif e["ev"] == "Step":
            sig["action"] = e["a"]
        elif e["ev"] == "Held":
            sig["name"] = e["name"]
        elif e["ev"] == "Crash":
            sig["panic"] = (e.get("msg") or "")[:60]
        elif e["ev"] == "UDPStep":
            sig["step"] = e["step"]
            sig["err"] = re.sub(r":\d+", ":*", e.get("err") or "")[:60]   # port numbers are chosen by the kernel: not part of the signature
        sc = scens[s["id"] - 1] if s["id"] - 1 < len(scens) else None
        vlib.report_violation(ctx, sig, sc)


def validate(ctx, scens, prefixes, tag="t", udp=False):
    tp = run_driver(ctx, scens, tag, udp=udp)
    viols, done = vlib.validate_trace(ctx, "LifecycleTrace", "LifecycleTrace.cfg", tp, heap="8g", timeout=1800)
    events = vlib.read_ndjson(tp)
    judge(ctx, events, viols, scens, prefixes, ctx.last_tlc_out if hasattr(ctx, "last_tlc_out") else "")
    return events, viols


def replay(ctx, path, prefixes, level):
    with open(path) as f:
        obj = json.load(f)
    validate(ctx, [obj["replay"]], prefixes)
    return vlib.finish(ctx, level, "replay of one recorded schedule", [])
