"""Shared machinery of C05 / C06 / C20: WriteControl.tla model checking, behaviour generation, the
real-code driver (harness/root/wc_test.go) and trace validation with WriteControlTrace.tla."""
import json
import os
import vlib

HARNESS = [os.path.join(vlib.HARNESS, "root", "common_test.go"), os.path.join(vlib.HARNESS, "root", "wc_test.go")]


def steps_from_acts(acts):
    steps = []
    for a in acts:
        k = a.get("k")
        if k == "req":
            steps.append({"k": "req", "req": a["req"], "types": sorted(a.get("types", []) or []), "label": a.get("label", "") or ""})
        elif k == "label":
            steps.append({"k": "label", "label": a["label"]})
        elif k == "rmrun":
            steps.append({"k": "rmrun"})
        elif k == "block":
            steps.append({"k": "block", "ext": a.get("ext", []) or [], "drop": a.get("drop", 0), "len": 0})
    return steps


def scen_from_cex(r, nchan=2):
    acts = [st["act"] for st in r.error_trace if "act" in st]
    proj = r.error_trace[0].get("proj", []) if r.error_trace else []
    return {"nchan": nchan, "proj": proj, "origin": "counterexample", "steps": steps_from_acts(acts)}


def model_and_traces(ctx, prefixes):
    """Runs MC + simulation + driver + trace validation. Returns (events, viols filtered by predicate prefix)."""
    q = ctx.quick()
    r = vlib.run_tlc(ctx, "WriteControl", "WriteControlMC.cfg" if q else "WriteControlMCBig.cfg", workers=16,
                     timeout=1800, heap="24g" if not q else None)
    if not r.ok:
        raise vlib.MachineryError("WriteControl model (fixed variant) not clean: %s" % r.violated)
    scens = []
    rc = vlib.run_tlc(ctx, "WriteControl", "WriteControlAsCode.cfg", workers=4)
    if rc.violated:
        scens.append(scen_from_cex(rc))
        # the sibling history named in the property text
        scens.append({"nchan": 2, "proj": [1], "origin": "counterexample-variant", "steps": [
            {"k": "req", "req": "START", "types": ["OFF"]}, {"k": "block", "ext": [], "drop": 0},
            {"k": "req", "req": "PAUSE"}, {"k": "req", "req": "STOP"},
            {"k": "req", "req": "START", "types": ["OFF"]}, {"k": "block", "ext": [1], "drop": 1}]})
    rce = vlib.run_tlc(ctx, "WriteControl", "WriteControlCountEntries.cfg", workers=8, timeout=900)
    if rce.violated:   # design variant: run number = number of entries; its shortest failing history is replayed on the code
        scens.append(scen_from_cex(rce, nchan=1))
        scens[-1]["origin"] = "variant:CountEntries"
    nsim = 30 if q else 1500
    rs = vlib.run_tlc(ctx, "WriteControlSim", "WriteControlSim.cfg", workers=1, simulate="num=%d" % nsim, depth=15)
    seen = {}
    for s in vlib.printed_json(rs.out, "SCEN"):
        key = json.dumps(s["steps"][:-1], sort_keys=True)
        if len(seen.setdefault(key, [])) < 2:
            seen[key].append({"nchan": s["nchan"], "proj": s["proj"], "origin": "tlc-simulate", "steps": steps_from_acts(s["steps"])})
    for v in seen.values():
        scens.extend(v)
    ctx.notes["scenarios_from_model"] = len(scens)
    sp = ctx.path("scen.json")
    with open(sp, "w") as f:
        json.dump(scens, f)
    tp = ctx.path("trace.ndjson")
    nrand = 150 if q else 12000
    ctx.notes["scenarios_random"] = nrand
    rc_, out = vlib.go_test(ctx, "", HARNESS, "TestVerifWC", env={"VERIF_SCEN": sp, "VERIF_OUT": tp, "VERIF_NRANDOM": nrand}, timeout=1200)
    if rc_ != 0:
        raise vlib.MachineryError("driver failed:\n" + out[-3000:])
    viols, done = vlib.validate_trace(ctx, "WriteControlTrace", "WriteControlTrace.cfg", tp, timeout=1800, heap="16g")
    events = vlib.read_ndjson(tp)
    return events, [v for v in viols if any(v["predicate"].startswith(p) for p in prefixes)]


def split(events):
    scs = []
    cur = None
    for i, e in enumerate(events):
        if e["ev"] == "Config":
            cur = {"id": e["scen"], "first": i + 1, "cfg": e, "events": []}
            scs.append(cur)
        cur["events"].append(e)
    return scs


def history(sc, upto=None):
    """Compact request history of a scenario (for signatures and replay)."""
    out = []
    for e in sc["events"][:upto]:
        if e["ev"] == "Req":
            out.append(e["req"] + ("{" + ",".join(e["types"]) + "}" if e["req"] == "START" else "") + (":" + e["label"] if e["label"] else "") + ("" if e["ok"] else "!"))
        elif e["ev"] == "Label":
            out.append("LABEL" + ("" if e["ok"] else "!"))
        elif e["ev"] == "Block":
            out.append("B")
    return out


def scen_to_replay(sc):
    cfg = sc["cfg"]
    steps = []
    for e in sc["events"]:
        if e["ev"] == "Req":
            steps.append({"k": "req", "req": e["req"], "types": e["types"], "label": e["label"]})
        elif e["ev"] == "Label":
            steps.append({"k": "label", "label": e["label"]})
        elif e["ev"] == "Block":
            steps.append({"k": "block", "ext": e["ext"], "drop": e["drop"], "len": e["n"]})
    return {"nchan": cfg["nchan"], "proj": cfg["proj"], "npre": cfg["npre"], "nsamp": cfg["nsamp"], "nbases": cfg["nbases"],
            "rows": cfg["rows"], "cols": cfg["cols"], "subdiv": cfg["subdiv"], "signed": cfg["signed"], "origin": "replay", "steps": steps}


def judge(ctx, events, viols, sigfun):
    scs = split(events)
    byid = {s["id"]: s for s in scs}
    for s in scs:
        h = history(s)
        nontriv = any(x.startswith("START") and not x.endswith("!") for x in h) and "B" in h
        vlib.add_case(ctx, [s["cfg"]["nchan"], s["cfg"]["proj"], h], nontrivial=nontriv)
    ctx.samples = [{"nchan": s["cfg"]["nchan"], "proj": s["cfg"]["proj"], "origin": s["cfg"].get("origin"), "history": history(s)[:14]} for s in scs[:4]]
    for v in viols:
        s = byid[v["scen"]]
        idx = v["line"] - s["first"]
        e = s["events"][idx]
        sig = {"predicate": v["predicate"], "detail": v["detail"].strip('"')}
        sig.update(sigfun(s, idx, e))
        vlib.report_violation(ctx, sig, scen_to_replay(s))


def replay(ctx, path, prefixes, sigfun, level):
    with open(path) as f:
        obj = json.load(f)
    sp = ctx.path("scen.json")
    with open(sp, "w") as f:
        json.dump([obj["replay"]], f)
    tp = ctx.path("trace.ndjson")
    rc_, out = vlib.go_test(ctx, "", HARNESS, "TestVerifWC", env={"VERIF_SCEN": sp, "VERIF_OUT": tp, "VERIF_NRANDOM": 0})
    viols, _ = vlib.validate_trace(ctx, "WriteControlTrace", "WriteControlTrace.cfg", tp)
    viols = [v for v in viols if any(v["predicate"].startswith(p) for p in prefixes)]
    judge(ctx, vlib.read_ndjson(tp), viols, sigfun)
    return vlib.finish(ctx, level, "replay of one recorded history", [])
