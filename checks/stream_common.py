"""Shared machinery of C01 / C02 / C08 / C09: Stream.tla / Broker.tla / EdgeMulti.tla model checking with constants
measured from the built code, scenario generation, the stream driver and StreamTrace.tla validation."""
import json
import os
import random
import vlib
import streamgen

HARNESS = [os.path.join(vlib.HARNESS, "root", "common_test.go"), os.path.join(vlib.HARNESS, "root", "stream_test.go")]


def edge_trig(level=2):
    t = streamgen.trig_off()
    t.update({"edge": True, "edgerising": True, "edgelevel": level})
    return t


def run_driver(ctx, scens, tag="t"):
    sp = ctx.path("scen_%s.json" % tag)
    with open(sp, "w") as f:
        json.dump(scens, f)
    tp = ctx.path("trace_%s.ndjson" % tag)
    rc, out = vlib.go_test(ctx, "", HARNESS, "TestVerifStream", env={"VERIF_SCEN": sp, "VERIF_OUT": tp}, timeout=1800)
    if rc != 0:
        raise vlib.MachineryError("stream driver failed:\n" + out[-3000:])
    return tp


def measure_keep(ctx, npre, nsamp):
    """KeepFresh / KeepConf: how many samples TrimStream keeps after a restored start / after ConfigureTriggers."""
    sc = {"origin": "measure", "nchan": 1, "npre": npre, "nsamp": nsamp, "signed": False, "period": 1000, "frame0": 0,
          "start": "restored", "trig": [edge_trig()], "data": [[100] * (nsamp * 2)],
          "steps": [{"k": "block", "n": nsamp}, {"k": "trig", "chans": [0], "t": edge_trig()}, {"k": "block", "n": nsamp}]}
    tp = run_driver(ctx, [sc], "measure")
    ev = vlib.read_ndjson(tp)
    fresh = [e for e in ev if e["ev"] == "Config"][0]["keep"][0]
    conf = [e for e in ev if e["ev"] == "Trig"][0]["keep"]
    return fresh, conf


def stream_cfg(npre, nsamp, maxlen, blocks, keep_fresh, keep_conf, starts, maxreconf, maxsteps=2, sim=False):
    return ("SPECIFICATION %s\nCONSTANTS NPre = %d\n NSamp = %d\n MaxLen = %d\n BlockSizes = {%s}\n EdgeLevel = 2\n MaxSteps = %d\n"
            " KeepFresh = %d\n KeepConf = %d\n Starts = {%s}\n MaxReconf = %d\n%s\nCHECK_DEADLOCK FALSE\n" % (
                "SimSpec" if sim else "Spec", npre, nsamp, maxlen, ", ".join(str(b) for b in blocks), maxsteps, keep_fresh, keep_conf,
                ", ".join('"%s"' % s for s in starts), maxreconf,
                "INVARIANTS Emit" if sim else "INVARIANTS C02_edge_complete C02_sound C02_no_overlap C01_excerpt C01_frame\nVIEW View"))


def scen_from_acts(acts, npre, nsamp, origin):
    """Stream.tla behaviour -> driver scenario (staircase data, edge trigger level 2)."""
    data, steps, level = [], [], 100
    start = "fresh"
    for a in acts:
        if a["a"] == "Start":
            start = "restored" if a["how"] == "restored" else "fresh"
            if start == "fresh":
                steps.append({"k": "trig", "chans": [0], "t": edge_trig()})
        elif a["a"] == "Block":
            S = set(a.get("steps") or [])
            for i in range(1, a["n"] + 1):
                if i in S:
                    level += 1
                data.append(level)
            steps.append({"k": "block", "n": a["n"]})
        elif a["a"] == "Reconfigure":
            steps.append({"k": "trig", "chans": [0], "t": edge_trig()})
    # pad the stream so that every pulse gets decided
    pad = 3 * nsamp
    data += [level] * pad
    steps.append({"k": "block", "n": pad})
    return {"origin": origin, "nchan": 1, "npre": npre, "nsamp": nsamp, "signed": False, "period": 1000, "frame0": 0,
            "start": start, "trig": [edge_trig()], "steps": steps, "data": [data], "oneblock": False}


def stream_mc(ctx, quick, reconf=True):
    """Exhaustive check of Stream.tla with the measured history rule; returns scenarios to replay (counterexample, simulations)."""
    npre, nsamp = 3, 14
    fresh, conf = measure_keep(ctx, npre, nsamp)
    ctx.notes["measured_keep"] = {"npre": npre, "nsamp": nsamp, "after_restored_start": fresh, "after_configure": conf}
    blocks = [1, 3, 14, 15, 30]
    scens = []
    if quick:
        configs = [(56, blocks, 0)] + ([(40, [1, 14, 15], 1)] if reconf else [])
    else:
        configs = [(70, blocks, 0), (56, blocks, 1)] if reconf else [(70, blocks, 0)]
    violated = False
    for maxlen, blks, nre in configs:
        cfgtxt = stream_cfg(npre, nsamp, maxlen, blks, fresh, conf, ["restored", "configured"], nre)
        r = vlib.run_tlc(ctx, "Stream", "Blank.cfg", workers=16, extra_files={"Blank.cfg": cfgtxt}, timeout=3000, heap="24g")
        if r.violated:
            violated = True
            acts = [st["act"] for st in r.error_trace if "act" in st]
            scens.append(scen_from_acts(acts, npre, nsamp, "model-counterexample:" + r.violated))
            ctx.notes["model_counterexample"] = {"invariant": r.violated, "actions": acts}
    simtxt = stream_cfg(npre, nsamp, 70, blocks, fresh, conf, ["restored", "configured"], 1, sim=True)
    rs = vlib.run_tlc(ctx, "StreamSim", "Blank.cfg", workers=1, simulate="num=%d" % (40 if quick else 400), depth=80,
                      extra_files={"Blank.cfg": simtxt})
    seen = set()
    for s in vlib.printed_json(rs.out, "SCEN"):
        k = json.dumps(s["steps"][:-1], sort_keys=True)
        if k in seen:
            continue
        seen.add(k)
        scens.append(scen_from_acts(s["steps"], npre, nsamp, "tlc-simulate"))
    return scens, violated


def split(events):
    scs, cur = [], None
    for i, e in enumerate(events):
        if e["ev"] == "Config":
            cur = {"id": e["scen"], "run": e["run"], "first": i + 1, "cfg": e, "events": []}
            scs.append(cur)
        cur["events"].append(e)
    return scs


def trig_kinds(t):
    return "+".join(k for k in ("edge", "level", "auto", "em") if t.get(k)) or "none"


def judge(ctx, events, viols, scens, prefixes):
    scs = split(events)
    by_line = []
    for s in scs:
        by_line.append((s["first"], s))
    for s in scs:
        nrec = sum(1 for e in s["events"] if e["ev"] == "Rec")
        nblk = sum(1 for e in s["events"] if e["ev"] == "Block")
        key = [s["cfg"]["npre"], s["cfg"]["nsamp"], s["cfg"]["start"], [(e["ev"], e.get("n"), e.get("f"), e.get("c")) for e in s["events"] if e["ev"] in ("Block", "Rec", "Trig", "Len", "Conn")]]
        vlib.add_case(ctx, key, nontrivial=nrec > 0 and nblk > 1)
    ctx.samples = [{"origin": s["cfg"].get("origin"), "npre": s["cfg"]["npre"], "nsamp": s["cfg"]["nsamp"], "start": s["cfg"]["start"],
                    "blocks": [e["n"] for e in s["events"] if e["ev"] == "Block"][:12],
                    "records": [[e["c"], e["f"]] for e in s["events"] if e["ev"] == "Rec"][:8]} for s in scs[:4]]
    ctx.notes["records_checked"] = sum(1 for e in events if e["ev"] == "Rec")
    ctx.notes["blocks"] = sum(1 for e in events if e["ev"] == "Block")
    for v in viols:
        if not any(v["predicate"].startswith(p) for p in prefixes):
            continue
        s = [x for f, x in by_line if f <= v["line"]][-1]
        e = s["events"][v["line"] - s["first"]]
        chan = v["detail"].strip('"')
        sig = {"predicate": v["predicate"], "start": s["cfg"]["start"], "event": e["ev"]}
        if chan.isdigit():
            # settings in force on that channel
            t = s["cfg"]["trig"][int(chan)]
            for p in s["events"][: v["line"] - s["first"]]:
                if p["ev"] == "Trig" and p["ok"] and int(chan) in p["chans"]:
                    t = p["t"]
            sig["trigger"] = trig_kinds(t)
        elif e["ev"] == "Panic":
            sig["where"] = e.get("where")
            sig["msg"] = (e.get("msg") or "")[:60]
        sc = scens[s["id"] - 1] if s["id"] - 1 < len(scens) else None
        vlib.report_violation(ctx, sig, sc)


def validate(ctx, scens, prefixes, tag="t"):
    tp = run_driver(ctx, scens, tag)
    viols, done = vlib.validate_trace(ctx, "StreamTrace", "StreamTrace.cfg", tp, heap="16g", timeout=3000)
    events = vlib.read_ndjson(tp)
    judge(ctx, events, viols, scens, prefixes)
    return events, viols


def replay(ctx, path, prefixes, level):
    with open(path) as f:
        obj = json.load(f)
    validate(ctx, [obj["replay"]], prefixes)
    return vlib.finish(ctx, level, "replay of one recorded scenario", [])
