"""C06 — write control: reported writing state always matches what channels really do."""
import vlib
import wc_common as wc

LEVEL = "model_checking"
PREFIXES = ["C06_"]
RULE = ("scenario = (channels, channels with projectors, history of START{types}/STOP/PAUSE/UNPAUSE[label]/garbage/label "
        "requests interleaved with data blocks); distinct by hash of the history with outcomes; non-trivial = at least one "
        "accepted START and at least one published block")


def sig(s, idx, e):
    out = {"event": e["ev"]}
    if e["ev"] == "File":
        out["type"] = e["t"]
        # derived fact for findings: was this session an OFF-only START issued while channels were paused?
    return out


def run(ctx):
    events, viols = wc.model_and_traces(ctx, PREFIXES)
    wc.judge(ctx, events, viols, sig)
    return vlib.finish(ctx, LEVEL, RULE,
                       ["file contents are read back after STOP (a record lost and restored before STOP would be invisible)",
                        "records are auto-triggered; eligibility for OFF = projectors loaded",
                        "I/O failures are out of scope for C06 (see C11)"])


def replay(ctx, path):
    return wc.replay(ctx, path, PREFIXES, sig, LEVEL)
