"""C02 — no pulse lost or invented: triggers are sound and complete across block edges."""
import random
import vlib
import streamgen
import stream_common as sc

LEVEL = "model_checking"
PREFIXES = ["C02_"]
RULE = ("scenario = (record lengths, control history: fresh/restored start, ConfigureTriggers, ConfigurePulseLengths; trigger settings: "
        "edge/level/auto combinations; per-channel sample stream; block partition); distinct by hash of the recorded history; "
        "non-trivial = at least one record and more than one block")


def run(ctx):
    q = ctx.quick()
    scens, _ = sc.stream_mc(ctx, q)
    ctx.notes["scenarios_from_model"] = len(scens)
    rng = random.Random(ctx.seed)
    n = 250 if q else 4000
    scens += [streamgen.random_scenario(rng, allow_conn=False) for _ in range(n)]
    ctx.notes["scenarios_random"] = n
    sc.validate(ctx, scens, PREFIXES)
    return vlib.finish(ctx, LEVEL, RULE,
                       ["completeness is judged only for samples at least one record after an epoch boundary and decided 2 records before the end of the stream",
                        "edge-multi soundness belongs to C08", "streams <= ~250 samples, records <= 24 samples (the bound straddles the literal 2*nsamp+10)"])


def replay(ctx, path):
    return sc.replay(ctx, path, PREFIXES, LEVEL)
