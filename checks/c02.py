"""C02 — no pulse lost or invented: triggers are sound and complete across block edges."""
import random
import vlib
import streamgen
import stream_common as sc

LEVEL = "model_checking"
PREFIXES = ["C02_"]
RULE = ("scenario = (record lengths, control history: fresh/restored start, ConfigureTriggers, ConfigurePulseLengths; trigger settings: "
        "edge/level/auto combinations; per-channel sample stream; block partition); distinct by hash of the recorded history; "
        "non-trivial = at least one record and more than one block")


def edge_level_scenario(rng):
    """Edge and level triggers together: steep pulses (edge) closely spaced, followed by slow rises that cross the level
    without meeting the edge criterion, at every offset around the dead time of the edge records; few, long blocks."""
    npre = rng.randint(3, 6)
    nsamp = npre + rng.choice([8, 12, 17])
    base, lvl = 1000, 1200
    total = rng.randint(8, 14) * nsamp
    xs = [base] * total
    p = rng.randint(npre + 1, 2 * nsamp)
    while p < total - 3 * nsamp:
        # steep pulse: +600 in one sample, back to baseline within ~nsamp/3
        w = max(3, nsamp // 3)
        for i in range(p, min(total, p + w)):
            xs[i] = base + int(600 * (1 - (i - p) / w))
        kind = rng.choice(["slow", "slow", "steep", "none"])
        gap = rng.randint(1, 2 * nsamp + 3)
        q2 = p + w + gap
        if kind == "slow" and q2 < total - 2 * nsamp:
            # slow rise: +30 per sample (edge criterion needs >= 150 over two samples), stays above the level for a while, slow fall
            up = 12
            for i in range(q2, min(total, q2 + up)):
                xs[i] = max(xs[i], base + 30 * (i - q2 + 1))
            for i in range(q2 + up, min(total, q2 + 2 * up)):
                xs[i] = max(xs[i], base + 30 * (2 * up - (i - q2)))
            p = q2 + 2 * up + rng.randint(0, nsamp)
        elif kind == "steep":
            p = p + rng.randint(nsamp // 2, 2 * nsamp)
        else:
            p = q2 + rng.randint(nsamp, 3 * nsamp)
    t = streamgen.trig_off()
    t.update({"edge": True, "edgerising": True, "edgelevel": 150, "level": True, "levelrising": True, "levellevel": lvl})
    steps = [{"k": "trig", "chans": [0], "t": t}]
    cut = rng.choice(["one", "two", "three", "mixed"])
    if cut == "one":
        sizes = [total]
    elif cut == "two":
        a = rng.randint(2 * nsamp, total - 2 * nsamp)
        sizes = [a, total - a]
    elif cut == "three":
        a = rng.randint(2 * nsamp, total // 2)
        b = rng.randint(2 * nsamp, total - a - nsamp)
        sizes = [a, b, total - a - b]
    else:
        sizes = streamgen.block_sizes(rng, total, nsamp)
    for b in sizes:
        steps.append({"k": "block", "n": b})
    return {"origin": "edge+level", "nchan": 1, "npre": npre, "nsamp": nsamp, "signed": False, "period": 1000, "frame0": 0,
            "start": "fresh", "trig": [t], "steps": steps, "data": [xs], "oneblock": False}


def relen_scenario(rng):
    """ConfigurePulseLengths with a LARGE change between two blocks (records 3-6 times shorter, or longer), with steep
    pulses everywhere and in particular in the last record length of the block in front of the request: that tail has not
    been searched yet when the request arrives (its records need samples of the next block)."""
    npre = rng.randint(8, 20)
    nsamp = npre + rng.choice([30, 45, 60])
    if rng.random() < 0.7:
        nsamp2 = rng.choice([6, 8, 10, 12])
        npre2 = rng.randint(2, nsamp2 // 2)
    else:
        npre2 = npre + rng.choice([0, 5, nsamp // 2])
        nsamp2 = max(nsamp + rng.choice([10, nsamp]), npre2 + 4)
    small = min(nsamp, nsamp2)
    nb1 = rng.randint(3, 5) * nsamp + rng.randint(0, nsamp)          # stream length in front of the request
    total = nb1 + rng.randint(3, 6) * max(nsamp, nsamp2)
    base = 1000
    xs = [base] * total

    def pulse(p):
        w = max(2, small // 3)
        for i in range(p, min(total, p + w)):
            xs[i] = max(xs[i], base + int(600 * (1 - (i - p) / w)))

    p = rng.randint(npre + 1, nsamp)
    while p < total - 2:
        pulse(p)
        p += rng.randint(small + 1, 2 * nsamp)
    # one pulse in the unsearched tail of the block in front of the request, clear of any earlier record
    tail = nb1 - rng.randint(1, nsamp - npre)
    for i in range(max(0, tail - nsamp - 2), min(total, tail + small)):
        xs[i] = base
    pulse(tail)
    t = streamgen.trig_off()
    t.update({"edge": True, "edgerising": True, "edgelevel": 150})
    if rng.random() < 0.3:
        t.update({"level": True, "levelrising": True, "levellevel": 1300})
    steps = [{"k": "trig", "chans": [0], "t": t}]
    first = rng.choice([[nb1], [nb1 // 2, nb1 - nb1 // 2], streamgen.block_sizes(rng, nb1, nsamp)])
    for b in first:
        steps.append({"k": "block", "n": b})
    steps.append({"k": "len", "nsamp": nsamp2, "npre": npre2})
    for b in (streamgen.block_sizes(rng, total - nb1, nsamp2) if rng.random() < 0.5 else [total - nb1]):
        steps.append({"k": "block", "n": b})
    return {"origin": "record-length-change", "nchan": 1, "npre": npre, "nsamp": nsamp, "signed": False, "period": 1000, "frame0": rng.choice([0, 1 << 33]),
            "start": rng.choice(["fresh", "restored"]), "trig": [t], "steps": steps, "data": [xs], "oneblock": False}


def long_auto_scenario(rng):
    """Auto trigger with a delay of many records at a sample rate whose period is not a whole number of nanoseconds
    (the sources round the period; the delay in samples is delay x rate, not delay / rounded period)."""
    nsamp = rng.choice([8, 10, 12])
    npre = rng.randint(2, nsamp // 2)
    rate = rng.choice([3e8, 3e8, 7e8, 1.5e8, 3e7])
    delay = rng.choice([12, 15, 20]) * nsamp
    total = 4 * delay + 6 * nsamp
    xs = [1000 + (i % 7) for i in range(total)]
    t = streamgen.trig_off()
    t.update({"auto": True, "autodelay": delay, "autoveto": 0})
    steps = [{"k": "trig", "chans": [0], "t": t}]
    for b in streamgen.block_sizes(rng, total, nsamp) if rng.random() < 0.5 else [total // 3, total - total // 3]:
        steps.append({"k": "block", "n": b})
    return {"origin": "long-auto-delay", "nchan": 1, "npre": npre, "nsamp": nsamp, "signed": False, "period": int(round(1e9 / rate)), "ratehz": rate,
            "frame0": 0, "start": rng.choice(["fresh", "restored"]), "trig": [t], "steps": steps, "data": [xs], "oneblock": False}


def run(ctx):
    q = ctx.quick()
    scens, _ = sc.stream_mc(ctx, q)
    ctx.notes["scenarios_from_model"] = len(scens)
    rng = random.Random(ctx.seed)
    n = 250 if q else 4000
    scens += [streamgen.random_scenario(rng, allow_conn=False) for _ in range(n)]
    ctx.notes["scenarios_random"] = n
    ne = 120 if q else 2500
    scens += [edge_level_scenario(rng) for _ in range(ne)]
    ctx.notes["scenarios_edge_plus_level"] = ne
    na = 30 if q else 400
    scens += [long_auto_scenario(rng) for _ in range(na)]
    nl = 60 if q else 1500
    scens += [relen_scenario(rng) for _ in range(nl)]
    ctx.notes["scenarios_record_length_change"] = nl
    ctx.notes["scenarios_long_auto_delay"] = na
    sc.validate(ctx, scens, PREFIXES)
    return vlib.finish(ctx, LEVEL, RULE,
                       ["completeness is judged only for samples at least one record after an epoch boundary and decided 2 records before the end of the stream",
                        "edge-multi soundness belongs to C08", "streams <= ~250 samples, records <= 24 samples (the bound straddles the literal 2*nsamp+10)"])


def replay(ctx, path):
    return sc.replay(ctx, path, PREFIXES, LEVEL)
