"""C05 — output files (LJH 2.2, LJH 3, OFF) are well-formed and hold exactly the records."""
import vlib
import wc_common as wc

LEVEL = "model_checking"
PREFIXES = ["C05_"]
RULE = ("scenario = (geometry, record lengths, projector shapes, frame/time origin incl. extremes, write-control history with "
        "blocks); every file of every session is decoded by readers written from the format documents and compared record by "
        "record (CRC of the documented byte layout) with the records published while the reported state was active and unpaused; "
        "distinct by hash; non-trivial = an accepted START and a published block")


def sig(s, idx, e):
    out = {"event": e["ev"]}
    if e["ev"] == "File":
        out["type"] = e["t"]
    return out


def run(ctx):
    events, viols = wc.model_and_traces(ctx, PREFIXES)
    wc.judge(ctx, events, viols, sig)
    nf = sum(1 for e in events if e["ev"] == "File" and e["exists"])
    nr = sum(len(e["recs"]) for e in events if e["ev"] == "File")
    ctx.notes["files_decoded"] = nf
    ctx.notes["records_decoded"] = nr
    return vlib.finish(ctx, LEVEL, RULE,
                       ["record equality is judged by a 30-bit CRC of the documented byte layout (independent encoder in the harness)",
                        "LJH3 has no format document in the repository: the layout is taken from the writer's own comment",
                        "timebase is compared to the printed precision (1 ppm)",
                        "fixed-length (auto) triggers; variable-length LJH3 records are covered by C08's driver only"])


def replay(ctx, path):
    return wc.replay(ctx, path, PREFIXES, sig, LEVEL)
