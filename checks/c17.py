"""C17 — a running acquisition is free of data races."""
import json
import os
import random
import re
import vlib
import c03
import c04
import streamgen

LEVEL = "exploration"
H = os.path.join(vlib.HARNESS, "root")
FILES = [os.path.join(H, f) for f in ("common_test.go", "abaco_test.go", "lancero_test.go", "lifecycle_test.go", "requests_test.go",
                                      "pipeline_test.go", "stream_test.go", "wc_test.go", "status_test.go")]


def parse_races(out):
    """-> list of {"a": frame, "b": frame, "harness": n} ; frames are the innermost dastard functions of the two accesses."""
    races = []
    for blk in re.findall(r"WARNING: DATA RACE\n(.*?)\n==================", out, re.S):
        parts = re.split(r"\n\n", blk)
        tops = []
        for part in parts[:2]:
            fr = None
            lines = part.splitlines()
            for i, line in enumerate(lines):
                m = re.match(r"\s+(\S*dastard\S*)\(", line)
                if m and i + 1 < len(lines):
                    loc = lines[i + 1].strip().split(" ")[0]
                    fr = (m.group(1).split("/")[-1], os.path.basename(loc))
                    break
            tops.append(fr or ("?", "?"))
        harness = sum(1 for f in tops if "zz_verif" in f[1])
        races.append({"a": tops[0][0], "b": tops[1][0] if len(tops) > 1 else "?", "aloc": tops[0][1], "bloc": tops[1][1] if len(tops) > 1 else "?",
                      "harness": harness})
    return races


def workload(ctx, name, run, env, timeout=1800, pkg="", files=None, tags="verif"):
    e = dict(env)
    e["VERIF_OUT"] = ctx.path("out_%s.ndjson" % name)
    rc, out = vlib.go_test(ctx, pkg, files or FILES, run, env=e, race=True, timeout=timeout, tags=tags)
    races = parse_races(out)
    if rc != 0 and not races:
        raise vlib.MachineryError("workload %s failed without a race report:\n%s" % (name, out[-3000:]))
    hangs = [x for x in (vlib.read_ndjson(e["VERIF_OUT"]) if os.path.exists(e["VERIF_OUT"]) else []) if x.get("ev") == "Hang"]
    return races, hangs


def run(ctx):
    q = ctx.quick()
    # design level: the synchronisation skeleton orders every access to the named shared data
    r = vlib.run_tlc(ctx, "Ownership", "OwnershipMC.cfg", workers=4, timeout=600)
    if r.violated:
        ctx.notes["ownership_model"] = "conflict in the repaired design: " + str(r.violated)
    devs = {}
    for i in (1, 2, 3):
        rd = vlib.run_tlc(ctx, "Ownership", "OwnershipAsCode%d.cfg" % i, workers=2, timeout=600)
        devs["switch%d" % i] = rd.violated
    ctx.notes["ownership_deviation_switches_conflict"] = devs
    rng = random.Random(ctx.seed + 17)
    sp1 = ctx.path("ab.json")
    json.dump(c03.handmade(), open(sp1, "w"))
    sp2 = ctx.path("ln.json")
    json.dump(c04.handmade()[:3], open(sp2, "w"))
    sp3 = ctx.path("st.json")
    json.dump([streamgen.random_scenario(rng) for _ in range(30 if q else 300)], open(sp3, "w"))
    loads = [("pipeline", "TestVerifPipeline$", {}),
             ("abaco", "TestVerifAbaco$", {"VERIF_SCEN": sp1, "VERIF_NRANDOM": 25 if q else 400, "VERIF_NOSYNC": 1}),
             ("lancero", "TestVerifLancero$", {"VERIF_SCEN": sp2, "VERIF_NRANDOM": 10 if q else 150}),
             ("requests", "TestVerifRequests$", {"VERIF_NORESTART": 1}),
             ("stream", "TestVerifStream$", {"VERIF_SCEN": sp3}),
             ("writing", "TestVerifWC$", {"VERIF_NRANDOM": 15 if q else 200}),
             ("status", "TestVerifStatusThread$", {"VERIF_REAL_CLIENTUPDATER": 1})]
    # the file writers behind a disk that stalls (full write queue): the thread that hands records over and the writer
    # goroutine of the file must share the buffered writer only through the queue
    import c07 as _c07
    loads.append(("stalled-disk-asyncbufio", "TestVerifC07$", {"VERIF_NRANDOM": 40 if q else 400, "_pkg": "asyncbufio", "_files": _c07.H_ASYNC}))
    # a run that ends by itself while data writing is on (ROACH device falls silent), with a client asking at that very
    # moment whether writing is on: the hand-over of the writing state at the end of a run
    loads.append(("selfend-while-writing", "TestVerifRoachSelfEnd$", {"VERIF_SELFEND_CYCLES": 1, "_files": [os.path.join(H, f) for f in ("common_test.go", "lifecycle_test.go", "abaco_udp_test.go", "roach_test.go")]}))
    events = []
    total = 0
    for name, run_, env in loads:
        env = dict(env)
        pkg, files = env.pop("_pkg", ""), env.pop("_files", None)
        races, hangs = workload(ctx, name, run_, env, pkg=pkg, files=files, tags="" if pkg else "verif")
        total += 1
        events.append({"ev": "Workload", "name": name, "races": len(races), "hangs": len(hangs)})
        vlib.add_case(ctx, [name, env.get("VERIF_NRANDOM")], nontrivial=True)
        seen = set()
        for rc_ in races:
            if rc_["harness"] == 2:
                raise vlib.MachineryError("race inside the harness itself (%s / %s): fix the driver" % (rc_["aloc"], rc_["bloc"]))
            key = tuple(sorted([rc_["a"], rc_["b"]]))
            if key in seen:
                continue
            seen.add(key)
            sig = {"predicate": "C17_race", "between": list(key), "workload": name}
            vlib.report_violation(ctx, sig, {"workload": name, "race": rc_})
    ctx.notes["workloads"] = [e for e in events]
    ctx.samples = events[:4]
    return vlib.finish(ctx, LEVEL,
                       "case = one workload run under the Go race detector (complete pipeline with a control client and an archive request; scripted Abaco reader; scripted Lancero reader; request matrix; multi-channel trigger/group-trigger streams; file writing); distinct by workload and size; non-trivial = all (each runs several goroutines of the code concurrently)",
                       ["memory accesses are invisible to a specification: the oracle for races is Go's race detector (no false positives, finds only races that happen in the executed schedules); the TLA+ part (Ownership.tla) checks the synchronisation skeleton of the named shared data at design level",
                        "gated replays are not used here (gates add synchronisation); workloads run free",
                        "a race whose two accesses are both inside harness files is a machinery error, not a finding"])


def replay(ctx, path):
    return run(ctx)
