"""C08 — edge-multi triggering is block-boundary independent and never indexes outside."""
import json
import random
import vlib
import streamgen
import stream_common as sc

LEVEL = "model_checking"
PREFIXES = ["C08_"]
MODES = {"two": 0, "var": 1, "iso": 2}
RULE = ("scenario = (record lengths, edge-multi mode/threshold/monotone count/zero-threshold, stream, block partition); every scenario is run "
        "twice on the real processor (one block / partitioned) and the two record lists are compared (frame, pre-trigger length, length, samples); "
        "distinct by hash; non-trivial = at least one record and more than one block")


def em_trig(mode, thr, nmono, zero):
    t = streamgen.trig_off()
    t.update({"em": True, "emmode": MODES[mode], "emthr": thr, "emnmono": nmono, "emzero": zero})
    return t


def scen_from_sim(s, origin, zero=False):
    """EdgeMulti.tla behaviour -> stream-driver scenario (staircase data from the block/step history)."""
    npre, nsamp, thr = s["npre"], s["nsamp"], s["thr"]
    data, steps, level = [], [], 1000
    t = em_trig(s["mode"], thr, s["nmono"], zero)
    steps.append({"k": "trig", "chans": [0], "t": t})
    for a in s["steps"]:
        if a["a"] != "Block":
            continue
        S = set(a.get("steps") or [])
        for i in range(1, a["n"] + 1):
            if i in S:
                level += thr
            data.append(level)
        steps.append({"k": "block", "n": a["n"]})
    pad = 3 * nsamp
    data += [level] * pad
    steps.append({"k": "block", "n": pad})
    return {"origin": origin, "nchan": 1, "npre": npre, "nsamp": nsamp, "signed": False, "period": 1000, "frame0": 0,
            "start": "fresh", "trig": [t], "steps": steps, "data": [data], "oneblock": True}


def scen_from_cex(r, consts, origin, zero):
    acts = [st["act"] for st in r.error_trace if "act" in st]
    return scen_from_sim(dict(consts, steps=acts), origin, zero)


def random_scen(rng):
    """Pulse-like streams (ramps of random height/length, decays), edges anywhere including the first searchable sample."""
    zero = rng.random() < 0.5
    npre = rng.randint(4, 9) if zero else rng.randint(3, 9)
    npost = rng.choice([4, 5, 8, 12, 20]) if zero else rng.choice([1, 2, 4, 8, 12, 20])
    nsamp = npre + npost
    mode = rng.choice(["two", "var", "iso"])
    sign = rng.choice([1, 1, -1])
    thr = sign * rng.choice([3, 10, 50])
    nmono = rng.randint(1, min(3, npost))
    total = rng.randint(3, 10) * nsamp + rng.randint(0, nsamp)
    base = rng.choice([200, 1000, 30000, 65000 if sign < 0 else 500])
    xs = [base] * total
    npulse = rng.randint(1, max(1, total // max(3, nsamp // 2)))
    places = [rng.choice([npre - 1, npre, npre + 1, rng.randrange(total)]) for _ in range(npulse)]
    for p in places:
        rise = rng.randint(1, 4)
        amp = abs(thr) * rng.choice([1, 2, 5]) * rise
        kind = rng.choice(["step", "pulse"])
        for i in range(max(p, 0), total):
            j = i - p
            if j < rise:
                d = amp * (j + 1) // rise
            elif kind == "step":
                d = amp
            else:
                d = int(amp * 0.85 ** (j - rise + 1))
            xs[i] += sign * d
    if rng.random() < 0.3:
        xs = [v + rng.randint(-1, 1) for v in xs]
    xs = [min(65535, max(0, v)) for v in xs]
    t = em_trig(mode, thr, nmono, zero)
    steps = [{"k": "trig", "chans": [0], "t": t}]
    for b in streamgen.block_sizes(rng, total, nsamp):
        steps.append({"k": "block", "n": b})
    return {"origin": "random", "nchan": 1, "npre": npre, "nsamp": nsamp, "signed": False, "period": rng.choice([100, 1000]),
            "frame0": rng.choice([0, 0, 5000, 1 << 40, (1 << 32) - rng.randint(1, 3 * nsamp), (1 << 31) + rng.randint(0, 50), (5 << 32) - rng.randint(1, 2 * nsamp)]), "start": "fresh", "trig": [t], "steps": steps, "data": [xs], "oneblock": True}


def relen_scen(rng):
    """Edge-multi with a change of the record lengths in mid-run: a block ends while an edge is still pending (found, its
    record not yet cut), the pre-trigger length grows, more data arrive ('no crash ... after a (re)configuration')."""
    s = random_scen(rng)
    while len([st for st in s["steps"] if st["k"] == "block"]) < 3:
        s = random_scen(rng)
    npre, nsamp = s["npre"], s["nsamp"]
    blocks = [i for i, st in enumerate(s["steps"]) if st["k"] == "block"]
    at = rng.choice(blocks[1:])
    grow = rng.choice([1, 2, 5, 10, nsamp // 2 + 1])
    npre2 = min(npre + grow, nsamp + npre + 10)
    nsamp2 = max(nsamp + grow, npre2 + rng.choice([1, 2, 4]))
    s["steps"].insert(at, {"k": "len", "nsamp": nsamp2, "npre": npre2})
    s["oneblock"] = False
    s["origin"] = "relen"
    return s


def all_cuts_scens(rng):
    """One short stream with glitches (single samples over the threshold whose monotone run is too short) close in front
    of real edges, cut into two blocks at EVERY position: block independence for the cuts that matter is a handful among
    hundreds, which random partitions rarely hit."""
    npre = rng.randint(3, 6)
    npost = rng.choice([4, 6, 8])
    nsamp = npre + npost
    mode = rng.choice(["two", "var", "iso"])
    sign = rng.choice([1, 1, -1])
    thr = sign * rng.choice([5, 20])
    nmono = rng.choice([2, 2, 3])
    total = rng.randint(5, 7) * nsamp
    base = 1000 if sign > 0 else 60000
    xs = [base] * total
    p = npre + rng.randint(2, nsamp)
    while p < total - nsamp:
        g = rng.choice([0, 1, 2, 3])          # glitch this many samples before the edge (0: none)
        if g and p - g - 1 >= 0:
            xs[p - g - 1] += sign * abs(thr) * 2
        rise = rng.randint(nmono, nmono + 2)
        amp = abs(thr) * rise * 2
        for i in range(p, total):
            j = i - p
            d = amp * (j + 1) // rise if j < rise else int(amp * 0.8 ** (j - rise + 1))
            xs[i] += sign * d
        p += rng.randint(nsamp + 2, 3 * nsamp)
    xs = [min(65535, max(0, v)) for v in xs]
    zero = rng.random() < 0.3 and npre >= 4
    t = em_trig(mode, thr, nmono, zero)
    out = []
    for cut in range(1, total):
        out.append({"origin": "all-cuts", "nchan": 1, "npre": npre, "nsamp": nsamp, "signed": False, "period": 1000, "frame0": 0, "start": "fresh",
                    "trig": [t], "steps": [{"k": "trig", "chans": [0], "t": t}, {"k": "block", "n": cut}, {"k": "block", "n": total - cut}],
                    "data": [xs], "oneblock": True})
    return out


CONSTS = {"EdgeMultiMC.cfg": {"npre": 4, "nsamp": 8, "thr": 5, "nmono": 1, "mode": "var"},
          "EdgeMultiMCtwo.cfg": {"npre": 4, "nsamp": 8, "thr": 5, "nmono": 1, "mode": "two"},
          "EdgeMultiMCiso.cfg": {"npre": 4, "nsamp": 8, "thr": -5, "nmono": 2, "mode": "iso"},
          "EdgeMultiMCz.cfg": {"npre": 4, "nsamp": 8, "thr": 5, "nmono": 1, "mode": "var"},
          "EdgeMultiAsCode.cfg": {"npre": 4, "nsamp": 8, "thr": 5, "nmono": 1, "mode": "two"}}


def run(ctx):
    q = ctx.quick()
    scens = []
    for cfg in (["EdgeMultiMC.cfg", "EdgeMultiMCz.cfg"] if q else ["EdgeMultiMC.cfg", "EdgeMultiMCtwo.cfg", "EdgeMultiMCiso.cfg", "EdgeMultiMCz.cfg"]):
        r = vlib.run_tlc(ctx, "EdgeMulti", cfg, workers=16, timeout=3000, heap="24g")
        if r.violated:
            scens.append(scen_from_cex(r, CONSTS[cfg], "model-counterexample:%s:%s" % (cfg, r.violated), zero=False))
            ctx.notes.setdefault("model_counterexamples", []).append({"cfg": cfg, "invariant": r.violated})
    r = vlib.run_tlc(ctx, "EdgeMulti", "EdgeMultiAsCode.cfg", workers=8, timeout=900)
    if r.violated:
        # a trigger on the first searchable sample, shifted one sample earlier by the refinement: zero-threshold on, and a
        # ramp (not a bare step) so that the real kink fit does move the trigger
        base = scen_from_cex(r, CONSTS["EdgeMultiAsCode.cfg"], "deviation:FirstSampleGuard:" + r.violated, zero=True)
        scens.append(base)
        for slope in (1, 2, 3, 5, 8):
            s2 = json.loads(json.dumps(base))
            d = s2["data"][0]
            npre = s2["npre"]
            # a ramp that starts so that the threshold is first met at index npre
            for i in range(len(d)):
                d[i] = 1000 + (0 if i < npre - 1 else min((i - (npre - 2)) * slope * 3, 2000))
            s2["origin"] = "deviation:FirstSampleGuard:ramp%d" % slope
            scens.append(s2)
    n = 24 if q else 320
    for cfg in ("EdgeMultiSimVar.cfg", "EdgeMultiSimTwo.cfg", "EdgeMultiSimIso.cfg"):
        rs = vlib.run_tlc(ctx, "EdgeMultiSim", cfg, workers=8, simulate="num=%d" % max(1, n // 8), depth=41)   # num is per worker
        seen = set()
        for s in vlib.printed_json(rs.out, "SCEN"):
            k = json.dumps(s["steps"], sort_keys=True)
            if k in seen:
                continue
            seen.add(k)
            scens.append(scen_from_sim(s, "tlc-simulate:" + cfg, zero=(len(seen) % 4 == 0 and s["npre"] >= 4)))
    rng = random.Random(ctx.seed + 800)
    nr = 250 if q else 5000
    scens += [random_scen(rng) for _ in range(nr)]
    ncut = 0
    for _ in range(5 if q else 60):
        cs = all_cuts_scens(rng)
        ncut += len(cs)
        scens += cs
    ctx.notes["scenarios_all_two_block_cuts"] = ncut
    nl = 150 if q else 3000
    scens += [relen_scen(rng) for _ in range(nl)]
    ctx.notes["scenarios_relen"] = nl
    ctx.notes["scenarios_random"] = nr
    ctx.notes["scenarios_from_model"] = len(scens) - nr - nl - ncut
    sc.validate(ctx, scens, PREFIXES)
    # data drops: the source numbers a block later than the samples held would suggest (Lancero and ROACH after lost data);
    # gaps of every size around the record length and the retained history, with an edge pending at the block end
    tp = ctx.path("emdrop.ndjson")
    rc, out = vlib.go_test(ctx, "", sc.HARNESS, "TestVerifEMDrop$", env={"VERIF_OUT": tp}, timeout=1800)
    if rc != 0:
        raise vlib.MachineryError("edge-multi data-drop driver failed:\n" + out[-3000:])
    dviols, _ = vlib.validate_trace(ctx, "StreamTrace", "StreamTrace.cfg", tp, timeout=900)
    dev = vlib.read_ndjson(tp)
    ctx.notes["runs_with_data_drops"] = len(dev)
    for v in dviols:
        if not v["predicate"].startswith("C08_"):
            continue
        e = dev[v["line"] - 1]
        vlib.report_violation(ctx, {"predicate": v["predicate"], "event": "EMDrop", "where": (e["panic"] or "").split(":")[0]},
                              {"emdrop": {k: e[k] for k in ("npre", "nsamp", "mode", "zero", "drops", "panic")}})
    return vlib.finish(ctx, LEVEL, RULE,
                       ["the zero-threshold refinement is a floating-point fit: an oracle (shift -1/0/+1) in the model, the real function in the replayed executions",
                        "model signals are staircases/ramps of +-Threshold; seeded signals are ramps, steps and decaying pulses of random height",
                        "one-block run and partitioned run are compared after the same total stream plus 3 records of quiet padding",
                        "streams with data drops (frame numbers that jump between blocks) are checked for crash-freedom only: what records such a stream should yield is not stated by the property"])


def replay(ctx, path):
    return sc.replay(ctx, path, PREFIXES, LEVEL)
