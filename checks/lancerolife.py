"""Lancero life cycle and mix-fraction requests (LanceroLifecycle.tla / LanceroLifeSim.tla / LanceroLifeTrace.tla):
stage shared by C10 (C10_ predicates) and C11 (C11_ predicates)."""
import json
import os
import vlib

H = [os.path.join(vlib.HARNESS, "root", f) for f in ("common_test.go", "lifecycle_test.go", "lancerolife_test.go")]

# what the tree is expected to do, as switches of the model (TRUE = as the code was before the repairs); the as-tree
# configuration must be clean, each deviation must be violated (else the model has lost its teeth)
TREE_CFG = "LanceroLifeTree.cfg"
DEVIATIONS = [("LanceroLifeMixAnyTime.cfg", "C11_mix_answered"), ("LanceroLifeUnchecked.cfg", "C11_no_crash"), ("LanceroLifeStuck.cfg", "C10_failed_start_clean")]

FIXED = [
    {"origin": "fixed:mix-before-any-start", "steps": ["Mix:m1", "Start", "Mix:m2", "Stop", "StopWait"], "bad": []},
    {"origin": "fixed:mix-after-stop", "steps": ["Start", "Mix:m1", "Stop", "StopWait", "Mix:m2", "Start", "Mix:m1", "Stop", "StopWait"], "bad": []},
    {"origin": "fixed:mix-racing-stop", "steps": ["Start", "Wait", "Stop", "Mix:m1", "Mix:m2", "StopWait", "Start", "Mix:m1", "Stop", "StopWait"], "bad": []},
    {"origin": "fixed:mismatched-lists", "steps": ["Start", "Mix:m1", "Mix:m3", "Mix:m2", "Stop", "StopWait"], "bad": ["m3"]},
    {"origin": "fixed:mismatched-lists-not-running", "steps": ["Mix:m3", "Start", "Stop", "StopWait", "Mix:m3"], "bad": ["m3"]},
    {"origin": "fixed:silent-card", "steps": ["Start", "Silence", "Wait", "Mix:m1", "Stop", "StopWait", "Flow", "Start", "Mix:m2", "Couple", "Stop", "StopWait"], "bad": []},
    {"origin": "fixed:failed-start-then-runs", "steps": ["StartBad", "Mix:m1", "Start", "Mix:m2", "Stop", "StopWait", "StartBad", "Start", "Stop", "StopWait"], "bad": []},
    {"origin": "fixed:queued-requests-then-stop", "steps": ["Start", "Couple", "Wait", "Couple", "Mix:m1", "Couple", "Wait", "Stop", "StopWait", "Start", "Couple", "Stop", "StopWait"], "bad": []},
    {"origin": "fixed:three-runs", "steps": ["Start", "Stop", "StopWait", "Start", "Wait", "Stop", "StopWait", "Start", "Mix:m1", "Stop", "StopWait"], "bad": []},
]


def model_stage(ctx, q):
    r = vlib.run_tlc(ctx, "LanceroLifecycle", TREE_CFG, workers=4, timeout=900)
    if not r.ok:
        raise vlib.MachineryError("LanceroLifecycle %s: %s" % (TREE_CFG, r.violated))
    if not q:
        r = vlib.run_tlc(ctx, "LanceroLifecycle", "LanceroLifeTreeBig.cfg", workers=8, timeout=1800)
        if not r.ok:
            raise vlib.MachineryError("LanceroLifecycle LanceroLifeTreeBig.cfg: %s" % r.violated)
    scens = []
    for cfg, inv in DEVIATIONS:
        r = vlib.run_tlc(ctx, "LanceroLifecycle", cfg, workers=2, timeout=600)
        if not r.violated:
            raise vlib.MachineryError("deviation %s no longer violates %s: the model has lost its teeth" % (cfg, inv))
        ctx.notes.setdefault("lancero_life_deviations", []).append({"cfg": cfg, "violates": r.violated})
    r = vlib.run_tlc(ctx, "LanceroLifecycle", "LanceroLifeSilence.cfg", workers=2, timeout=600)
    ctx.notes["lancero_silent_card_ends_in_deliberate_panic"] = {"violated": r.violated, "meaning": "as the code is, a Lancero card that stops delivering makes the reader and getNextBlock panic after 10 s unless the source is stopped first (deliberate fail-stop, named deviation SilencePanics; observation, see DESIGN.md)"}
    return scens


def scenarios(ctx, q):
    scens = [dict(s) for s in FIXED]
    rs = vlib.run_tlc(ctx, "LanceroLifeSim", "LanceroLifeSim.cfg", workers=1, simulate="num=%d" % (40 if q else 600), depth=80)
    seen = set()
    for s in vlib.printed_json(rs.out, "SCEN"):
        steps = [a for a in s["steps"] if a != "End"]
        k = json.dumps(steps)
        if k in seen or "Start" not in steps:
            continue
        seen.add(k)
        scens.append({"origin": "tlc-simulate:LanceroLifeSim", "steps": steps, "bad": sorted(s["bad"])})
        if len(scens) >= (16 if q else 150):
            break
    return scens


def run_driver(ctx, scens):
    sp = ctx.path("ll_scen.json")
    json.dump(scens, open(sp, "w"))
    events, skip = [], 0
    for attempt in range(10):
        tpi = ctx.path("ll_trace_part%d.ndjson" % attempt)
        rc, out = vlib.go_test(ctx, "", H, "TestVerifLanceroLife$", env={"VERIF_SCEN": sp, "VERIF_OUT": tpi, "VERIF_SKIP": skip}, timeout=2400)
        part = vlib.read_ndjson(tpi) if os.path.exists(tpi) else []
        events.extend(part)
        if rc == 0:
            break
        begins = [e["scen"] for e in part if e["ev"] == "LLBegin"]
        if "panic:" not in out or not begins:
            raise vlib.MachineryError("lancero life driver failed:\n" + out[-4000:])
        msg = [l for l in out.splitlines() if l.startswith("panic:")]
        events.append({"ev": "Crash", "msg": msg[0] if msg else "?"})
        skip = begins[-1]
    else:
        raise vlib.MachineryError("lancero life driver keeps crashing:\n" + out[-2000:])
    tp = ctx.path("ll_trace.ndjson")
    vlib.write_ndjson(tp, events)
    return tp


def stage(ctx, prefixes, only=None):
    """only = one recorded scenario (replay of a violation)."""
    q = ctx.quick()
    if only is None:
        model_stage(ctx, q)
        scens = scenarios(ctx, q)
    else:
        scens = [only]
    tp = run_driver(ctx, scens)
    viols, done = vlib.validate_trace(ctx, "LanceroLifeTrace", "LanceroLifeTrace.cfg", tp, timeout=900)
    ev = vlib.read_ndjson(tp)
    ctx.notes["lancero_life_scenarios"] = len(scens)
    ctx.notes["lancero_life_mix_requests"] = sum(1 for e in ev if e["ev"] == "LLRet" and e["a"].startswith("Mix:"))
    ctx.notes["lancero_life_starts"] = sum(1 for e in ev if e["ev"] == "LLRet" and e["a"] == "Start")
    for v in viols:
        if not any(v["predicate"].startswith(p) for p in prefixes):
            continue
        e = ev[v["line"] - 1]
        k = v["line"] - 1
        while ev[k]["ev"] != "LLBegin":
            k -= 1
        sc = scens[ev[k]["scen"] - 1]
        sig = {"predicate": v["predicate"], "event": e["ev"], "layer": "lancero-life", "action": (e.get("a") or "").split(":")[0]}
        vlib.report_violation(ctx, sig, {"lancero_life": sc, "observed": e})
