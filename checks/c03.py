"""C03 — Abaco ingest: exact demultiplexing, gap filling, continuous frame numbering."""
import json
import os
import vlib

LEVEL = "model_checking"
HARNESS = [os.path.join(vlib.HARNESS, "root", "common_test.go"), os.path.join(vlib.HARNESS, "root", "abaco_test.go")]
FPP = {"FppEq1": [1, 1], "FppEq2": [2, 2], "FppEq3": [1, 1, 1], "FppNe": [1, 2], "FppOne": [2]}


def cfg_fpp(cfg):
    with open(os.path.join(vlib.SPEC, cfg)) as f:
        for line in f:
            if "Fpp <-" in line:
                return FPP[line.split("<-")[1].strip()]
    raise vlib.MachineryError("no Fpp in " + cfg)


def scen_from_acts(acts, fpp, origin, bits=16):
    """AbacoIngest behaviour -> driver scenario.  Model sn s is driver global sn s+1 (the driver needs two sampled
    packets per group, so the sampled prefix is 0..last0+1)."""
    last0 = None
    ticks, cur = [], None
    for a in acts:
        if a["a"] == "Init":
            last0 = list(a["last0"])
        elif a["a"] == "Arrive":
            if cur is None:
                cur = [[] for _ in fpp]
            cur[a["g"] - 1] = sorted(s + 1 for s in a["got"])
        elif a["a"] == "Process":
            ticks.append(cur if cur is not None else [[] for _ in fpp])
            cur = None
    if cur is not None:
        ticks.append(cur)
    groups, first = [], 0
    for gi, f in enumerate(fpp):
        nch = 1 + (gi % 2)
        groups.append({"first": first, "nch": nch, "fpp": f, "bits": bits, "off": 100 * gi,
                       "sample": list(range(0, last0[gi] + 2))})
        first += nch
    return {"origin": origin, "groups": groups, "frame0": 0, "neg": False, "rescale": False, "ticks": ticks, "flush": True,
            "nprod": 1}


def handmade():
    """Canonical histories (documentation of what the model found; also run when TLC's counterexample differs)."""
    g2 = lambda f: [{"first": 0, "nch": 2, "fpp": f, "bits": 16, "off": 0, "sample": [0, 1]},
                    {"first": 2, "nch": 1, "fpp": f, "bits": 32, "off": 5000, "sample": [0, 1]}]
    base = {"frame0": 1000, "neg": False, "rescale": False, "flush": True, "nprod": 1}
    out = []
    # leftovers from the min-frames rule, then a gap
    out.append(dict(base, origin="hand:leftover-then-gap", groups=g2(1), ticks=[[[2, 3, 4], [2]], [[5, 7], [3, 4, 5, 6, 7]]]))
    # gap filled in a tick that is abandoned because the other group has no data
    out.append(dict(base, origin="hand:fill-in-abandoned-tick", groups=g2(2), ticks=[[[2, 4], []], [[5], [2, 3, 4, 5]]]))
    # lost first packets of one group after sampling
    out.append(dict(base, origin="hand:lost-first", groups=g2(1), ticks=[[[4, 5], [2, 3, 4, 5]]]))
    # sequence numbers near the 32-bit wrap are not part of this list (see DESIGN.md, C03 limits)
    return out


def run_driver(ctx, scens, nrandom, tag="t"):
    sp = ctx.path("scen_%s.json" % tag)
    with open(sp, "w") as f:
        json.dump(scens, f)
    tp = ctx.path("trace_%s.ndjson" % tag)
    rc, out = vlib.go_test(ctx, "", HARNESS, "TestVerifAbaco", env={"VERIF_SCEN": sp, "VERIF_OUT": tp, "VERIF_NRANDOM": nrandom},
                           timeout=1200)
    if rc != 0:
        raise vlib.MachineryError("abaco driver failed:\n" + out[-3000:])
    return tp


def split(events):
    scs, cur = [], None
    for i, e in enumerate(events):
        if e["ev"] == "Config":
            cur = {"id": e["scen"], "first": i + 1, "cfg": e, "events": []}
            scs.append(cur)
        cur["events"].append(e)
    return scs


def judge(ctx, events, viols, scens):
    scs = split(events)
    for s in scs:
        arr = [e["arr"] for e in s["events"] if e["ev"] == "Tick"]
        lost = False
        lag = any(any(len(g) == 0 for g in a) for a in arr)
        for gi in range(s["cfg"]["ng"]):
            got = sorted(x for a in arr for x in a[gi])
            if got and len(got) < got[-1] - s["cfg"]["last0"][gi]:
                lost = True
        nblk = sum(1 for e in s["events"] if e["ev"] == "Block")
        vlib.add_case(ctx, [s["cfg"]["fpp"], s["cfg"]["cg"], s["cfg"]["last0"], arr], nontrivial=lost and nblk > 0 and (lag or nblk > 1))
    ctx.samples = [{"origin": s["cfg"].get("origin"), "fpp": s["cfg"]["fpp"], "channels_to_group": s["cfg"]["cg"],
                    "ticks": [e["arr"] for e in s["events"] if e["ev"] == "Tick"][:6],
                    "blocks": [[e["first"], e["n"], e["dropped"]] for e in s["events"] if e["ev"] == "Block"][:6]} for s in scs[:4]]
    ctx.notes["blocks"] = sum(1 for e in events if e["ev"] == "Block")
    for v in viols:
        s = [x for x in scs if x["first"] <= v["line"]][-1]
        e = s["events"][v["line"] - s["first"]]
        fpp = s["cfg"]["fpp"]
        sig = {"predicate": v["predicate"], "event": e["ev"], "unequal_fpp": len(set(fpp)) > 1}
        if e["ev"] == "Panic":
            msg = e.get("msg") or ""
            sig["panic"] = "frames to fill" if "frames to fill" in msg else msg[:60]
        sc = scens[s["id"] - 1] if s["id"] - 1 < len(scens) else {"seeded": True, "config": s["cfg"], "events": s["events"][:40]}
        vlib.report_violation(ctx, sig, sc)


def validate(ctx, scens, nrandom, tag="t"):
    tp = run_driver(ctx, scens, nrandom, tag)
    viols, done = vlib.validate_trace(ctx, "AbacoTrace", "AbacoTrace.cfg", tp, heap="8g", timeout=1800)
    events = vlib.read_ndjson(tp)
    judge(ctx, events, viols, scens)
    return events, viols


def run(ctx):
    q = ctx.quick()
    scens = []
    # 1. exhaustive: the code-shaped model with every deviation switch off must satisfy the property layer
    for cfg in (["AbacoMCq.cfg", "AbacoMC2.cfg"] if q else ["AbacoMC.cfg", "AbacoMC2.cfg", "AbacoMC3.cfg", "AbacoMCBig.cfg"]):
        r = vlib.run_tlc(ctx, "AbacoIngest", cfg, workers=16, timeout=3000, heap="24g")
        if r.violated:
            # the model says the design is wrong: replay the counterexample; only the real trace decides
            acts = [st["act"] for st in r.error_trace if "act" in st]
            scens.append(scen_from_acts(acts, cfg_fpp(cfg), "model-counterexample:%s:%s" % (cfg, r.violated)))
            ctx.notes.setdefault("model_counterexamples", []).append({"cfg": cfg, "invariant": r.violated})
    # 2. one run per deviation switch: canonical failing history of that defect, replayed on the code
    for cfg in ("AbacoAsCodeFill.cfg", "AbacoAsCodeDrop.cfg", "AbacoNe.cfg"):
        r = vlib.run_tlc(ctx, "AbacoIngest", cfg, workers=8, timeout=900)
        if r.violated:
            acts = [st["act"] for st in r.error_trace if "act" in st]
            sc = scen_from_acts(acts, cfg_fpp(cfg), "deviation:%s:%s" % (cfg, r.violated))
            # the map-order choice cannot be forced: repeat
            scens.extend([sc] * 30)
    scens.extend(handmade())
    # 3. behaviours from the spec
    for cfg, depth in (("AbacoSim.cfg", 21), ("AbacoSim3.cfg", 27)):
        rs = vlib.run_tlc(ctx, "AbacoSim", cfg, workers=1, simulate="num=%d" % (60 if q else 600), depth=depth)
        seen = set()
        for s in vlib.printed_json(rs.out, "SCEN"):
            k = json.dumps(s["steps"], sort_keys=True)
            if k in seen:
                continue
            seen.add(k)
            scens.append(scen_from_acts(s["steps"], list(s["fpp"]), "tlc-simulate", bits=32 if len(seen) % 3 == 0 else 16))
    nrandom = 300 if q else 5000
    ctx.notes["scenarios_from_model"] = len(scens)
    ctx.notes["scenarios_random"] = nrandom
    validate(ctx, scens, nrandom)
    return vlib.finish(ctx, LEVEL,
                       "scenario = (group layout, sampled prefix, arrivals per tick); distinct by hash; non-trivial = at least one packet lost, at least one block emitted, and a lagging group/empty tick or more than one block",
                       ["sample identity coded into 11 bits (channel, sequence number mod 60, frame in packet): displacement by 60 packets would be invisible",
                        "sequence numbers far from the 32-bit wrap; frames per packet 1..3; <= 3 groups; <= 20 sequence numbers",
                        "reader tick shortened to 2 ms and buffersChan enlarged by the driver (same loop body)",
                        "the order in which the reader visits the group map cannot be forced; order-dependent histories are repeated"],
                       exhaustive=False)


def replay(ctx, path):
    with open(path) as f:
        obj = json.load(f)
    sc = obj["replay"]
    if sc.get("seeded"):
        raise vlib.MachineryError("seeded scenario: re-run with the same VERIF_SEED")
    validate(ctx, [sc] * 30, 0)
    return vlib.finish(ctx, LEVEL, "replay of one recorded scenario (30 repetitions for map order)", [])
