"""Common machinery for the dastard model-based checks: scratch dirs, Go overlay builds, TLC runs,
trace validation, verdicts, findings, evidence."""
import glob
import hashlib
import json
import os
import re
import shutil
import subprocess
import sys
import tempfile
import time

VERIF = os.path.dirname(os.path.dirname(os.path.abspath(__file__)))
REPO = os.environ.get("VERIF_REPO", "/repo")
SPEC = os.path.join(VERIF, "spec")
HARNESS = os.path.join(VERIF, "harness")
EVID = os.path.join(VERIF, "evidence")
TLA_JAR = "/opt/veriftools/tla/tla2tools.jar:/opt/veriftools/tla/CommunityModules-deps.jar"

EXIT_OK, EXIT_VIOL, EXIT_MACH = 0, 1, 2


class MachineryError(Exception):
    """Anything that is not a verdict about the code: exit 2."""


def goenv():
    e = dict(os.environ)
    e.update(GOFLAGS="-mod=mod", GOPROXY="off", GOSUMDB="off", GOTOOLCHAIN="local")
    e.setdefault("GOCACHE", os.path.expanduser("~/.cache/go-build"))
    return e


class Ctx:
    """One run of one property check."""

    def __init__(self, pid, tier, seed):
        self.pid = pid
        self.tier = tier
        self.seed = seed
        self.t0 = time.time()
        base = os.environ.get("VERIF_SCRATCH_BASE") or tempfile.gettempdir()
        self.scratch = tempfile.mkdtemp(prefix="verif_%s_" % pid, dir=base)
        self.keep = os.path.join(VERIF, "out", pid)  # replay artefacts of violations (git-ignored)
        self.states = 0
        self.transitions = 0
        self.traces = 0
        self.events = 0
        self.samples = []
        self.notes = {}
        self.violations = []   # dicts: predicate, scenario, line, sig, detail
        self.known_hits = []
        self.mc_runs = []
        self.drift = []
        self.cases = set()
        self.evaluations = 0

    def path(self, *a):
        return os.path.join(self.scratch, *a)

    def cleanup(self):
        if os.environ.get("VERIF_KEEP_SCRATCH"):     # debugging aid: leave traces and scenario files in place
            print("scratch kept: " + self.scratch)
            return
        shutil.rmtree(self.scratch, ignore_errors=True)

    def quick(self):
        return self.tier == "quick"


# ------------------------------------------------------------------------------------------ Go side

def overlay_for(pkg_rel, harness_files, scratch, hide_tests=True):
    """Build an overlay JSON that hides the package's own *_test.go files and injects ours."""
    pkgdir = os.path.join(REPO, pkg_rel) if pkg_rel not in ("", ".") else REPO
    repl = {}
    if hide_tests:
        for f in glob.glob(os.path.join(pkgdir, "*_test.go")):
            repl[f] = ""
    for h in harness_files:
        dst = os.path.join(pkgdir, "zz_verif_" + os.path.basename(h))
        if not dst.endswith("_test.go"):
            dst = dst[:-3] + "_test.go"
        repl[dst] = h
    ov = os.path.join(scratch, "overlay_%s.json" % (pkg_rel.replace("/", "_") or "root"))
    with open(ov, "w") as f:
        json.dump({"Replace": repl}, f)
    return ov


def go_test(ctx, pkg_rel, harness_files, run, env=None, tags="verif", race=False, timeout=600,
            extra=None):
    """Compile the harness into /repo's package via overlay and run one Test function.
    Returns (rc, output). A build failure raises MachineryError."""
    ov = overlay_for(pkg_rel, harness_files, ctx.scratch)
    pkg = "./" + pkg_rel if pkg_rel not in ("", ".") else "."
    cmd = ["go", "test", "-overlay", ov, "-vet=off", "-count=1", "-run", run,
           "-timeout", "%ds" % timeout]
    if tags:
        cmd += ["-tags", tags]
    if race:
        cmd += ["-race"]
    if extra:
        cmd += extra
    cmd += [pkg]
    e = goenv()
    e["VERIF_SEED"] = str(ctx.seed)
    e["VERIF_TIER"] = ctx.tier
    e["TMPDIR"] = ctx.scratch
    if env:
        e.update({k: str(v) for k, v in env.items()})
    try:
        p = subprocess.run(cmd, cwd=REPO, env=e, stdout=subprocess.PIPE, stderr=subprocess.STDOUT,
                           timeout=timeout + 120, text=True, errors="replace")
    except subprocess.TimeoutExpired as ex:
        raise MachineryError("go test timed out: %s" % " ".join(cmd)) from ex
    out = p.stdout
    if "[build failed]" in out or "[setup failed]" in out or re.search(r"^# ", out, re.M) and "FAIL" in out and "--- FAIL" not in out and "panic:" not in out:
        raise MachineryError("harness build failed:\n" + out[-4000:])
    return p.returncode, out


def read_ndjson(path):
    out = []
    with open(path) as f:
        for line in f:
            line = line.strip()
            if line:
                out.append(json.loads(line))
    return out


def write_ndjson(path, events):
    with open(path, "w") as f:
        for e in events:
            f.write(json.dumps(e, separators=(",", ":")) + "\n")


# ------------------------------------------------------------------------------------------ TLC

class TLCResult:
    def __init__(self):
        self.rc = None
        self.out = ""
        self.generated = 0
        self.distinct = 0
        self.ok = False
        self.violated = None       # invariant / property name
        self.error_trace = []      # list of state dicts
        self.printed = []          # parsed PrintT values
        self.wall = 0.0
        self.depth = 0


def _stage(ctx, files, name):
    d = ctx.path(name)
    os.makedirs(d, exist_ok=True)
    for f in files:
        shutil.copy(f, d)
    return d


def spec_files():
    return glob.glob(os.path.join(SPEC, "*.tla"))


def run_tlc(ctx, module, cfg, workers="auto", simulate=None, depth=None, extra_files=None,
            timeout=900, heap=None, deque=False, stage=None, dump_trace=True, coverage=False,
            seed=None, xss=False):
    """Run TLC on spec/<module>.tla with spec/<cfg>. extra_files: {name: path or text} put next to it."""
    from tlaval import parse_states, parse, unset
    d = _stage(ctx, spec_files(), stage or ("tlc_%s_%d" % (cfg.replace(".", "_"), len(ctx.mc_runs))))
    shutil.copy(os.path.join(SPEC, cfg), os.path.join(d, cfg))
    for name, src in (extra_files or {}).items():
        dst = os.path.join(d, name)
        if os.path.exists(str(src)):
            shutil.copy(src, dst)
        else:
            with open(dst, "w") as f:
                f.write(src)
    meta = os.path.join(d, "meta")
    jtmp = os.path.join(d, "jtmp")      # TLC's tlc-<n> directories go here, not to /tmp
    os.makedirs(jtmp, exist_ok=True)
    java = ["java", "-XX:+UseParallelGC", "-Djava.io.tmpdir=" + jtmp]
    if heap:
        java += ["-Xmx" + heap]
    if xss:
        java += ["-Xss512m"]
    if deque:
        java += ["-Dtlc2.tool.queue.IStateQueue=StateDeque"]
    cmd = java + ["-cp", TLA_JAR, "tlc2.TLC", "-noGenerateSpecTE", "-metadir", meta,
                  "-config", cfg, "-workers", str(workers)]
    if simulate:
        cmd += ["-simulate", simulate]
        if depth:
            cmd += ["-depth", str(depth)]
        cmd += ["-seed", str(seed if seed is not None else ctx.seed)]
    elif depth:
        cmd += ["-depth", str(depth)]
    if coverage:
        cmd += ["-coverage", "1"]
    tj = os.path.join(d, "cex.json")
    if dump_trace and not simulate:
        cmd += ["-dumpTrace", "json", tj]
    cmd += [module]
    r = TLCResult()
    t0 = time.time()
    try:
        p = subprocess.run(cmd, cwd=d, stdout=subprocess.PIPE, stderr=subprocess.STDOUT,
                           timeout=timeout, text=True, errors="replace")
    except subprocess.TimeoutExpired as ex:
        subprocess.run(["pkill", "-f", "metadir " + meta])
        raise MachineryError("TLC timed out after %ss on %s/%s" % (timeout, module, cfg)) from ex
    r.wall = time.time() - t0
    r.rc = p.returncode
    r.out = p.stdout
    ctx.last_tlc_out = r.out
    m = re.findall(r"(\d+) states generated, (\d+) distinct states found", r.out)
    if m:
        r.generated, r.distinct = int(m[-1][0]), int(m[-1][1])
    m = re.search(r"The depth of the complete state graph search is (\d+)", r.out)
    if m:
        r.depth = int(m.group(1))
    r.ok = "Model checking completed. No error has been found." in r.out or \
        (simulate is not None and p.returncode == 0)
    m = re.search(r"Invariant (\S+) is violated", r.out)
    if m:
        r.violated = m.group(1)
    m2 = re.search(r"Action property (\S+) is violated", r.out)
    if m2:
        r.violated = m2.group(1)
    if "Temporal properties were violated" in r.out:
        r.violated = r.violated or "TEMPORAL"
    if "Deadlock reached" in r.out:
        r.violated = r.violated or "DEADLOCK"
    if r.violated:
        try:
            i = r.out.index("Error:")
            r.error_trace = parse_states(r.out[i:])
        except Exception:
            r.error_trace = []
    if os.path.exists(tj):
        try:
            with open(tj) as f:
                r.cex_json = json.load(f)
        except Exception:
            r.cex_json = None
    else:
        r.cex_json = None
    r.dir = d
    ctx.mc_runs.append({"module": module, "cfg": cfg, "generated": r.generated,
                        "distinct": r.distinct, "wall_s": round(r.wall, 2),
                        "result": "ok" if r.ok else (r.violated or "error"),
                        "simulate": simulate or ""})
    if not simulate:
        ctx.states += r.distinct
        ctx.transitions += r.generated
    if not r.ok and not r.violated:
        raise MachineryError("TLC failed on %s/%s (rc=%s):\n%s" % (module, cfg, r.rc, r.out[-3000:]))
    return r


def printed_json(out, marker):
    """Extract values printed by PrintT(<<marker, ToJson(x)>>) or PrintT(ToJson(x)) preceded by marker line.
    We use the convention PrintT(<<"MARK", json-string>>): TLC prints <<"MARK", "....">> on one line."""
    res = []
    pat = re.compile(r'^<<"%s", (".*")>>$' % re.escape(marker))
    for line in out.splitlines():
        m = pat.match(line.strip())
        if m:
            try:
                s = json.loads(m.group(1))
                res.append(json.loads(s))
            except Exception:
                # TLC escapes only \" and \\ ; fall back
                s = m.group(1)[1:-1].replace('\\"', '"').replace("\\\\", "\\")
                res.append(json.loads(s))
    return res


# ------------------------------------------------------------------------------------------ trace validation

def validate_trace(ctx, module, cfg, trace_path, timeout=900, heap=None, extra_files=None, workers=1,
                   deque=False, xss=False):
    """Run a *Trace spec over an NDJSON trace. Convention (deterministic style):
      - spec reads "trace.ndjson" from cwd
      - every rejected predicate is printed as  <<"VIOL", line, "predicate", scen>>
      - <<"DONE", nlines, nscen>> printed by the POSTCONDITION when every line was consumed
    Returns list of viol dicts. Raises MachineryError when the trace was not consumed."""
    ef = {"trace.ndjson": trace_path}
    ef.update(extra_files or {})
    r = run_tlc(ctx, module, cfg, workers=workers, extra_files=ef, timeout=timeout, heap=heap,
                dump_trace=False, deque=deque, xss=xss,
                stage="tv_%s_%d" % (module, len(ctx.mc_runs)))
    # trace-validation states are not model-checking states: take them out again
    ctx.states -= r.distinct
    ctx.transitions -= r.generated
    viols = []
    done = None
    for line in r.out.splitlines():
        line = line.strip()
        m = re.match(r'^<<"VIOL", (-?\d+), "([^"]+)", (-?\d+)(?:, (.*))?>>$', line)
        if m:
            viols.append({"line": int(m.group(1)), "predicate": m.group(2), "scen": int(m.group(3)),
                          "detail": m.group(4) or ""})
        m = re.match(r'^<<"DONE", (\d+), (\d+)>>$', line)
        if m:
            done = (int(m.group(1)), int(m.group(2)))
    if r.violated or done is None:
        raise MachineryError("trace %s not fully consumed by %s (violated=%s)\n%s" %
                             (trace_path, module, r.violated, r.out[-3000:]))
    ctx.events += done[0]
    ctx.traces += done[1]
    if os.environ.get("VERIF_BINDING"):
        base = len(re.findall(r'^<<"(?:VIOL|OBS|DRIFT)", ', r.out, re.M))
        binding_selftest(ctx, module, cfg, trace_path, ef, timeout, heap, workers, deque, xss, base)
    return viols, done


def _numeric_leaves(obj, path=()):
    """Paths of the leaves of a JSON value that can be corrupted: integers (+1), booleans (flipped), short strings ('~' appended)."""
    if isinstance(obj, bool):
        yield path
    elif isinstance(obj, str):
        if len(obj) < 200:
            yield path
    elif isinstance(obj, int):
        yield path
    elif isinstance(obj, list):
        for i, v in enumerate(obj):
            yield from _numeric_leaves(v, path + (i,))
    elif isinstance(obj, dict):
        for k in sorted(obj):
            yield from _numeric_leaves(obj[k], path + (k,))


def binding_selftest(ctx, module, cfg, trace_path, ef, timeout, heap, workers, deque, xss, base=0):
    """Binding self-test (VERIF_BINDING=1): the trace just validated is corrupted in ONE recorded number (one integer
    leaf of one event, +1) and validated again; the trace spec must object to the copy (more VIOL / OBS lines than for the
    original, or a failed run).  (event, leaf) pairs are drawn at random (seeded); up to 40 are tried, since a logged field
    may be informative only.  The outcome goes into the notes and, via bin/bindingtest, into binding_selftest.json."""
    import copy
    import random as _random
    events = read_ndjson(trace_path)
    if len(events) > 6000:            # very long traces: the first scenarios are enough for this purpose
        first = events[0].get("ev")
        cut = max(i for i in range(1, 6000) if events[i].get("ev") == first)
        events = events[:cut] if cut > 10 else events[:6000]
        base = None                   # the truncated trace has its own baseline: measured below
    rng = _random.Random(1234 + len(events))
    pairs = []
    for i, e in enumerate(events):
        for pth in _numeric_leaves(e):
            if pth and pth[0] not in ("scen", "ev", "i", "k", "line", "census", "ms", "origin", "where", "msg", "what", "snap", "got", "err", "finalstoperr", "kind"):
                pairs.append((i, pth))
    rng.shuffle(pairs)
    tried, outcome = [], None

    def run_on(evs, tag):
        cp = ctx.path("binding_%s_%s.ndjson" % (module, tag))
        write_ndjson(cp, evs)
        ef2 = dict(ef)
        ef2["trace.ndjson"] = cp
        r = run_tlc(ctx, module, cfg, workers=workers, extra_files=ef2, timeout=timeout, heap=heap, dump_trace=False,
                    deque=deque, xss=xss, stage="bind_%s_%s" % (module, tag))
        ctx.states -= r.distinct
        ctx.transitions -= r.generated
        return r, len(re.findall(r'^<<"(?:VIOL|OBS|DRIFT)", ', r.out, re.M))

    if base is None:
        _, base = run_on(events, "base")
    for (i, pth) in pairs[:40]:
        ev2 = copy.deepcopy(events)
        o = ev2[i]
        for key in pth[:-1]:
            o = o[key]
        v0 = o[pth[-1]]
        o[pth[-1]] = (not v0) if isinstance(v0, bool) else (v0 + "~") if isinstance(v0, str) else v0 + 1
        r, nv = run_on(ev2, str(len(tried)))
        desc = {"event": i + 1, "ev": events[i].get("ev"), "field": "/".join(map(str, pth)), "objections": nv - base, "tlc_ok": bool(r.ok)}
        tried.append(desc)
        if nv > base or not r.ok:
            outcome = desc
            break
    res = {"module": module, "events": len(events), "rejected": outcome is not None, "by": outcome, "tried": len(tried)}
    ctx.notes.setdefault("binding_selftest", []).append(res)
    print("BINDING %s %s: %s" % (ctx.pid, module, json.dumps(res)))
    if outcome is None:
        raise MachineryError("binding self-test: %s accepted a trace corrupted in %d different recorded numbers: %s" % (module, len(tried), [t["ev"] + ":" + t["field"] for t in tried][:12]))


# ------------------------------------------------------------------------------------------ findings / verdict

def load_findings():
    p = os.path.join(VERIF, "known_findings.json")
    if not os.path.exists(p):
        return {"findings": [], "fixed": []}
    with open(p) as f:
        return json.load(f)


def match_finding(pid, sig):
    """sig: dict describing the failing history (predicate + derived facts). A finding matches when
    every key of its 'match' dict equals the signature's value (lists: membership)."""
    for f in load_findings().get("findings", []):
        if f["property"] != pid:
            continue
        ok = True
        for k, v in f.get("match", {}).items():
            sv = sig.get(k)
            if isinstance(v, list):
                if sv not in v:
                    ok = False
            elif sv != v:
                ok = False
        if ok:
            return f
    return None


def report_violation(ctx, sig, replay_obj):
    """Decide KNOWN-FINDING vs VIOLATION for one rejected real-code trace. replay_obj is saved."""
    f = match_finding(ctx.pid, sig)
    if f is not None:
        if f["id"] not in [k["id"] for k in ctx.known_hits]:
            ctx.known_hits.append({"id": f["id"], "what": f["what"], "sig": sig})
        return False
    os.makedirs(ctx.keep, exist_ok=True)
    h = hashlib.sha1(json.dumps(sig, sort_keys=True).encode()).hexdigest()[:10]
    path = os.path.join(ctx.keep, "viol_%s_%s.json" % (ctx.pid, h))
    with open(path, "w") as fh:
        json.dump({"property": ctx.pid, "signature": sig, "replay": replay_obj}, fh, indent=1)
    ctx.violations.append({"sig": sig, "replay": path})
    return True


def add_case(ctx, obj, nontrivial=True):
    ctx.evaluations += 1
    if nontrivial:
        ctx.cases.add(hashlib.sha1(json.dumps(obj, sort_keys=True).encode()).hexdigest())


def finish(ctx, level, rule, assumptions, extra=None, exhaustive=False):
    """Write evidence, print verdict lines, return exit code."""
    for k in ctx.known_hits:
        print("KNOWN-FINDING: property=%s %s [%s]" % (ctx.pid, k["what"], k["id"]))
    seen = set()
    for v in ctx.violations:
        if v["replay"] in seen:
            continue
        seen.add(v["replay"])
        print("VIOLATION property=%s replay=%s" % (ctx.pid, v["replay"]))
        print("  signature: %s" % json.dumps(v["sig"], sort_keys=True)[:600])
    cov = {
        "states": max(ctx.states, 0),
        "transitions": max(ctx.transitions, 0),
        "traces_validated_against_impl": ctx.traces,
        "trace_events_validated": ctx.events,
        "samples": ctx.samples[:6] if ctx.samples else ["(none)"],
        "evaluations": max(ctx.evaluations, 0),
        "distinct_nontrivial": len(ctx.cases),
        "rule": rule,
        "exhaustive": exhaustive,
        "tlc_runs": ctx.mc_runs,
        "known_findings_hit": [k["id"] for k in ctx.known_hits],
        "model_drift": ctx.drift[:10],
    }
    cov.update(ctx.notes)
    if extra:
        cov.update(extra)
    ev = {
        "property_id": ctx.pid,
        "tier": ctx.tier,
        "seed": ctx.seed,
        "level": level,
        "coverage": cov,
        "assumptions": assumptions,
        "wall_s": round(time.time() - ctx.t0, 2),
        "violations": len(seen),
    }
    os.makedirs(EVID, exist_ok=True)
    # a replay of one recorded scenario must not replace the evidence of the last full run
    name = ctx.pid + (".replay.json" if getattr(ctx, "is_replay", False) else ".json")
    with open(os.path.join(EVID, name), "w") as f:
        json.dump(ev, f, indent=1, default=str)
    print("%s %s tier=%s seed=%d: states=%d traces=%d events=%d evaluations=%d known=%d violations=%d wall=%.1fs" % (
        "FAIL" if seen else "PASS", ctx.pid, ctx.tier, ctx.seed, max(ctx.states, 0), ctx.traces, ctx.events,
        ctx.evaluations, len(ctx.known_hits), len(seen), time.time() - ctx.t0))
    return EXIT_VIOL if seen else EXIT_OK
