"""Tiny parser for TLA+ values as printed by TLC (states, error traces, -simulate files).

Supported: integers, strings, TRUE/FALSE, model values / identifiers, sequences <<..>>,
sets {..}, records [a |-> v, ...], functions (k :> v @@ k :> v), intervals a..b.
Returns python: int, str, bool, list (sequence), frozenset-ish list tagged ("set", [...]),
dict (record / function).
"""
import re

_tok = re.compile(r'\s*(<<|>>|\|->|:>|@@|\.\.|[\[\]{}(),]|-?\d+|"(?:[^"\\]|\\.)*"|[A-Za-z_][A-Za-z0-9_!]*)')


def tokenize(s):
    pos = 0
    out = []
    n = len(s)
    while pos < n:
        m = _tok.match(s, pos)
        if not m:
            if s[pos:].strip() == "":
                break
            raise ValueError("tlaval: cannot tokenize at %r" % s[pos:pos + 40])
        out.append(m.group(1))
        pos = m.end()
    return out


class _P:
    def __init__(self, toks):
        self.t = toks
        self.i = 0

    def peek(self):
        return self.t[self.i] if self.i < len(self.t) else None

    def next(self):
        x = self.t[self.i]
        self.i += 1
        return x

    def expect(self, x):
        y = self.next()
        if y != x:
            raise ValueError("tlaval: expected %r got %r" % (x, y))

    def value(self):
        v = self.atom()
        # function literal chain  a :> b @@ c :> d
        if self.peek() == ":>":
            d = {}
            k = v
            self.next()
            d[_key(k)] = self.atom_nofun()
            while self.peek() == "@@":
                self.next()
                k = self.atom()
                self.expect(":>")
                d[_key(k)] = self.atom_nofun()
            return d
        if self.peek() == "..":
            self.next()
            hi = self.atom()
            return ("set", list(range(v, hi + 1)))
        return v

    def atom_nofun(self):
        return self.atom()

    def atom(self):
        t = self.next()
        if t == "<<":
            out = []
            while self.peek() != ">>":
                out.append(self.value())
                if self.peek() == ",":
                    self.next()
            self.next()
            return out
        if t == "{":
            out = []
            while self.peek() != "}":
                out.append(self.value())
                if self.peek() == ",":
                    self.next()
            self.next()
            return ("set", out)
        if t == "[":
            d = {}
            while self.peek() != "]":
                k = self.next()
                self.expect("|->")
                d[k] = self.value()
                if self.peek() == ",":
                    self.next()
            self.next()
            return d
        if t == "(":
            v = self.value()
            self.expect(")")
            return v
        if t[0] == '"':
            return bytes(t[1:-1], "utf-8").decode("unicode_escape")
        if re.fullmatch(r"-?\d+", t):
            return int(t)
        if t == "TRUE":
            return True
        if t == "FALSE":
            return False
        return t  # model value / identifier


def _key(k):
    if isinstance(k, list):
        return tuple(k)
    return k


def parse(s):
    p = _P(tokenize(s))
    v = p.value()
    return v


def unset(v):
    """Convert ("set", [...]) markers recursively into sorted lists where possible."""
    if isinstance(v, tuple) and len(v) == 2 and v[0] == "set":
        xs = [unset(x) for x in v[1]]
        try:
            return sorted(xs)
        except TypeError:
            return xs
    if isinstance(v, list):
        return [unset(x) for x in v]
    if isinstance(v, dict):
        return {k: unset(x) for k, x in v.items()}
    return v


_state_hdr = re.compile(r'^(?:STATE_\d+ ==|State \d+: .*|\d+: .*)$')


def parse_states(text):
    """Parse a TLC textual behaviour (error trace in stdout or a -simulate file) into a list
    of dicts var -> value."""
    states = []
    cur = None
    buf = None
    name = None

    def flush():
        nonlocal buf, name
        if name is not None and cur is not None:
            cur[name] = unset(parse(" ".join(buf)))
        buf = None
        name = None

    for line in text.splitlines():
        if re.match(r'^(STATE_\d+ ==|State \d+:)', line.strip()):
            flush()
            if cur is not None:
                states.append(cur)
            cur = {}
            continue
        if cur is None:
            continue
        m = re.match(r'^\s*/\\ ([A-Za-z_][A-Za-z0-9_]*) = (.*)$', line)
        if m:
            flush()
            name = m.group(1)
            buf = [m.group(2)]
            continue
        if line.strip() == "" or line.startswith("====") or line.startswith("----"):
            flush()
            continue
        if name is not None:
            buf.append(line.strip())
    flush()
    if cur:
        states.append(cur)
    return states
