"""Scenario generators for the stream driver (C01 / C02 / C08 / C09): explicit per-channel sample streams,
block partitions, trigger settings and control histories, from a seed or from TLC behaviours."""
import random


def trig_off():
    return {"auto": False, "autodelay": 0, "autoveto": 0, "level": False, "levelrising": True, "levellevel": 0,
            "edge": False, "edgerising": True, "edgefalling": False, "edgelevel": 0,
            "em": False, "emmode": 0, "emthr": 0, "emnmono": 1, "emzero": False}


def u16(v):
    return int(v) & 0xffff


def make_stream(rng, n, signed, nsamp, kind=None):
    """One channel's stream: baseline + pulses/steps/ramps. Returns list of uint16 values and pulse amplitude."""
    if signed:
        base = rng.choice([0, -50, 100, -30000, 30000, -1])
    else:
        base = rng.choice([0, 100, 1000, 32768, 60000, 65000])
    amp = rng.choice([8, 20, 100, 1000])
    kind = kind or rng.choice(["pulses", "steps", "pulses", "mixed", "flat"])
    xs = [base] * n
    lo, hi = (-32768, 32767) if signed else (0, 65535)
    npulse = 0 if kind == "flat" else rng.randint(1, max(1, n // max(nsamp, 1)))
    for _ in range(npulse):
        p = rng.randrange(0, n)
        k = kind if kind != "mixed" else rng.choice(["pulses", "steps"])
        sign = rng.choice([1, 1, 1, -1])
        rise = rng.randint(1, 3)
        if k == "steps":
            for i in range(p, n):
                xs[i] += sign * amp * min(i - p + 1, rise) // rise
        else:
            decay = rng.choice([0.5, 0.8, 0.95])
            a = float(amp * sign)
            for i in range(p, n):
                j = i - p
                if j < rise:
                    xs[i] += int(a * (j + 1) / rise)
                else:
                    xs[i] += int(a * decay ** (j - rise + 1))
    if rng.random() < 0.3:
        for i in range(n):
            xs[i] += rng.randint(-1, 1)
    xs = [min(hi, max(lo, v)) for v in xs]
    return [u16(v) for v in xs], amp, base


def block_sizes(rng, total, nsamp):
    sizes = []
    choices = [1, 2, 3, nsamp - 1, nsamp, nsamp + 1, 2 * nsamp, 2 * nsamp + 2, 2 * nsamp + 11, 3 * nsamp, 5 * nsamp]
    mode = rng.choice(["mixed", "mixed", "tiny", "big", "record"])
    left = total
    while left > 0:
        if mode == "tiny":
            b = rng.choice([1, 2, 3])
        elif mode == "big":
            b = rng.choice([2 * nsamp + 2, 3 * nsamp, 5 * nsamp, 8 * nsamp])
        elif mode == "record":
            b = rng.choice([nsamp - 1, nsamp, nsamp + 1])
        else:
            b = rng.choice(choices)
        b = max(1, min(b, left))
        sizes.append(b)
        left -= b
    return sizes


def rand_trig(rng, nsamp, amp, base, signed, allow_em=False):
    t = trig_off()
    r = rng.random()
    if allow_em and r < 0.0:
        pass
    kinds = rng.choice([["edge"], ["edge"], ["level"], ["auto"], ["edge", "level"], ["edge", "auto"], ["level", "auto"], ["edge", "level", "auto"]])
    if "edge" in kinds:
        t["edge"] = True
        t["edgerising"] = rng.random() < 0.8
        t["edgefalling"] = (not t["edgerising"]) or rng.random() < 0.3
        t["edgelevel"] = rng.choice([2, amp // 2 + 1, amp, 2 * amp])
    if "level" in kinds:
        t["level"] = True
        t["levelrising"] = rng.random() < 0.7
        lv = base + rng.choice([amp // 2, amp // 4 + 1, -(amp // 2), 1])
        t["levellevel"] = u16(lv)
    if "auto" in kinds:
        t["auto"] = True
        t["autodelay"] = rng.choice([0, 1, nsamp, nsamp + 3, 2 * nsamp, 3 * nsamp + 1])
        t["autoveto"] = rng.choice([0, 0, 0, amp // 2 + 1])
    return t


def random_scenario(rng, allow_conn=True, allow_ctrl=True):
    nchan = rng.choice([1, 1, 2, 3])
    npre = rng.randint(3, 8)
    nsamp = npre + rng.choice([1, 2, 4, 8, 12, 16])
    signed = rng.random() < 0.4
    total = rng.randint(4, 12) * nsamp + rng.randint(0, nsamp)
    data, amps, bases = [], [], []
    for c in range(nchan):
        d, a, b = make_stream(rng, total, signed, nsamp)
        data.append(d)
        amps.append(a)
        bases.append(b)
    start = rng.choice(["fresh", "restored", "restored"])
    trigs = [rand_trig(rng, nsamp, amps[c], bases[c], signed) for c in range(nchan)]
    if rng.random() < 0.5:
        trigs = [trigs[0]] * nchan
    steps = []
    if start == "fresh":
        for c in range(nchan):
            steps.append({"k": "trig", "chans": [c], "t": trigs[c]})
    sizes = block_sizes(rng, total, nsamp)
    for i, b in enumerate(sizes):
        if allow_ctrl and i > 0 and rng.random() < 0.08:
            c = rng.randrange(nchan)
            steps.append({"k": "trig", "chans": [c], "t": rand_trig(rng, nsamp, amps[c], bases[c], signed)})
        if allow_ctrl and i > 0 and rng.random() < 0.04:
            if rng.random() < 0.5:
                steps.append({"k": "len", "nsamp": nsamp, "npre": npre})
            else:
                nn = max(3, npre + rng.choice([-1, 0, 1]))
                steps.append({"k": "len", "nsamp": nn + rng.choice([1, 3, 9]), "npre": nn})
        if allow_conn and nchan > 1 and rng.random() < 0.15:
            op = rng.choice(["add", "add", "add", "del", "stop"])
            steps.append({"k": "conn", "op": op, "s": rng.randint(-1, nchan), "r": rng.randint(-1, nchan)})
        steps.append({"k": "block", "n": b})
    # block time stamps: on the nominal grid, or off it (arrival jitter / a source clock that runs slow)
    stamps = rng.choice(["nominal", "nominal", "jitter", "slow"])
    drift = 0
    for st in steps:
        if st["k"] == "block":
            if stamps == "jitter":
                st["jit"] = rng.randint(-40, 40)
            elif stamps == "slow":
                drift += rng.randint(0, 3) * max(1, st["n"] // 8)
                st["jit"] = drift
    return {"origin": "random", "nchan": nchan, "npre": npre, "nsamp": nsamp, "signed": signed, "period": rng.choice([100, 1000, 6400]),
            "frame0": rng.choice([0, 0, 1000, 1 << 40, (1 << 32) - rng.randint(1, 3 * nsamp), (1 << 31) - rng.randint(0, 2 * nsamp), (3 << 32) + (1 << 31) + rng.randint(0, 9), (1 << 62) + rng.randint(0, 5)]), "start": start, "trig": trigs, "steps": steps, "data": data, "oneblock": False}
