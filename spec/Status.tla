------------------------------- MODULE Status -------------------------------
(* Status replay and configuration persistence (C16): client_updater.go RunClientUpdater / saveState and
   the start-up path of cmd/dastard (makeFileExist, setupViper) + RunRPCServer's UnmarshalKey calls.

   Implementation layer
     Publish(t, v)   one message taken from clientMessageChan: published; remembered in `last` when its
                     JSON text differs from the remembered one (NEWDASTARD is published but never remembered;
                     nosave topics are remembered for replay but never written to the file).
     SendAll         the SENDALL pseudo message: every remembered message is published again.
     save steps      saveState is five file-system operations, each its own action:
                       SaveSet (viper.Set of every persistent remembered topic: in-memory only),
                       WriteTmpBegin / WriteTmpEnd (viper.WriteConfigAs(tmp) is not atomic),
                       RemoveBak, MoveMain (rename main->bak as the code was / link main->bak as repaired),
                       RenameTmp (rename tmp->main).
     Crash           the process is killed between any two of them; Startup = makeFileExist (creates an
                     EMPTY main file when none exists) + ReadInConfig; the new process starts with nothing
                     remembered and viper holding what it read.
   Deviation switch  SaveMovesMain = TRUE: as the pinned code was (main is renamed away before the new file
                     is renamed into place, so for one step there is no main file).
   File contents are abstract: "absent", "empty", "partial", or a complete configuration (function from
   persistent topics to values).  *)
EXTENDS Integers, Sequences, FiniteSets, TLC

CONSTANTS Persistent,   \* topics saved to the configuration file
          NoSave,       \* topics replayed but not saved
          Transient,    \* NEWDASTARD: published, neither replayed nor saved
          Values, MaxPub, MaxSaves, MaxCrashes,
          SaveMovesMain,
          InitialMain   \* set of possible initial main files: "empty" (fresh install) and/or "conf0"

Topics == Persistent \cup NoSave \cup Transient
None == 0   \* Values are positive integers
Conf0 == [t \in Persistent |-> None]

VARIABLES last,       \* remembered message per topic (None = nothing remembered)
          latest,     \* ghost: most recent value published per topic in this run
          replay,     \* set of <<topic, value>> sent in answer to the last SendAll ({} before any)
          replayed,   \* TRUE right after a SendAll
          viper,      \* in-memory configuration (persistent topics)
          main, tmp, bak,
          pc,         \* 0 idle; 1 set done; 2 tmp being written; 3 tmp complete; 4 bak removed; 5 main moved/linked
          old, new,   \* ghost: main's content when the current save started / the content being saved
          npub, nsave, ncrash,
          readback,   \* what the latest start-up read (None before any restart)
          act
vars == <<last, latest, replay, replayed, viper, main, tmp, bak, pc, old, new, npub, nsave, ncrash, readback, act>>

F(k) == [k |-> k]
Conf(c) == [k |-> "conf", c |-> c]
IsConf(f) == f.k = "conf"

Init == /\ last = [t \in Topics |-> None] /\ latest = [t \in Topics |-> None]
        /\ replay = {} /\ replayed = FALSE
        /\ main \in {IF m = "empty" THEN F("empty") ELSE Conf(Conf0) : m \in InitialMain}
        /\ viper = Conf0
        /\ tmp = F("absent") /\ bak = F("absent") /\ pc = 0 /\ old = main /\ new = main
        /\ npub = 0 /\ nsave = 0 /\ ncrash = 0 /\ readback = F("none")
        /\ act = [a |-> "Init"]

Publish(t, v) ==
  /\ pc = 0   \* saveState runs in the updater goroutine: no message is taken while a save is in progress
  /\ npub < MaxPub /\ npub' = npub + 1
  /\ latest' = [latest EXCEPT ![t] = v]
  /\ last' = IF t \in Transient THEN last ELSE [last EXCEPT ![t] = v]
  /\ replayed' = FALSE
  /\ act' = [a |-> "Publish", t |-> t, v |-> v]
  /\ UNCHANGED <<replay, viper, main, tmp, bak, pc, old, new, nsave, ncrash, readback>>

SendAll ==
  /\ pc = 0
  /\ replay' = {<<t, last[t]>> : t \in {u \in Topics : last[u] # None}}
  /\ replayed' = TRUE
  /\ act' = [a |-> "SendAll"]
  /\ UNCHANGED <<last, latest, viper, main, tmp, bak, pc, old, new, npub, nsave, ncrash, readback>>

SaveSet ==
  /\ pc = 0 /\ nsave < MaxSaves /\ nsave' = nsave + 1
  /\ viper' = [t \in Persistent |-> IF last[t] # None THEN last[t] ELSE viper[t]]
  /\ pc' = 1 /\ old' = main /\ new' = Conf(viper')
  /\ act' = [a |-> "SaveSet"]
  /\ UNCHANGED <<last, latest, replay, replayed, main, tmp, bak, npub, ncrash, readback>>
WriteTmpBegin == /\ pc = 1 /\ pc' = 2 /\ tmp' = F("partial") /\ act' = [a |-> "WriteTmpBegin"]
                 /\ UNCHANGED <<last, latest, replay, replayed, viper, main, bak, old, new, npub, nsave, ncrash, readback>>
WriteTmpEnd   == /\ pc = 2 /\ pc' = 3 /\ tmp' = new /\ act' = [a |-> "WriteTmpEnd"]
                 /\ UNCHANGED <<last, latest, replay, replayed, viper, main, bak, old, new, npub, nsave, ncrash, readback>>
RemoveBak     == /\ pc = 3 /\ pc' = 4 /\ bak' = F("absent") /\ act' = [a |-> "RemoveBak"]
                 /\ UNCHANGED <<last, latest, replay, replayed, viper, main, tmp, old, new, npub, nsave, ncrash, readback>>
MoveMain      == /\ pc = 4 /\ pc' = 5 /\ bak' = main
                 /\ main' = IF SaveMovesMain THEN F("absent") ELSE main
                 /\ act' = [a |-> "MoveMain"]
                 /\ UNCHANGED <<last, latest, replay, replayed, viper, tmp, old, new, npub, nsave, ncrash, readback>>
RenameTmp     == /\ pc = 5 /\ pc' = 0 /\ main' = tmp /\ tmp' = F("absent") /\ act' = [a |-> "RenameTmp"]
                 /\ UNCHANGED <<last, latest, replay, replayed, viper, bak, old, new, npub, nsave, ncrash, readback>>

\* kill + next start-up (one step: nothing else runs in between)
CrashRestart ==
  /\ ncrash < MaxCrashes /\ ncrash' = ncrash + 1
  /\ LET m2 == IF main.k = "absent" THEN F("empty") ELSE main IN
     /\ main' = m2 /\ readback' = m2
     /\ viper' = IF IsConf(m2) THEN m2.c ELSE Conf0
  /\ last' = [t \in Topics |-> None] /\ latest' = [t \in Topics |-> None]
  /\ replay' = {} /\ replayed' = FALSE /\ pc' = 0
  /\ act' = [a |-> "CrashRestart", at |-> pc]
  /\ UNCHANGED <<tmp, bak, old, new, npub, nsave>>

Next == \/ \E t \in Topics, v \in Values : Publish(t, v)
        \/ SendAll \/ SaveSet \/ WriteTmpBegin \/ WriteTmpEnd \/ RemoveBak \/ MoveMain \/ RenameTmp
        \/ CrashRestart
Spec == Init /\ [][Next]_vars

\* ---------------------------------------------------------------- property layer
C16_sendall == replayed => replay = {<<t, latest[t]>> : t \in {u \in Topics \ Transient : latest[u] # None}}
\* right after a completed save the main file holds the latest value of every persistent topic published
C16_saved   == (pc = 0 /\ nsave > 0 /\ act.a = "RenameTmp") =>
                 /\ IsConf(main)
                 /\ \A t \in Persistent : last[t] # None => main.c[t] = last[t]
\* what a start-up reads after a kill is the complete old or the complete new version
C16_crash   == act.a = "CrashRestart" => (readback = old \/ readback = new)
C16_exists  == act.a = "CrashRestart" => (old.k # "empty" => IsConf(readback))

View == <<last, latest, replay, replayed, viper, main, tmp, bak, pc, old, new, npub, nsave, ncrash, readback, act.a>>
=============================================================================
