SPECIFICATION SimSpec
CONSTANTS Chans = {0, 1, 2}
 ProjSets = {{}, {1}, {0, 2}}
 MaxSteps = 100
 OffResetsPause = TRUE
 CountEntries = FALSE
 MaxRemovals = 1
 Paths = {"A", "B"}
 RejectedSetsBase = FALSE
 SimDepth = 14
INVARIANTS Emit
CHECK_DEADLOCK FALSE
