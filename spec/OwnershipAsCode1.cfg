SPECIFICATION Spec
CONSTANTS ReaderReadsNextFrame = TRUE
 WorkersWriteNSamp = FALSE
 FlagAfterClose = FALSE
INVARIANTS NoConflict
CHECK_DEADLOCK FALSE
