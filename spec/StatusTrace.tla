---------------------------- MODULE StatusTrace ----------------------------
(* Trace validation for C16.  Events (one NDJSON line each):
     Start    scen, read (what the first start-up read: kind/h)
     Pub      t, v              a message handed to the updater (v = value id; equal ids <=> equal bodies)
     SendAll  got = [[t, v]..]  messages received on a SUB socket after SENDALL (v = -1: unknown body)
     Save     crash (0 none, 1..4 kill point), hit, pre/post = files before/after (main, tmp, bak: kind, h),
              new = the complete new version (same save, un-killed, on a copy), sent = canonical JSON of the
              restorable topics at save time
     TimedSave post             the updater's own delayed save has had time to happen
     Restart  read, restored (replicated start-up), real (the REAL start-up code in a separate process on a
              snapshot of the directory: kind, h, restored), timed
   Predicates: C16_sendall, C16_saved, C16_crash (read is the complete old or the complete new version, never
   missing/empty/truncated), C16_roundtrip (restored = sent for every restorable topic when the new version was read). *)
EXTENDS Integers, Sequences, FiniteSets, TLC, Json

Log == ndJsonDeserialize("trace.ndjson")
Transient == {"NEWDASTARD"}

VARIABLES l, scen, last, old, new, crashed, sent, saved
vars == <<l, scen, last, old, new, crashed, sent, saved>>

Report(line, preds, sc) == \A p \in preds : PrintT(<<"VIOL", line, p, sc>>)
Iff(b, s) == IF b THEN {s} ELSE {}
Same(a, b) == a.kind = b.kind /\ a.h = b.h
NoFile == [kind |-> "none", h |-> ""]
Empty == [x \in {} |-> 0]

Init == l = 1 /\ scen = 0 /\ last = Empty /\ old = NoFile /\ new = NoFile /\ crashed = FALSE /\ sent = Empty /\ saved = FALSE

RoundtripBad(restored, s) == \E t \in DOMAIN s : t \notin DOMAIN restored \/ restored[t] # s[t]

ReadPreds(read, restored, timed, tsent) ==
  LET okCrash == IF crashed THEN Same(read, old) \/ Same(read, new)
                 ELSE IF saved THEN Same(read, new) ELSE Same(read, old)
      isNew == saved /\ Same(read, new) IN
  (IF timed
   THEN Iff(read.kind # "conf", "C16_saved") \cup Iff(read.kind = "conf" /\ RoundtripBad(restored, tsent), "C16_roundtrip")
   ELSE Iff(~okCrash, IF crashed THEN "C16_crash" ELSE "C16_saved")
        \cup Iff(isNew /\ RoundtripBad(restored, sent), "C16_roundtrip"))

Step ==
  /\ l <= Len(Log)
  /\ l' = l + 1
  /\ LET e == Log[l] IN
     CASE e.ev = "Start" ->
            /\ scen' = e.scen /\ last' = Empty /\ old' = e.read /\ new' = e.read /\ crashed' = FALSE
            /\ sent' = Empty /\ saved' = FALSE
       [] e.ev = "Pub" ->
            /\ last' = IF e.t \in Transient THEN last
                       ELSE [x \in DOMAIN last \cup {e.t} |-> IF x = e.t THEN e.v ELSE last[x]]
            /\ UNCHANGED <<scen, old, new, crashed, sent, saved>>
       [] e.ev = "SendAll" ->
            /\ LET got == {<<e.got[i][1], e.got[i][2]>> : i \in 1..Len(e.got)} IN
               Report(l, Iff(got # {<<t, last[t]>> : t \in DOMAIN last} \/ Cardinality(got) # Len(e.got), "C16_sendall"), scen)
            /\ UNCHANGED <<scen, last, old, new, crashed, sent, saved>>
       [] e.ev = "Save" ->
            /\ IF e.hit THEN TRUE ELSE PrintT(<<"MACH", l, "crash point not reached", scen>>)
            /\ Report(l, Iff(e.crash = 0 /\ ~Same(e.post.main, e.new), "C16_saved")
                         \cup Iff(e.new.kind # "conf", "C16_saved"), scen)
            \* the main file before this save is the old version; if an earlier save in this process was killed the
            \* process is gone, so a Save after a crash without Restart does not occur in the drivers
            /\ old' = e.pre.main /\ new' = e.new /\ crashed' = (e.crash # 0) /\ sent' = e.sent /\ saved' = TRUE
            /\ UNCHANGED <<scen, last>>
       [] e.ev = "TimedSave" ->
            /\ Report(l, Iff(e.post.main.kind # "conf", "C16_saved"), scen)
            /\ UNCHANGED <<scen, last, old, new, crashed, sent, saved>>
       [] e.ev = "Restart" ->
            /\ Report(l, ReadPreds(e.read, e.restored, e.timed, e.sent)
                         \cup (IF e.hasreal THEN ReadPreds(e.real, e.real.restored, e.timed, e.sent) ELSE {}), scen)
            /\ last' = Empty /\ old' = e.read /\ new' = e.read /\ crashed' = FALSE /\ saved' = FALSE
            /\ sent' = Empty
            /\ UNCHANGED scen
       [] e.ev = "E2E" ->
            \* real SourceControl + real RunClientUpdater: after the updater's delayed save the file holds, for every
            \* persistent topic looked at, the last value clients were told (topics = <<topic, published, saved>>)
            \* where the session's configuration directory was then started for real (complete start-up in a process of its
            \* own): the start-up must survive what this dastard saved, and tell clients the configurations the sources had
            \* ACCEPTED (a request that a source refused is not its configuration)
            /\ Report(l, Iff(Len(e.topics) = 0 \/ \E i \in 1..Len(e.topics) : e.topics[i][2] # e.topics[i][3], "C16_saved")
                         \cup Iff("startup" \in DOMAIN e /\ e.startup.panic # "", "C16_startup_reads_saved")
                         \cup Iff("startup" \in DOMAIN e /\ e.startup.panic = "" /\
                                  (\E t \in DOMAIN e.accepted : t \notin DOMAIN e.startup.restored \/ e.startup.restored[t] # e.accepted[t]), "C16_restored_same")
                         \cup Iff(Len(e.notrefused) > 0, "C16_refused"), e.scen)
            /\ UNCHANGED <<scen, last, old, new, crashed, sent, saved>>
       [] e.ev = "End" -> UNCHANGED <<scen, last, old, new, crashed, sent, saved>>

Next == Step
Spec == Init /\ [][Next]_vars
NScen == Cardinality({i \in 1..Len(Log) : Log[i].ev = "Start"})
Consumed == /\ TLCGet("stats").diameter - 1 = Len(Log)
            /\ PrintT(<<"DONE", Len(Log), NScen>>)
=============================================================================
