SPECIFICATION SimSpec
CONSTANTS NPre = 5
 NSamp = 12
 Threshold <- ThrNeg
 NMono = 2
 Mode = "two"
 MaxLen = 150
 BlockSizes = {1, 3, 11, 12, 13, 25, 35}
 MaxEdges = 6
 KeepN = 34
 ZFirst = 0
 ZAll = 0
 FirstSampleGuard = TRUE
 PairWindow = 14
 SimDepth = 40
INVARIANTS Emit
CHECK_DEADLOCK FALSE
