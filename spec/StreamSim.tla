------------------------------ MODULE StreamSim ------------------------------
EXTENDS Stream, Json
VARIABLE hist
SimInit == Init /\ hist = <<act>>
SimNext == Next /\ hist' = Append(hist, act')
SimSpec == SimInit /\ [][SimNext]_<<vars, hist>>
Emit == Len(truth) + 3 < MaxLen \/ PrintT(<<"SCEN", ToJson([npre |-> NPre, nsamp |-> NSamp, steps |-> hist])>>)
=============================================================================
