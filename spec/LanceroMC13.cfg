SPECIFICATION Spec
CONSTANTS Cols = 1
 Rows = 3
 NFrames = 9
 ReadSteps = {0, 2, 4, 8, 9, 13}
 MaxReads = 5
 GapAts = {0}
 GapLens = {0}
 ExtCells <- Ext2
 ExtScanByRow = FALSE
 CounterIgnoresDrop = FALSE
 AlignAssumesOneFrame = FALSE
 CheckEveryFrame = FALSE
INVARIANTS C04_follows C04_monotone C04_nocrash C04_ext_count NoGapContiguous
VIEW View
CHECK_DEADLOCK FALSE
