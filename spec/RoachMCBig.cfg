SPECIFICATION Spec
CONSTANTS
  NChan = 3
  MaxPackets = 8
  MaxNsamp = 3
  MaxLoss = 0
  FirstPacketOnly = TRUE
INVARIANTS TypeOK Demux SameLength NoLossContiguous FrameTruth LossReported NoSpuriousWarning
CHECK_DEADLOCK FALSE
