SPECIFICATION Spec
CONSTANTS DevNums = {0, 1, 3}
 Geoms <- GeomsBig
 FirstRows = {0, 1, 5}
 SepCards = {0, 1, 4, 6, 8, 9, 10, 12, 18, 27}
 SepCols = {0, 1, 2, 3, 4, 5, 9}
 MaxPasses = 2
 ResetGroups = TRUE
INVARIANTS C19_no_collision C19_groups_cover
CHECK_DEADLOCK FALSE
