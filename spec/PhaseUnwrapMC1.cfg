SPECIFICATION Spec
CONSTANTS W = 7
 Frac = 7
 Drop = 2
 Bias = 0
 ResetAfter = 3
 PulsePositive = TRUE
 Invert = FALSE
 Enable = TRUE
INVARIANTS NoBad
VIEW View
CHECK_DEADLOCK FALSE
