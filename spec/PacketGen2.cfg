SPECIFICATION Spec
CONSTANTS MaxTLV = 2
CHECK_DEADLOCK FALSE
