---------------------------- MODULE RequestsTrace ----------------------------
(* Trace validation for the request matrix of C11 (requests_test.go).
     Case     scen, timing (never | running | stopped | selfterm), kind, arg, expect (ok | err | any: what the
              property statement demands for this argument class at this time)
     Ret      returned (within the watchdog), err (error text, "" = nil)
     Probe    progress (blocks still being processed), sentinel (a valid request afterwards: ok | err:.. | hang | n/a),
              overlap (request handler and ProcessSegments active together), foreign (request handler ran outside the
              core-loop goroutine), panics (recovered panics of the core loop / workers)
     CaseEnd  stopped (the final Stop returned)  *)
EXTENDS Integers, Sequences, FiniteSets, TLC, Json
Log == ndJsonDeserialize("trace.ndjson")
VARIABLES l, scen, cur
vars == <<l, scen, cur>>
Report(line, preds, sc) == \A p \in preds : PrintT(<<"VIOL", line, p, sc>>)
Iff(b, s) == IF b THEN {s} ELSE {}
Init == l = 1 /\ scen = 0 /\ cur = [expect |-> "any"]

Step ==
  /\ l <= Len(Log)
  /\ l' = l + 1
  /\ LET e == Log[l] IN
     CASE e.ev = "Case" -> scen' = e.scen /\ cur' = e
       [] e.ev = "Ret" ->
            /\ Report(l, Iff(~e.returned, "C11_answered")
                         \cup Iff(e.returned /\ cur.expect = "err" /\ e.err = "", "C11_error_reported")
                         \cup Iff(e.returned /\ cur.expect = "ok" /\ e.err # "", "C11_valid_accepted"), scen)
            /\ UNCHANGED <<scen, cur>>
       [] e.ev = "Probe" ->
            /\ Report(l, Iff(~e.progress, "C11_no_stall")
                         \cup Iff(e.sentinel = "hang", "C11_no_wedge")
                         \cup Iff(e.overlap > 0 \/ e.foreign > 0, "C11_mutex")
                         \cup Iff(Len(e.panics) > 0, "C11_nocrash"), scen)
            /\ UNCHANGED <<scen, cur>>
       [] e.ev = "CaseEnd" ->
            /\ Report(l, Iff(~e.stopped, "C11_no_wedge"), scen)
            /\ UNCHANGED <<scen, cur>>
Next == Step
Spec == Init /\ [][Next]_vars
NScen == Cardinality({i \in 1..Len(Log) : Log[i].ev = "Case"})
Consumed == /\ TLCGet("stats").diameter - 1 = Len(Log)
            /\ PrintT(<<"DONE", Len(Log), NScen>>)
=============================================================================
