SPECIFICATION Spec
CONSTANTS NGroups = 3
 Fpp <- FppEq3
 MaxSN = 4
 MaxTicks = 3
 MaxBatch = 2
 Last0s = {0, 1}
 FillCountsLeftovers = FALSE
 DropCountPerTick = FALSE
INVARIANTS C03_content C03_nolost C03_aligned C03_frames C03_dropped C03_nocrash
VIEW View
CHECK_DEADLOCK FALSE
