SPECIFICATION Spec
CONSTANTS Offsets <- OffT
 Shapes <- ShapesT
 MaxCases = 0
CHECK_DEADLOCK FALSE
