SPECIFICATION Spec
CONSTANTS NGroups = 2
 Fpp <- FppEq1
 MaxSN = 7
 MaxTicks = 4
 MaxBatch = 3
 Last0s = {0, 1}
 FillCountsLeftovers = FALSE
 DropCountPerTick = FALSE
INVARIANTS C03_content C03_nolost C03_aligned C03_frames C03_dropped C03_nocrash
VIEW View
CHECK_DEADLOCK FALSE
