SPECIFICATION Spec
CONSTANTS Cap = 3
 Parts = 3
 NRec = 5
 Atomic = TRUE
 Ticker = TRUE
 MaxFlush = 3
INVARIANTS C07_reject_or_write C07_whole C07_order C07_flush_durable C07_closed_complete
VIEW View
CHECK_DEADLOCK FALSE
