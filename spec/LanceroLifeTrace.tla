-------------------------- MODULE LanceroLifeTrace --------------------------
(* Trace validation for the Lancero life cycle and its mix-fraction requests (model: LanceroLifecycle.tla), recorded by
   harness/root/lancerolife_test.go on the real SourceControl methods with a scripted card.
     LLBegin  scen, steps (the client-visible actions of a model behaviour), bad (clients whose request is malformed)
     LLStep   step, a        the driver is about to issue action a (Start | Stop | StopWait | Mix:<c> | Couple | Wait | ...)
     LLRet    step, a, returned, err, ms [, blocks, st, census, adapter, collector]   what that call did
     Crash    the process died in this scenario (a panic in a goroutine of the server)
     LLEnd    census, adapter, collector, st, finalstop, finalstoperr, doublestart
   The spec keeps the abstract client-visible state of LanceroLifecycle (running / stopping / gen) as it follows the
   LLStep lines, and judges every LLRet against what the design variant of the model allows at that point.          *)
EXTENDS Integers, Sequences, FiniteSets, TLC, Json

Log == ndJsonDeserialize("trace.ndjson")
VARIABLES l, scen, phase, gen, issued, bad
\* phase: "inactive" | "active" | "stopping" ; issued: step -> phase in which the action of that step was issued
vars == <<l, scen, phase, gen, issued, bad>>
Report(preds) == \A p \in preds : PrintT(<<"VIOL", l, p, scen>>)
Iff(b, s) == IF b THEN {s} ELSE {}
Init == l = 1 /\ scen = 0 /\ phase = "inactive" /\ gen = 0 /\ issued = <<>> /\ bad = {}

IsMix(a) == Len(a) > 4 /\ SubSeq(a, 1, 4) = "Mix:"
Client(a) == SubSeq(a, 5, Len(a))
Quiet(e) == e.census.core = 0 /\ e.census.reader = 0 /\ e.census.gn = 0

RetPreds(e) ==
  LET ph == IF e.step \in DOMAIN issued THEN issued[e.step] ELSE "inactive" IN
  IF e.a = "Start" THEN
       \* the source was inactive with every goroutine gone (the driver waits for a pending Stop first): Start must succeed
       Iff(~e.returned, "C10_call_returns")
       \cup Iff(e.returned /\ e.err # "", "C10_restartable")
       \cup Iff(e.returned /\ e.err = "" /\ e.phase = "start" /\ (e.blocks < 1 \/ e.st # 2), "C10_active_after_start")
  ELSE IF e.a = "StartBad" THEN
       \* a Start that fails in PrepareChannels (StartFail of the model): error reply, source inactive and quiet, card released
       Iff(~e.returned, "C10_call_returns")
       \cup Iff(e.returned /\ e.phase = "start" /\ (e.err = "" \/ e.st # 0 \/ ~Quiet(e) \/ e.adapter \/ e.collector), "C10_failed_start_clean")
  ELSE IF e.a = "Stop" THEN
       Iff(~e.returned, "C10_stop_returns")
       \cup Iff(e.returned /\ (~Quiet(e) \/ e.st # 0), "C10_workers_exit")
       \cup Iff(e.returned /\ (e.adapter \/ e.collector), "C10_hardware_released")
  ELSE IF IsMix(e.a) THEN
       Iff(~e.returned, "C11_answered")
       \cup Iff(e.returned /\ Client(e.a) \in bad /\ e.err = "", "C11_invalid_refused")
       \* a well-formed request made while the source was active (and no Stop under way) is served
       \cup Iff(e.returned /\ Client(e.a) \notin bad /\ ph = "active" /\ phase = "active" /\ e.err # "", "C11_valid_served")
       \* with no source running the reply is an error
       \cup Iff(e.returned /\ ph = "inactive" /\ e.err = "", "C11_error_when_not_running")
  ELSE IF e.a = "Couple" THEN Iff(~e.returned, "C11_answered")
  ELSE {}

Step ==
  /\ l <= Len(Log) /\ l' = l + 1
  /\ LET e == Log[l] IN
     CASE e.ev = "LLBegin" -> /\ scen' = e.scen /\ phase' = "inactive" /\ gen' = 0 /\ issued' = <<>>
                              /\ bad' = {e.bad[i] : i \in 1..Len(e.bad)}
       [] e.ev = "LLStep" ->
            /\ issued' = (e.step :> phase) @@ issued
            /\ UNCHANGED <<scen, phase, gen, bad>>
       [] e.ev = "LLRet" ->
            /\ Report(RetPreds(e))
            /\ phase' = CASE e.a = "Start" /\ e.returned /\ e.err = "" /\ e.phase = "start" -> "active"
                          [] e.a = "Stop" /\ e.returned -> "inactive"
                          [] OTHER -> phase
            /\ gen' = IF e.a = "Start" /\ e.returned /\ e.err = "" /\ e.phase = "start" THEN gen + 1 ELSE gen
            /\ UNCHANGED <<scen, issued, bad>>
       [] e.ev = "LLStopIssued" -> phase' = (IF phase = "active" THEN "stopping" ELSE phase) /\ UNCHANGED <<scen, gen, issued, bad>>
       [] e.ev = "Crash" -> Report({"C11_no_crash", "C10_no_crash"}) /\ UNCHANGED <<scen, phase, gen, issued, bad>>
       [] e.ev = "Panic" -> Report({"C11_no_crash", "C10_no_crash"}) /\ UNCHANGED <<scen, phase, gen, issued, bad>>
       [] e.ev = "LLEnd" ->
            /\ Report(Iff(~e.finalstop, "C10_stop_returns")
                      \cup Iff(e.finalstop /\ (~Quiet(e) \/ e.st # 0), "C10_workers_exit")
                      \cup Iff(e.finalstop /\ (e.adapter \/ e.collector), "C10_hardware_released")
                      \cup Iff(Len(e.doublestart) > 0, "C10_restartable"))
            /\ UNCHANGED <<scen, phase, gen, issued, bad>>
Spec == Init /\ [][Step]_vars
NScen == Cardinality({i \in 1..Len(Log) : Log[i].ev = "LLBegin"})
Consumed == TLCGet("stats").diameter - 1 = Len(Log) /\ PrintT(<<"DONE", Len(Log), NScen>>)
=============================================================================
