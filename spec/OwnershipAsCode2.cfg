SPECIFICATION Spec
CONSTANTS ReaderReadsNextFrame = FALSE
 WorkersWriteNSamp = TRUE
 FlagAfterClose = FALSE
INVARIANTS NoConflict
CHECK_DEADLOCK FALSE
