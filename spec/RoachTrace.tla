----------------------------- MODULE RoachTrace -----------------------------
(* Trace validation of the ROACH ingest path (spec/RoachIngest.tla) against blocks recorded from the real
   RoachDevice.samplePacket / readPackets fed over localhost UDP by a scripted device:
     RoachBegin  scen, nchan, wordlen, midloss (a loss lies inside a bundle: named deviation FirstPacketOnly)
     RoachBlock  nsamp, nseg, lens[], firsts[] (firstFrameIndex per segment), expfirst / explast = the device's sample
                 number of the first / last sample of the block (the harness knows what it sent, in order)
     RoachErr    the reader reported an error block
     RoachEnd    delivered, sent (samples per channel)
   The per-channel contents (demultiplexing, unwrapping, independence of the bundling) are validated by
   PhaseUnwrapTrace on the Config/Run events of the same run.  No listed property speaks about ROACH framing, so what
   this spec finds is reported as an observation (OBS), never as a violation of a listed property.  *)
EXTENDS Integers, Sequences, FiniteSets, TLC, Json
Log == ndJsonDeserialize("trace.ndjson")
VARIABLES l, cfg
vars == <<l, cfg>>
Obs(line, preds, sc) == \A p \in preds : PrintT(<<"OBS", line, p, sc>>)
Iff(b, s) == IF b THEN {s} ELSE {}
Init == l = 1 /\ cfg = [scen |-> 0, nchan |-> 0, midloss |-> FALSE]

BlockPreds(e) ==
  Iff(e.nseg # cfg.nchan, "R_nseg")
  \cup Iff(\E i \in 1..Len(e.lens) : e.lens[i] # e.nsamp, "R_lens")
  \cup Iff(e.expfirst >= 0 /\ \E i \in 1..Len(e.firsts) : e.firsts[i] # e.expfirst, "R_first")
  \cup Iff(e.explast < 0, "R_extra")                                        \* more samples came out than went in
  \cup Iff(e.explast >= 0 /\ e.expfirst >= 0 /\ e.expfirst + e.nsamp - 1 # e.explast,
           IF cfg.midloss THEN "DEV_FirstPacketOnly" ELSE "R_frametruth")   \* a loss inside the block shifts the frame numbers behind it

Step ==
  /\ l <= Len(Log)
  /\ l' = l + 1
  /\ LET e == Log[l] IN
     CASE e.ev = "RoachBegin" -> cfg' = e
       [] e.ev = "RoachBlock" -> Obs(l, BlockPreds(e), cfg.scen) /\ UNCHANGED cfg
       [] e.ev = "RoachErr" -> Obs(l, {"R_err"}, cfg.scen) /\ UNCHANGED cfg
       [] e.ev = "RoachEnd" -> Obs(l, Iff(e.delivered # e.sent, "R_complete"), cfg.scen) /\ UNCHANGED cfg
       [] OTHER -> UNCHANGED cfg
Next == Step
Spec == Init /\ [][Next]_vars
NScen == Cardinality({i \in 1..Len(Log) : Log[i].ev = "RoachBegin"})
Consumed == /\ TLCGet("stats").diameter - 1 = Len(Log)
            /\ PrintT(<<"DONE", Len(Log), NScen>>)
=============================================================================
