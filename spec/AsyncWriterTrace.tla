--------------------------- MODULE AsyncWriterTrace ---------------------------
(* Trace validation for C07: histories recorded from the real writers (ljh.Writer, ljh.Writer3, off.Writer
   on a stalled named pipe; asyncbufio.Writer on a gated writer) judged by the property layer of
   AsyncWriter.tla.  Writes are logged in bursts (ids accepted / rejected, in call order); FlushReturn and
   CloseReturn carry the decoded content of the "disk" at that moment.                                   *)
EXTENDS Integers, Sequences, FiniteSets, TLC, Json

Log == ndJsonDeserialize("trace.ndjson")
VARIABLES l, scen, acc, rej, last
vars == <<l, scen, acc, rej, last>>

Init == l = 1 /\ scen = 0 /\ acc = {} /\ rej = {} /\ last = 0
Report(preds) == \A p \in preds : PrintT(<<"VIOL", l, p, scen>>)
When(c, n) == IF c THEN {n} ELSE {}
ToSet(s) == {s[i] : i \in 1..Len(s)}

ContentPreds(e, closing) ==
   When(~e.header \/ e.trailing # 0 \/ e.garbled # 0, "C07_whole")
   \cup When(\E i \in 1..Len(e.recs) : e.recs[i] \in rej, "C07_reject_or_write")
   \cup When(\E i \in 1..Len(e.recs) : e.recs[i] \notin acc /\ e.recs[i] \notin rej, "C07_unknown_record")
   \cup When(\E i \in 1..(Len(e.recs) - 1) : e.recs[i] >= e.recs[i + 1], "C07_order")
   \* (a flush that reports an error, e.g. a time-out, does not claim that the data are in the file)
   \cup When(acc \ ToSet(e.recs) # {} /\ ~("err" \in DOMAIN e /\ e.err # "" /\ ~closing), IF closing THEN "C07_close_durable" ELSE "C07_flush_durable")
   \cup When("returned" \in DOMAIN e /\ ~e.returned, "C07_call_returns")

Step ==
  /\ l <= Len(Log) /\ l' = l + 1
  /\ LET e == Log[l] IN
     CASE e.ev = "Open" -> scen' = e.scen /\ acc' = {} /\ rej' = {} /\ last' = 0
       [] e.ev = "WRB" -> /\ acc' = acc \cup ToSet(e.ok) /\ rej' = rej \cup ToSet(e.fail) /\ UNCHANGED <<scen, last>>
       [] e.ev \in {"FlushCall", "CloseCall"} -> UNCHANGED <<scen, acc, rej, last>>
       \* a Write that neither accepted nor refused its record while the disk was stalled, but waited for the disk
       [] e.ev = "WriteBlocked" -> Report({"C07_reject_or_write"}) /\ UNCHANGED <<scen, acc, rej, last>>
       [] e.ev = "FlushReturn" -> Report(ContentPreds(e, FALSE)) /\ UNCHANGED <<scen, acc, rej, last>>
       [] e.ev = "CloseReturn" -> Report(ContentPreds(e, TRUE)) /\ UNCHANGED <<scen, acc, rej, last>>
Spec == Init /\ [][Step]_vars
NScen == Cardinality({i \in 1..Len(Log) : Log[i].ev = "Open"})
Consumed == TLCGet("stats").diameter - 1 = Len(Log) /\ PrintT(<<"DONE", Len(Log), NScen>>)
=============================================================================
