--------------------------- MODULE LifecycleTrace ---------------------------
(* Trace validation for C10 / C11: judges traces recorded by the gated replay driver (and its free-running
   drain phase) on the real SourceControl / Start / CoreLoop / Stop / runLaterIfActive.
     Begin    scen, producer
     Step     a (model action just executed on the code), r, role, st0/st (observed source state before/after),
              flag (observed isSourceActive), ret (error text of the call if it returned: "ret:" = nil),
              mst/mflag (model's expectation: a difference is DRIFT, not a violation), afterstops (the
              C10_after_stops antecedent holds in the model state), quiet, census (live core-loop / producer
              goroutines of this scenario)
     Held     name, held: the vheld hook -- whether the source-state lock is held at the point where Stop / Start act on the state read
     Diverged the code did not follow the scripted step (reported by the runner as drift unless End shows harm)
     End      hangs = calls that never returned after every gate was opened and a final Stop was issued (role,
              blocking frame), finalstop, st, flag, probe (restart of the same source object), census, returns *)
EXTENDS Integers, Sequences, FiniteSets, TLC, Json

Log == ndJsonDeserialize("trace.ndjson")
VARIABLES l, scen
vars == <<l, scen>>
Report(line, preds, sc) == \A p \in preds : PrintT(<<"VIOL", line, p, sc>>)
Iff(b, s) == IF b THEN {s} ELSE {}
Init == l = 1 /\ scen = 0

IsErr(ret) == ret # "" /\ ret # "ret:"
StepPreds(e) ==
  Iff(e.a = "StartCall" /\ e.r = "ok" /\ e.st0 # "Inactive", "C10_start_only_inactive")
  \cup Iff(e.a = "StartCall" /\ e.r # "ok" /\ ~IsErr(e.ret), "C10_start_only_inactive")
  \cup Iff(e.a = "StartFail" /\ (e.st # "Inactive" \/ ~IsErr(e.ret)), "C10_failed_start_clean")
  \cup Iff(e.a = "StartReturn" /\ e.quiet /\ (e.st # "Active" \/ e.ret # "ret:"), "C10_active_after_start")
  \cup Iff(e.a = "StopReturn" /\ e.afterstops /\ (e.st # "Inactive" \/ e.flag \/ e.census.core # 0 \/ e.census.producer # 0), "C10_after_stops")
  \cup Iff(e.a = "ReqCall" /\ e.r = "no-source" /\ ~IsErr(e.ret), "C11_one_reply")
  \cup Iff(e.a = "ReqGiveUp" /\ ~IsErr(e.ret), "C11_one_reply")
  \cup Iff(e.a = "CoreSendResult" /\ e.ret = "", "C11_one_reply")

HangPreds(hs) ==
  UNION {LET r == hs[i].role IN
         IF SubSeq(r, 1, 1) = "c" THEN {"C11_answered"}
         ELSE IF SubSeq(r, 1, 2) = "st" THEN {"C10_start_returns"} ELSE {"C10_stop_returns"} : i \in 1..Len(hs)}

EndPreds(e) ==
  HangPreds(e.hangs)
  \cup Iff(~e.finalstop, "C10_stop_returns")
  \cup Iff(Len(e.hangs) = 0 /\ e.finalstop /\ (e.st # "Inactive" \/ e.flag), "C10_after_stops")
  \cup Iff(Len(e.hangs) = 0 /\ e.finalstop /\ (e.census.core # 0 \/ e.census.producer # 0), "C10_workers_exit")
  \cup Iff(Len(e.hangs) = 0 /\ e.finalstop /\ e.writing, "C10_writing_stopped")   \* every Stop call has returned and data writing is still on
  \cup Iff(e.probe # "ok" /\ e.probe # "skipped", "C10_restartable")

Step ==
  /\ l <= Len(Log)
  /\ l' = l + 1
  /\ LET e == Log[l] IN
     CASE e.ev = "Begin" -> scen' = e.scen
       [] e.ev = "Step" ->
            /\ Report(l, StepPreds(e), scen)
            /\ IF e.st # e.mst \/ e.flag # e.mflag THEN PrintT(<<"DRIFT", l, e.a, scen>>) ELSE TRUE
            /\ UNCHANGED scen
       [] e.ev = "Panic" -> Report(l, {"C10_nocrash"}, scen) /\ UNCHANGED scen     \* a panic in the core loop (caught by the recover hook; it kills the server otherwise)
       [] e.ev = "Crash" -> Report(l, {"C10_nocrash"}, scen) /\ UNCHANGED scen     \* the process died in this scenario (panic in a goroutine of the code)
       \* hook vheld: Stop (Start) is about to act on the state it read; StopCall / StartCall are atomic actions of Lifecycle.tla,
       \* which the code implements by deciding and acting under the source-state lock
       [] e.ev = "Held" -> Report(l, Iff(~e.held, IF e.name = "Stop.active" THEN "C10_stop_atomic" ELSE "C10_start_atomic"), scen) /\ UNCHANGED scen
       [] e.ev = "Diverged" -> PrintT(<<"DIVERGED", l, e.a, scen>>) /\ UNCHANGED scen
       [] e.ev = "End" -> Report(l, EndPreds(e), scen) /\ UNCHANGED scen
       [] e.ev = "UDPStep" ->
            \* real Abaco source over localhost UDP: failed start for lack of data, start once data flow, stop, restart
            /\ LET quiet == e.census.core = 0 /\ e.census.udp = 0 /\ e.census.reader = 0 IN
               Report(l, Iff(~e.returned, "C10_call_returns")
                         \cup Iff(e.step = "start-nodata" /\ e.returned /\ (e.err = "" \/ e.state # "Inactive"), "C10_failed_start_clean")
                         \cup Iff(e.step = "start-data" /\ e.returned /\ (e.err # "" \/ e.state # "Active"), "C10_failed_start_clean")
                         \cup Iff(e.step \in {"stop", "stop2"} /\ e.returned /\ e.err # "", "C10_stop_returns")
                         \cup Iff(e.step \in {"after-stop", "end", "after-selfend"} /\ (e.state # "Inactive" \/ ~quiet), "C10_workers_exit")
                         \cup Iff(e.step \in {"after-stop", "end", "after-selfend"} /\ e.writing, "C10_writing_stopped")
                         \cup Iff(e.step = "write-start" /\ e.returned /\ (e.err # "" \/ ~e.writing), "C10_restartable")
                         \cup Iff(e.step = "restart" /\ e.returned /\ (e.err # "" \/ e.state # "Active"), "C10_restartable"), e.scen)
            /\ UNCHANGED scen

Next == Step
Spec == Init /\ [][Next]_vars
NScen == Cardinality({i \in 1..Len(Log) : Log[i].ev = "Begin"})
Consumed == /\ TLCGet("stats").diameter - 1 = Len(Log)
            /\ PrintT(<<"DONE", Len(Log), NScen>>)
=============================================================================
