-------------------------------- MODULE Wire --------------------------------
(* Published message layouts (C14), copied from doc/BINARY_FORMATS.md as tables <<field, offset, width>>; all values
   little-endian.  The trace specification WireTrace checks every row of the table against bytes produced by the
   real messageRecords / messageSummaries (directly and received over ZMQ).  *)
EXTENDS Integers, Sequences
RecordHeader == << <<"channel", 0, 2>>, <<"version", 2, 1>>, <<"dtype", 3, 1>>, <<"npre", 4, 4>>, <<"nsamp", 8, 4>>,
                   <<"period", 12, 4>>, <<"vpa", 16, 4>>, <<"time", 20, 8>>, <<"frame", 28, 8>> >>
RecordHeaderLen == 36
SummaryHeader == << <<"channel", 0, 2>>, <<"version", 2, 2>>, <<"npre", 4, 4>>, <<"nsamp", 8, 4>>, <<"ptmean", 12, 4>>,
                    <<"peak", 16, 4>>, <<"rms", 20, 4>>, <<"avg", 24, 4>>, <<"resid", 28, 4>>, <<"time", 32, 8>>, <<"frame", 40, 8>> >>
SummaryHeaderLen == 48
\* data type code: 2 = int16, 3 = uint16
DTypeCode(signed) == IF signed THEN 2 ELSE 3
=============================================================================
