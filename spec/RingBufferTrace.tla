------------------------- MODULE RingBufferTrace -------------------------
(* Trace validation for C18: replays calls recorded from the real ringbuffer.RingBuffer through the
   property layer of RingBuffer.tla.  One NDJSON line per call; many scenarios per file, each starting
   with a Create line.  Every rejected predicate is printed as <<"VIOL", line, predicate, scenario>>. *)
EXTENDS Integers, Sequences, FiniteSets, TLC, Json

Log == ndJsonDeserialize("trace.ndjson")

VARIABLES l, scen, cap, acc, nxt, mw, mr, off   \* mw/mr: implementation-layer pointers predicted by the model; off: byte-value offset of the current ring
vars == <<l, scen, cap, acc, nxt, mw, mr, off>>

Min(a, b) == IF a < b THEN a ELSE b
Report(line, preds, sc) == \A p \in preds : PrintT(<<"VIOL", line, p, sc>>)
Drift(line, what, sc) == PrintT(<<"DRIFT", line, what, sc>>)

Init == l = 1 /\ scen = 0 /\ cap = 0 /\ acc = 0 /\ nxt = 0 /\ mw = 0 /\ mr = 0 /\ off = 0

\* data: sequence of byte values; expected byte of global index g is g % 251
PrefixBad(d) == \E j \in 1..Len(d) : d[j] # (off + nxt + j - 1) % 251

ReadPreds(e, d) ==
    (IF PrefixBad(d) THEN {"C18_prefix"} ELSE {})
    \cup (IF Len(d) > acc - nxt THEN {"C18_beyond"} ELSE {})

Step ==
  /\ l <= Len(Log)
  /\ l' = l + 1
  /\ LET e == Log[l] IN
     CASE e.ev = "Create" ->
            /\ scen' = e.scen /\ cap' = e.cap /\ acc' = 0 /\ nxt' = 0 /\ mw' = 0 /\ mr' = 0 /\ off' = 0
       [] e.ev = "Recreate" ->
            \* a new writer's Create on regions left behind by the previous one: the ring starts empty (RingBuffer.tla: Recreate)
            /\ Report(l, IF e.readable # 0 \/ e.writeable # e.cap - 1 THEN {"C18_fresh_empty"} ELSE {}, scen)
            /\ cap' = e.cap /\ acc' = 0 /\ nxt' = 0 /\ mw' = 0 /\ mr' = 0 /\ off' = e.off /\ UNCHANGED scen
       [] e.ev = "Write" ->
            /\ Report(l, (IF e.ret > e.n \/ e.ret < 0 THEN {"C18_accept"} ELSE {})
                         \cup (IF e.ret > cap - (acc - nxt) THEN {"C18_overwrite"} ELSE {}), scen)
            /\ (e.ret = Min(e.n, cap - 1 - (acc - nxt)) \/ Drift(l, "write_accept", scen))
            /\ acc' = acc + e.ret /\ UNCHANGED <<scen, cap, nxt, off>> /\ mw' = mw + e.ret /\ mr' = mr
       [] e.ev = "XWrite" ->      \* the external producer (the driver plays it): may fill the ring completely
            /\ acc' = acc + e.ret /\ UNCHANGED <<scen, cap, nxt, off>> /\ mw' = mw + e.ret /\ mr' = mr
       [] e.ev \in {"Read", "ReadAll", "Drain"} ->
            /\ Report(l, ReadPreds(e, e.data)
                         \cup (IF e.ev = "Read" /\ Len(e.data) > e.n THEN {"C18_toomany"} ELSE {})
                         \cup (IF e.ev = "Drain" /\ nxt + Len(e.data) # acc THEN {"C18_lossfree"} ELSE {}), scen)
            /\ (e.ev # "Read" \/ Len(e.data) = Min(e.n, acc - nxt) \/ Drift(l, "read_count", scen))
            /\ nxt' = nxt + Len(e.data) /\ UNCHANGED <<scen, cap, acc, mw, off>> /\ mr' = mr + Len(e.data)
       [] e.ev = "ReadMult" ->
            /\ Report(l, IF e.err THEN {} ELSE
                         ReadPreds(e, e.data) \cup (IF Len(e.data) % e.n # 0 THEN {"C18_multiple"} ELSE {}), scen)
            /\ nxt' = IF e.err THEN nxt ELSE nxt + Len(e.data)
            /\ mr' = IF e.err THEN mr ELSE mr + Len(e.data)
            /\ UNCHANGED <<scen, cap, acc, mw, off>>
       [] e.ev = "Conc" ->
            \* a writer and a reader at the same time on the same shared memory (RingConc.tla): every byte the reader got is
            \* the byte written for its stream position, and the reader got everything that was accepted
            /\ Report(l, (IF e.bad >= 0 THEN {"C18_prefix"} ELSE {}) \cup (IF e.bad = 0 - 2 \/ (e.bad < 0 /\ e.nread # e.produced) THEN {"C18_lossfree"} ELSE {}), e.scen)
            /\ UNCHANGED <<scen, cap, acc, nxt, mw, mr, off>>
       [] e.ev = "Panic" ->
            /\ Report(l, {"C18_nocrash"}, scen) /\ UNCHANGED <<scen, cap, acc, nxt, mw, mr, off>>
       [] e.ev = "Discard" ->
            \* e.rp, e.wp: read/write positions (monotone counters) observed after the call
            /\ Report(l, (IF e.rp % e.n # 0 /\ (\E m \in nxt..acc : m % e.n = 0) THEN {"C18_stride"} ELSE {})
                         \cup (IF e.rp < nxt THEN {"C18_norepeat"} ELSE {})
                         \cup (IF e.rp > acc THEN {"C18_beyond"} ELSE {})
                         \cup (IF e.wp # acc THEN {"C18_writeptr"} ELSE {}), scen)
            /\ nxt' = e.rp /\ mr' = e.rp /\ UNCHANGED <<scen, cap, acc, mw, off>>

Next == Step
Spec == Init /\ [][Next]_vars

NScen == Cardinality({i \in 1..Len(Log) : Log[i].ev = "Create"})
Consumed == /\ TLCGet("stats").diameter - 1 = Len(Log)
            /\ PrintT(<<"DONE", Len(Log), NScen>>)
=============================================================================
