SPECIFICATION Spec
CONSTANTS W = 7
 Frac = 6
 Drop = 2
 Bias = 5
 ResetAfter = 1
 PulsePositive = TRUE
 Invert = FALSE
 Enable = TRUE
INVARIANTS NoBad
VIEW View
CHECK_DEADLOCK FALSE
