------------------------------- MODULE Broker -------------------------------
(* Group-trigger broker (C09): TriggerBroker.AddConnection / DeleteConnection / StopTriggerCoupling /
   computeGroupTriggerState / Distribute, and AnySource.ChangeGroupTrigger.

   Implementation layer: sources[rx] (set of source indices, as the Go map keys), nconnections, and the
   per-cycle Distribute (which indexes latestPrimaries by every stored source).
   Property layer: conn, the set-theoretic result of the edit history over the valid index range.   *)
EXTENDS Integers, Sequences, FiniteSets, TLC

CONSTANTS NChan,          \* channels 0..NChan-1
          Idx,            \* index alphabet offered by clients (includes out-of-range values)
          MaxEdits, MaxCycles,
          ValidateSource  \* FALSE = tree before the fix: AddConnection checks only the receiver

VARIABLES sources, nconn, conn, reported, crashed, secondaries, prim, nedits, ncycles, act
vars == <<sources, nconn, conn, reported, crashed, secondaries, prim, nedits, ncycles, act>>
Chans == 0..(NChan - 1)
InRange(x) == x \in Chans

Init == /\ sources = [r \in Chans |-> {}] /\ nconn = 0 /\ conn = {} /\ reported = {} /\ crashed = FALSE
        /\ secondaries = [r \in Chans |-> {}] /\ prim = [c \in Chans |-> {}] /\ nedits = 0 /\ ncycles = 0
        /\ act = [a |-> "init"]

Report(src) == {<<s, r>> : s \in UNION {src[x] : x \in Chans}, r \in Chans} \cap {<<s, r>> \in (UNION {src[x] : x \in Chans}) \X Chans : s \in src[r]}

Add(s, r) ==
  /\ nedits < MaxEdits /\ ~crashed /\ nedits' = nedits + 1 /\ act' = [a |-> "add", s |-> s, r |-> r]
  /\ conn' = IF InRange(s) /\ InRange(r) /\ s # r THEN conn \cup {<<s, r>>} ELSE conn
  /\ IF s = r \/ ~InRange(r) \/ (ValidateSource /\ ~InRange(s))
     THEN UNCHANGED <<sources, nconn>>
     ELSE /\ sources' = [sources EXCEPT ![r] = @ \cup {s}]
          /\ nconn' = IF s \in sources[r] THEN nconn ELSE nconn + 1
  /\ reported' = Report(sources')
  /\ UNCHANGED <<crashed, secondaries, prim, ncycles>>

Del(s, r) ==
  /\ nedits < MaxEdits /\ ~crashed /\ nedits' = nedits + 1 /\ act' = [a |-> "del", s |-> s, r |-> r]
  /\ conn' = conn \ {<<s, r>>}
  /\ IF ~InRange(r) THEN UNCHANGED <<sources, nconn>>
     ELSE /\ sources' = [sources EXCEPT ![r] = @ \ {s}]
          /\ nconn' = IF s \in sources[r] THEN nconn - 1 ELSE nconn
  /\ reported' = Report(sources')
  /\ UNCHANGED <<crashed, secondaries, prim, ncycles>>

StopAll ==
  /\ nedits < MaxEdits /\ ~crashed /\ nedits' = nedits + 1 /\ act' = [a |-> "stop"]
  /\ conn' = {} /\ sources' = [r \in Chans |-> {}] /\ nconn' = 0 /\ reported' = {}
  /\ UNCHANGED <<crashed, secondaries, prim, ncycles>>

\* one processing cycle: P[c] = set of primary frames of channel c
Cycle(P) ==
  /\ ncycles < MaxCycles /\ ~crashed /\ ncycles' = ncycles + 1 /\ act' = [a |-> "cycle", prim |-> P]
  /\ prim' = P
  /\ LET np == \E c \in Chans : P[c] # {} IN
     IF ~np \/ nconn = 0
     THEN /\ secondaries' = [r \in Chans |-> {}] /\ crashed' = FALSE
     ELSE IF \E r \in Chans : \E s \in sources[r] : ~InRange(s)
          THEN /\ crashed' = TRUE /\ UNCHANGED secondaries          \* index out of range in latestPrimaries[source]
          ELSE /\ secondaries' = [r \in Chans |-> {<<s, f>> : s \in sources[r], f \in UNION {P[x] : x \in Chans}} \cap
                                                  {<<s, f>> \in sources[r] \X UNION {P[x] : x \in Chans} : f \in P[s]}]
               /\ crashed' = FALSE
  /\ UNCHANGED <<sources, nconn, conn, reported, nedits>>

Next == \/ \E s, r \in Idx : Add(s, r) \/ Del(s, r)
        \/ StopAll
        \/ \E P \in [Chans -> {{}, {7}}] : Cycle(P)
Spec == Init /\ [][Next]_vars

\* ---------------------------------------------------------------- properties
ImplSet == {<<s, r>> \in (UNION {sources[x] : x \in Chans}) \X Chans : s \in sources[r]}
C09_set == ImplSet = conn
C09_reported == reported = conn
C09_count == nconn = Cardinality(ImplSet)
C09_nocrash == ~crashed
C09_secondaries == (act.a = "cycle" /\ ~crashed) =>
      \A r \in Chans : secondaries[r] = {<<s, f>> \in Chans \X {7} : <<s, r>> \in conn /\ f \in prim[s]}
View == <<sources, nconn, conn, reported, crashed, secondaries, prim, nedits, ncycles>>

IdxSet == {-1, 0, 1, 2, 3}
=============================================================================
