---------------------------- MODULE RingBuffer ----------------------------
(* Shared-memory ring buffer of ringbuffer/ringbuffer.go (C18).

   Implementation layer: w, r (monotone byte counters kept in the shared descriptor), mem (the mapped
   raw region), one action per exported call, with the arithmetic of the Go code (capacity-1 usable
   bytes, wrap by two copies, BytesReadable clamp, DiscardStride = w - w % stride).
   Property layer: every byte carries its global write index (the drivers write index mod 251), so
   "reads concatenate to a prefix of the accepted writes, nothing skipped/repeated/reordered" is
   nxt-bookkeeping: a read must return exactly indices nxt, nxt+1, ...; a discard may only move
   nxt forward, never beyond acc.  *)
EXTENDS Integers, Sequences, FiniteSets, TLC

CONSTANTS Caps,         \* buffer sizes in bytes (bufferSize) tried; cap is chosen at Init
          MaxN,         \* largest size argument tried
          MaxTotal,     \* bound on accepted bytes (keeps the exhaustive model finite)
          DiscardRewinds, \* TRUE = as the code is: DiscardStride sets r := w - w % s even when that is < r
          MaxCreates,     \* how often a new writer calls Create on regions a previous writer left behind (no Unlink)
          CreateKeepsPointers \* deviation (FALSE = as the code is): Create does not zero the pointers it finds in the descriptor

VARIABLES cap, w, r, mem, ncr, \* implementation (ncr: Create calls so far)
          acc, nxt,     \* property layer: bytes accepted so far; global index the next read must start at
          bad,          \* set of property predicates violated by the last step
          act           \* output only: last action (excluded from VIEW)

vars == <<cap, w, r, mem, ncr, acc, nxt, bad, act>>

Min(a, b) == IF a < b THEN a ELSE b
Max(a, b) == IF a > b THEN a ELSE b

Init == /\ cap \in Caps /\ w = 0 /\ r = 0 /\ mem = [i \in 0..(cap-1) |-> -1]
        /\ acc = 0 /\ nxt = 0 /\ bad = {} /\ act = [op |-> "Create", cap |-> cap] /\ ncr = 1

\* ---------------------------------------------------------------- implementation layer
Avail == cap - (w - r + 1)
Readable == IF w - r >= cap THEN cap - 1 ELSE w - r

Write(n) ==
  LET k == Min(n, Avail) IN
  /\ Avail >= 0              \* (the test-only Write of the package is never used on a ring its real producer has filled to the last byte)
  /\ acc + k <= MaxTotal
  /\ mem' = [i \in 0..(cap-1) |->
               IF \E j \in 0..(k-1) : (w + j) % cap = i
               THEN CHOOSE g \in w..(w+k-1) : g % cap = i ELSE mem[i]]
  /\ w' = w + k /\ acc' = acc + k
  /\ bad' = (IF k > n \/ k < 0 THEN {"C18_accept"} ELSE {})
            \cup (IF k > cap - (acc - nxt) THEN {"C18_overwrite"} ELSE {})
  /\ act' = [op |-> "Write", n |-> n, ret |-> k]
  /\ UNCHANGED <<r, nxt>>

\* The producer of the real system is another process (the DMA engine's driver) that writes into the mapped region and
\* publishes writePointer itself; unlike Write above it may use the last byte too, so the ring can be completely full
\* (w - r = cap), a state Read and BytesReadable provide for.
XWrite(n) ==
  LET k == Min(n, cap - (w - r)) IN
  /\ acc + k <= MaxTotal
  /\ mem' = [i \in 0..(cap-1) |->
               IF \E j \in 0..(k-1) : (w + j) % cap = i
               THEN CHOOSE g \in w..(w+k-1) : g % cap = i ELSE mem[i]]
  /\ w' = w + k /\ acc' = acc + k
  /\ bad' = {}
  /\ act' = [op |-> "XWrite", n |-> n, ret |-> k]
  /\ UNCHANGED <<r, nxt>>

\* the bytes a Read(size) returns, as a sequence of global indices
ReadData(size) == LET k == Min(size, w - r) IN
                  IF k <= 0 THEN <<>> ELSE [j \in 1..k |-> mem[(r + j - 1) % cap]]

\* property-layer judgement of returned data d
JudgeRead(d) == (IF \E j \in 1..Len(d) : d[j] # nxt + j - 1 THEN {"C18_prefix"} ELSE {})
                \cup (IF Len(d) > acc - nxt THEN {"C18_beyond"} ELSE {})

DoRead(size, name, arg) ==
  LET d == ReadData(size) IN
  /\ r' = r + Len(d)
  /\ nxt' = nxt + Len(d)
  /\ bad' = JudgeRead(d)
  /\ act' = [op |-> name, n |-> arg, data |-> d]
  /\ UNCHANGED <<w, mem, acc>>

Read(n) == DoRead(n, "Read", n)
ReadAll == DoRead(cap, "ReadAll", 0)
ReadMultipleOf(c) ==
  IF c >= cap
  THEN /\ bad' = {} /\ act' = [op |-> "ReadMult", n |-> c, err |-> TRUE]
       /\ UNCHANGED <<w, r, mem, acc, nxt>>
  ELSE LET n == c * (Readable \div c) d == ReadData(n) IN
       /\ r' = r + Len(d) /\ nxt' = nxt + Len(d)
       /\ bad' = JudgeRead(d) \cup (IF Len(d) % c # 0 THEN {"C18_multiple"} ELSE {})
       /\ act' = [op |-> "ReadMult", n |-> c, data |-> d]
       /\ UNCHANGED <<w, mem, acc>>

DiscardStride(s) ==
  LET cand == w - (w % s)
      newR == IF DiscardRewinds THEN cand ELSE Max(r, cand) IN
  /\ r' = newR
  /\ nxt' = newR
  /\ bad' = (IF newR % s # 0 /\ (\E m \in r..w : m % s = 0) THEN {"C18_stride"} ELSE {})
            \cup (IF newR < nxt THEN {"C18_norepeat"} ELSE {})
            \cup (IF newR > acc THEN {"C18_beyond"} ELSE {})
  /\ act' = [op |-> "Discard", n |-> s, rp |-> newR, wp |-> w]
  /\ UNCHANGED <<w, mem, acc>>

\* A writer that went away without Unlink leaves both shared-memory regions behind; the next writer's Create opens them
\* (O_CREATE without O_EXCL / O_TRUNC), resizes them and must start from an empty ring whatever it finds there.
Recreate(c) ==
  /\ ncr < MaxCreates /\ ncr' = ncr + 1
  /\ cap' = c
  /\ mem' = [i \in 0..(c-1) |-> IF i < cap THEN mem[i] ELSE -1]      \* Ftruncate keeps the old content
  /\ w' = (IF CreateKeepsPointers THEN w ELSE 0) /\ r' = (IF CreateKeepsPointers THEN r ELSE 0)
  /\ acc' = 0 /\ nxt' = 0                                            \* the new ring's history starts here
  /\ bad' = (IF w' # r' THEN {"C18_fresh_empty"} ELSE {})
  /\ act' = [op |-> "Recreate", cap |-> c]

Ops == \/ \E n \in 0..MaxN : Write(n)
       \/ \E n \in 1..MaxN : XWrite(n)
       \/ \E n \in 0..MaxN : Read(n)
       \/ ReadAll
       \/ \E c \in 1..MaxN : ReadMultipleOf(c)
       \/ \E s \in 1..MaxN : DiscardStride(s)
Next == \/ \E c \in Caps : Recreate(c)
        \/ (UNCHANGED <<cap, ncr>> /\ Ops)

Spec == Init /\ [][Next]_vars

\* ---------------------------------------------------------------- properties
NoBad == bad = {}
\* structural invariants of a correct ring: never more than cap-1 unread bytes; memory holds what was accepted
Bounded == /\ 0 <= w - r /\ w - r <= cap
Holds   == \A g \in r..(w-1) : mem[g % cap] = g
Ghost   == /\ acc = w /\ nxt = r
FullEmptyReachable == TRUE

View == <<cap, w, r, mem, ncr, acc, nxt, bad>>
=============================================================================
