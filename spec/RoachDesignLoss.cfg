SPECIFICATION Spec
CONSTANTS
  NChan = 2
  MaxPackets = 6
  MaxNsamp = 2
  MaxLoss = 2
  FirstPacketOnly = FALSE
INVARIANTS TypeOK Demux SameLength FrameTruth LossReported NoSpuriousWarning
CHECK_DEADLOCK FALSE
