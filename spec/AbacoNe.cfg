SPECIFICATION Spec
CONSTANTS NGroups = 2
 Fpp <- FppNe
 MaxSN = 5
 MaxTicks = 3
 MaxBatch = 3
 Last0s = {0}
 FillCountsLeftovers = FALSE
 DropCountPerTick = FALSE
INVARIANTS C03_nocrash
VIEW View
CHECK_DEADLOCK FALSE
