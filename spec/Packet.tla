------------------------------- MODULE Packet -------------------------------
(* Packet grammar for C15 (packets/packets.go): a datagram is a 16-byte fixed header (version, header length, payload
   length, magic, source id, sequence number), a sequence of TLV items (type, length in 8-byte units, body) and a payload.
   This module is the case generator: CaseSet enumerates every TLV sequence up to MaxTLV items over the alphabet below,
   combined with header and payload variants; TLC prints it as JSON, the Go driver builds the bytes, decodes them with
   ReadPacket and calls every accessor.  Abstract items:
     fmt_h / fmt_i / fmt_q / fmt_H_be   one-component formats (int16, int32, int64, big-endian uint16)
     fmt_hh                            two components (payload read as raw bytes)
     fmt_empty                         a format TLV with no data character (word length 0)
     fmt_bad                           unknown format character (decoder must fail)
     shape1 / shape2 / shape0          one size, two sizes, no positive size (decoder must fail)
     chanoff / chanoff_pad             channel offset, channel offset with non-zero padding (must fail)
     ts / tsunit / counter / tag / label / label_ext ("value,active,t": external trigger) / unknown
     len0 / toolong                    TLV claiming length 0 / more than is left in the header (must fail)
   Header variants: ok | badmagic | short (header length < 16) | hdrlen_minus8 | hdrlen_plus8 (declared header length
   disagrees with the TLVs present).  Payload variants: match (frames x channels x word length) | zero | odd (declared
   length not a multiple of the word) | truncated (fewer bytes present than declared) | extra (more bytes follow).  *)
EXTENDS Integers, Sequences, FiniteSets, TLC, Json
CONSTANTS MaxTLV
Alphabet == {"fmt_h", "fmt_i", "fmt_q", "fmt_H_be", "fmt_hh", "fmt_empty", "fmt_bad", "shape1", "shape2", "shape0",
             "chanoff", "chanoff_pad", "ts", "tsunit", "counter", "tag", "label", "label_ext", "unknown", "len0", "toolong"}
Headers == {"ok", "badmagic", "short", "hdrlen_minus8", "hdrlen_plus8"}
Payloads == {"match", "zero", "odd", "truncated", "extra"}
Seqs == UNION {[1..n -> Alphabet] : n \in 0..MaxTLV}
\* keep the bound useful: every sequence of length <= 2, and length-3 sequences that contain a format or a shape
Interesting(s) == Len(s) <= 2 \/ \E i \in 1..Len(s) : s[i] \in {"fmt_h", "fmt_i", "fmt_empty", "fmt_hh", "shape1", "shape2"}
CaseSet == {[tlvs |-> s, hdr |-> h, payload |-> p] : s \in {x \in Seqs : Interesting(x)}, h \in Headers, p \in Payloads}
\* cases the decoder MUST refuse (everything else it may accept or refuse, but must stay safe)
MustFail(c) == c.hdr \in {"badmagic", "short"} \/ \E i \in 1..Len(c.tlvs) : c.tlvs[i] \in {"fmt_bad", "shape0", "chanoff_pad", "len0", "toolong"}
VARIABLE emitted
Init == emitted = FALSE
Next == ~emitted /\ emitted' = TRUE /\ PrintT(<<"CASES", ToJson(CaseSet)>>)
Spec == Init /\ [][Next]_emitted
=============================================================================
