SPECIFICATION Spec
CONSTANTS ReaderReadsNextFrame = FALSE
 WorkersWriteNSamp = FALSE
 FlagAfterClose = FALSE
INVARIANTS NoConflict
CHECK_DEADLOCK FALSE
