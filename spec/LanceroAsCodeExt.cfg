SPECIFICATION Spec
CONSTANTS Cols = 2
 Rows = 2
 NFrames = 9
 ReadSteps = {0, 12, 17}
 MaxReads = 4
 GapAts = {0}
 GapLens = {0}
 ExtCells <- Ext1
 ExtScanByRow = TRUE
 CounterIgnoresDrop = FALSE
 AlignAssumesOneFrame = FALSE
 CheckEveryFrame = FALSE
INVARIANTS C04_ext_count
VIEW View
CHECK_DEADLOCK FALSE
