SPECIFICATION Spec
CONSTANTS NPre = 4
 NSamp = 8
 Threshold <- ThrNeg
 NMono = 2
 Mode = "iso"
 MaxLen = 60
 BlockSizes = {1, 3, 8, 9, 25}
 MaxEdges = 3
 KeepN = 26
 ZFirst = 0
 ZAll = 0
 FirstSampleGuard = TRUE
 PairWindow = 1000
INVARIANTS C08_increasing C08_full_length C08_var_disjoint C08_index C08_independent
VIEW View
CHECK_DEADLOCK FALSE
