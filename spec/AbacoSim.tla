----------------------------- MODULE AbacoSim -----------------------------
(* Behaviour generator for C03: AbacoIngest's actions plus a history variable, emitted as JSON when the
   behaviour reaches SimDepth (tlc -simulate).  The Go driver turns each history into a packet script for
   the real reader loop (arrivals per tick; the map-order choice of Process cannot be forced and is left
   to the Go runtime). *)
EXTENDS AbacoIngest, Json
CONSTANT SimDepth
VARIABLE hist
SimInit == Init /\ hist = <<act>>
SimNext == Next /\ hist' = Append(hist, act')
SimSpec == SimInit /\ [][SimNext]_<<vars, hist>>
Emit == Len(hist) < SimDepth \/ PrintT(<<"SCEN", ToJson([fpp |-> Fpp, steps |-> hist])>>)
=============================================================================
