SPECIFICATION Spec
CONSTANTS ReaderReadsNextFrame = FALSE
 WorkersWriteNSamp = FALSE
 FlagAfterClose = TRUE
INVARIANTS NoConflict
CHECK_DEADLOCK FALSE
