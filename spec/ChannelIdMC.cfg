SPECIFICATION Spec
CONSTANTS DevNums = {0, 1, 3}
 Geoms <- GeomsMC
 FirstRows = {0, 1, 5}
 SepCards = {0, 1, 4, 6, 9, 10}
 SepCols = {0, 1, 2, 3, 4}
 MaxPasses = 2
 ResetGroups = TRUE
 SkipLastCardCheck = FALSE
INVARIANTS C19_no_collision C19_groups_cover
CHECK_DEADLOCK FALSE
