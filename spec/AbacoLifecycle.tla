--------------------------- MODULE AbacoLifecycle ---------------------------
(* Life cycle of a running Abaco source (abaco.go: StartRun / readerMainLoop / getNextBlock, data_source.go: CoreLoop /
   Stop): the three-stage chain  reader goroutine -> buffersChan (capacity Cap) -> one getNextBlock goroutine per core-loop
   iteration -> nextBlock -> core loop,  with the two ways a run ends (Stop closes abortSelf; the hardware falls silent
   and the reader's 5 s time-out fires) and the deliberate panic timer of getNextBlock.  Complements Lifecycle.tla, whose
   producer is a single goroutine (the simulated sources); bound to the code by the localhost-UDP driver of C10 (stop /
   restart cycles, a run that ends by the orderly time-out, goroutine census, restart).

   Switches:
     PanicLater         FALSE = as the code is: the panic timer of getNextBlock (cap(buffersChan) x readPeriod = 5 s) equals
                        the reader's time-out, so when the hardware falls silent either may fire first.  TRUE = design
                        variant in which the panic can only fire once the reader is gone.
     CloseInAbortOnly   FALSE = as the code is: the devices are closed where the closed buffersChan is noticed, i.e. on
                        every kind of run end.  TRUE = variant (seeded change C10-s4): closed only in the reader's abort arm. *)
EXTENDS Integers, FiniteSets, TLC
CONSTANTS Cap, MaxBlocks, PanicLater, CloseInAbortOnly
VARIABLES hw,        \* "flowing" | "silent"
          rd,        \* reader goroutine: "run" | "done"
          buf,       \* items in buffersChan
          bclosed,   \* buffersChan closed
          gn,        \* the current getNextBlock goroutine: "none" | "wait" | "send"
          core,      \* core loop: "call" | "select" | "blk" | "gone"
          nbClosed,  \* nextBlock closed
          abort,     \* abortSelf closed
          devOpen,   \* sockets / ring buffers open
          st,        \* "Active" | "Stopping" | "Inactive"
          kpc,       \* the one Stop caller: "idle" | "waiting" | "returned"
          made,      \* blocks produced so far (bound)
          panicked
vars == <<hw, rd, buf, bclosed, gn, core, nbClosed, abort, devOpen, st, kpc, made, panicked>>

Init == /\ hw = "flowing" /\ rd = "run" /\ buf = 0 /\ bclosed = FALSE /\ gn = "none" /\ core = "call" /\ nbClosed = FALSE
        /\ abort = FALSE /\ devOpen = TRUE /\ st = "Active" /\ kpc = "idle" /\ made = 0 /\ panicked = FALSE
Live == ~panicked

HwSilence == Live /\ hw = "flowing" /\ hw' = "silent"
             /\ UNCHANGED <<rd, buf, bclosed, gn, core, nbClosed, abort, devOpen, st, kpc, made, panicked>>
ReaderTick == Live /\ rd = "run" /\ hw = "flowing" /\ buf < Cap /\ made < MaxBlocks /\ buf' = buf + 1 /\ made' = made + 1
              /\ UNCHANGED <<hw, rd, bclosed, gn, core, nbClosed, abort, devOpen, st, kpc, panicked>>
ReaderAbort == Live /\ rd = "run" /\ abort /\ rd' = "done" /\ bclosed' = TRUE
               /\ devOpen' = (IF CloseInAbortOnly THEN FALSE ELSE devOpen)
               /\ UNCHANGED <<hw, buf, gn, core, nbClosed, abort, st, kpc, made, panicked>>
ReaderTimeout == Live /\ rd = "run" /\ hw = "silent" /\ rd' = "done" /\ bclosed' = TRUE      \* "Abaco read timed out"
                 /\ UNCHANGED <<hw, buf, gn, core, nbClosed, abort, devOpen, st, kpc, made, panicked>>
CoreCall == Live /\ core = "call" /\ gn = "none" /\ gn' = "wait" /\ core' = "select"
            /\ UNCHANGED <<hw, rd, buf, bclosed, nbClosed, abort, devOpen, st, kpc, made, panicked>>
GnTake == Live /\ gn = "wait" /\ buf > 0 /\ buf' = buf - 1 /\ gn' = "send"
          /\ UNCHANGED <<hw, rd, bclosed, core, nbClosed, abort, devOpen, st, kpc, made, panicked>>
GnClosed == Live /\ gn = "wait" /\ buf = 0 /\ bclosed /\ gn' = "none" /\ nbClosed' = TRUE
            /\ devOpen' = (IF CloseInAbortOnly THEN devOpen ELSE FALSE)                       \* closeDevices()
            /\ UNCHANGED <<hw, rd, buf, bclosed, core, abort, st, kpc, made, panicked>>
GnPanic == Live /\ gn = "wait" /\ buf = 0 /\ ~bclosed /\ hw = "silent" /\ (PanicLater => rd # "run")
           /\ panicked' = TRUE                                                               \* "timeout, no data from Abaco"
           /\ UNCHANGED <<hw, rd, buf, bclosed, gn, core, nbClosed, abort, devOpen, st, kpc, made>>
CoreTakeBlock == Live /\ core = "select" /\ gn = "send" /\ gn' = "none" /\ core' = "blk"
                 /\ UNCHANGED <<hw, rd, buf, bclosed, nbClosed, abort, devOpen, st, kpc, made, panicked>>
CoreBlockDone == Live /\ core = "blk" /\ core' = "call"
                 /\ UNCHANGED <<hw, rd, buf, bclosed, gn, nbClosed, abort, devOpen, st, kpc, made, panicked>>
CoreSeeClosed == Live /\ core = "select" /\ nbClosed /\ core' = "gone" /\ st' = "Inactive"
                 /\ UNCHANGED <<hw, rd, buf, bclosed, gn, nbClosed, abort, devOpen, kpc, made, panicked>>
StopCall == /\ Live /\ kpc = "idle"
            /\ IF st = "Active" THEN st' = "Stopping" /\ abort' = TRUE /\ kpc' = "waiting"
               ELSE kpc' = "returned" /\ UNCHANGED <<st, abort>>
            /\ UNCHANGED <<hw, rd, buf, bclosed, gn, core, nbClosed, devOpen, made, panicked>>
StopWaited == Live /\ kpc = "waiting" /\ core = "gone" /\ kpc' = "returned"
              /\ UNCHANGED <<hw, rd, buf, bclosed, gn, core, nbClosed, abort, devOpen, st, made, panicked>>
Next == HwSilence \/ ReaderTick \/ ReaderAbort \/ ReaderTimeout \/ CoreCall \/ GnTake \/ GnClosed \/ GnPanic
        \/ CoreTakeBlock \/ CoreBlockDone \/ CoreSeeClosed \/ StopCall \/ StopWaited
Spec == Init /\ [][Next]_vars

Terminal == ~ENABLED Next
\* whichever way the run ended: every goroutine of the run is gone, the devices are released, a Stop call has returned
C10_run_ends_clean == (Terminal /\ ~panicked /\ core = "gone") =>
                         (rd = "done" /\ gn = "none" /\ ~devOpen /\ st = "Inactive" /\ kpc \in {"idle", "returned"})
\* the only terminal states are "the run has ended" (or "nothing ever stops it": data keep flowing up to the bound, no Stop)
C10_no_stuck == (Terminal /\ ~panicked) => (core = "gone" \/ (hw = "flowing" /\ kpc = "idle"))
\* a silent hardware alone never takes the server down (holds only with PanicLater)
NoPanic == ~panicked
=============================================================================
