----------------------------- MODULE Lifecycle -----------------------------
(* Source life cycle and control requests (C10, C11): data_source.go Start / CoreLoop / AnySource.Stop,
   the producers of simulated_data_sources.go, and rpc_server.go SourceControl.Start / Stop /
   runLaterIfActive with the request closures.

   One action per step between two hook points (vpoint names in the Go code are given in comments).
   Unbuffered channels are joint actions of the sender at its send point and the receiver in the matching
   select arm; close() is a flag; a select with several enabled arms is several enabled actions.

   Processes
     starter      SourceControl.Start: flag check, Start(ds): SetStateStarting, Sample, PrepareChannels+
                  PrepareRun, RunDoneActivate, StartRun (launches the producer), go CoreLoop; then flag := TRUE
     core         CoreLoop: select {request -> run closure (sends results), block -> ProcessSegments,
                  closed / error block -> return}; deferred RunDoneDeactivate
     producer     simple (Triangle/SimPulse): select {abort -> close(nextBlock), tick -> send block}
                  erroring: sends one error block
     stopper s    SourceControl.Stop (flag check, AnySource.Stop, handlePossibleStoppedSource) or, with
                  RPCLayer = FALSE, AnySource.Stop called directly
     client c     one control request through runLaterIfActive: flag check, send closure, receive result
   Deviation switches (TRUE = as the pinned code is)
     StaleFlag    runLaterIfActive trusts isSourceActive, which only Stop / status broadcasts refresh: after
                  the source ended by itself the send of the closure blocks forever.  Repaired code keeps
                  checking the source state while it waits to hand the closure over (ReqGiveUp).
     SharedWaitGroup  a Stop caller that has not yet reached RunDoneWait when the run ends and a new run is started
                  waits for the end of the NEW run.
     DoubleSend   a closure may send two results (WriteComment when comment.txt cannot be created): the
                  second send parks the core loop forever.  *)
EXTENDS Integers, Sequences, FiniteSets, TLC

CONSTANTS Stoppers, Clients, ProducerKind, MaxBlocks, MaxRuns, StartMayFail, RPCLayer, StaleFlag, DoubleSend,
          SharedWaitGroup, \* TRUE = as the code is: Stop waits on the one WaitGroup that every run re-uses
          Replayable,     \* TRUE = leave out select races the replay driver cannot force (tick vs abort, data vs closed)
          WriteClients,   \* clients whose request is WriteControl(START): their closure turns data writing on
          MaxPolls,       \* how often a waiting client's 50 ms poll is modelled as a step of its own
          PollOnce,       \* FALSE = as the code is: the poll repeats for as long as the request waits
          WritingOutlivesRun, \* TRUE = as the pinned code was: only a Stop that stops a running source turns writing off
          StopCheckThenAct   \* deviation (FALSE = as the code is): AnySource.Stop reads the state, releases the lock, and only
                             \* then takes it again to set Stopping - decision and action are two steps (the hook vheld
                             \* checks on the code that they are one critical section)

VARIABLES st,        \* sourceState: "Inactive" | "Starting" | "Active" | "Stopping"   (under sourceStateLock)
          runDone,   \* the WaitGroup counter
          abortC,    \* abortSelf closed?
          nbC,       \* nextBlock closed?
          flag,      \* SourceControl.isSourceActive
          spc,       \* starter pc
          cpc,       \* core pc: "none" | "select" | "req" | "blk" | "gone"
          ctos,      \* results the running closure still has to send
          ppc,       \* producer pc: "none" | "wait" | "send" | "senderr" | "done"
          nblk,      \* blocks produced in this run
          kpc, kres, \* stopper pc / result
          rpc, rres, \* client pc / result
          runs, panicked, act,
          donegen,   \* ghost: generation of the last run whose core loop has exited
          gen, kgen, \* ghost: number of Start calls accepted so far; its value when stopper s called Stop
          writing,   \* writingState.Active of the source object
          npoll      \* polls a waiting client has made (runLaterIfActive's ticker)
vars == <<st, runDone, abortC, nbC, flag, spc, cpc, ctos, ppc, nblk, kpc, kres, rpc, rres, runs, panicked, act, gen, kgen, donegen, writing, npoll>>

Init == /\ st = "Inactive" /\ runDone = 0 /\ abortC = FALSE /\ nbC = FALSE /\ flag = FALSE
        /\ spc = "idle" /\ cpc = "none" /\ ctos = 0 /\ ppc = "none" /\ nblk = 0
        /\ kpc = [s \in Stoppers |-> "idle"] /\ kres = [s \in Stoppers |-> "none"]
        /\ rpc = [c \in Clients |-> "idle"] /\ rres = [c \in Clients |-> "none"]
        /\ runs = 0 /\ panicked = FALSE /\ act = [a |-> "Init"]
        /\ gen = 0 /\ kgen = [s \in Stoppers |-> 0] /\ donegen = 0 /\ writing = FALSE /\ npoll = [c \in Clients |-> 0]

Live == ~panicked

\* ------------------------------------------------------------------ starter (SourceControl.Start + Start)
StartCall ==      \* RPC entry: "already have active source" when the flag is set
  /\ Live /\ spc \in {"idle", "done", "failed"} /\ gen < MaxRuns   \* MaxRuns bounds the accepted Start calls (failed ones included)
  /\ IF RPCLayer /\ flag
     THEN spc' = "failed" /\ act' = [a |-> "StartCall", r |-> "refused-flag"] /\ UNCHANGED st
     ELSE IF st = "Inactive"                                   \* SetStateStarting (vpoint Start.begin)
          THEN spc' = "starting" /\ st' = "Starting" /\ act' = [a |-> "StartCall", r |-> "ok"]
          ELSE spc' = "failed" /\ act' = [a |-> "StartCall", r |-> "refused-state"] /\ UNCHANGED st
  /\ gen' = IF spc' = "starting" THEN gen + 1 ELSE gen
  /\ UNCHANGED <<runDone, abortC, nbC, flag, cpc, ctos, ppc, nblk, kpc, kres, rpc, rres, runs, panicked, kgen, donegen, writing, npoll>>

StartFail(phase) ==   \* Sample / PrepareRun fails: SetStateInactive, error returned (vpoint Start.failed)
  /\ Live /\ phase \in StartMayFail
  /\ \/ (phase = "sample" /\ spc = "starting")
     \/ (phase = "prepare" /\ spc = "sampled")
  /\ st' = "Inactive" /\ spc' = "failed" /\ flag' = FALSE
  /\ act' = [a |-> "StartFail", phase |-> phase]
  /\ UNCHANGED <<runDone, abortC, nbC, cpc, ctos, ppc, nblk, kpc, kres, rpc, rres, runs, panicked, gen, kgen, donegen, writing, npoll>>

StartSample ==    \* vpoint Start.sampled
  /\ Live /\ spc = "starting" /\ spc' = "sampled" /\ act' = [a |-> "StartSample"]
  /\ UNCHANGED <<st, runDone, abortC, nbC, flag, cpc, ctos, ppc, nblk, kpc, kres, rpc, rres, runs, panicked, gen, kgen, donegen, writing, npoll>>

StartPrepare ==   \* PrepareRun makes fresh abortSelf / nextBlock channels (vpoint Start.prepared)
  /\ Live /\ spc = "sampled" /\ spc' = "prepared" /\ abortC' = FALSE /\ nbC' = FALSE
  /\ act' = [a |-> "StartPrepare"]
  /\ UNCHANGED <<st, runDone, flag, cpc, ctos, ppc, nblk, kpc, kres, rpc, rres, runs, panicked, gen, kgen, donegen, writing, npoll>>

StartActivate ==  \* RunDoneActivate + StartRun (producer launched) + go CoreLoop (vpoint Start.launched)
  /\ Live /\ spc = "prepared" /\ spc' = "launched"
  /\ st' = "Active" /\ runDone' = 1
  /\ ppc' = IF ProducerKind = "erroring" THEN "senderr" ELSE "wait"
  /\ nblk' = 0 /\ cpc' = "select"
  /\ act' = [a |-> "StartActivate"]
  /\ UNCHANGED <<abortC, nbC, flag, ctos, kpc, kres, rpc, rres, runs, panicked, gen, kgen, donegen, writing, npoll>>

StartReturn ==    \* back in SourceControl.Start: isSourceActive = true, broadcasts
  /\ Live /\ spc = "launched" /\ spc' = "done" /\ runs' = runs + 1
  /\ flag' = (st = "Active")   \* isSourceActive = true, then broadcastStatus -> handlePossibleStoppedSource
  /\ act' = [a |-> "StartReturn"]
  /\ UNCHANGED <<st, runDone, abortC, nbC, cpc, ctos, ppc, nblk, kpc, kres, rpc, rres, panicked, gen, kgen, donegen, writing, npoll>>

\* ------------------------------------------------------------------ producer
ProducerTick ==   \* time.After fired: block built (vpoint Producer.send is before the send)
  /\ Live /\ ppc = "wait" /\ nblk < MaxBlocks /\ ppc' = "send" /\ nblk' = nblk + 1
  /\ (Replayable => ~abortC)
  /\ act' = [a |-> "ProducerTick"]
  /\ UNCHANGED <<st, runDone, abortC, nbC, flag, spc, cpc, ctos, kpc, kres, rpc, rres, runs, panicked, gen, kgen, donegen, writing, npoll>>

ProducerAbort ==  \* abort arm: close(nextBlock), goroutine returns (vpoint Producer.abort)
  /\ Live /\ ppc = "wait" /\ abortC /\ ppc' = "done" /\ nbC' = TRUE
  /\ act' = [a |-> "ProducerAbort"]
  /\ UNCHANGED <<st, runDone, abortC, flag, spc, cpc, ctos, nblk, kpc, kres, rpc, rres, runs, panicked, gen, kgen, donegen, writing, npoll>>

\* ------------------------------------------------------------------ core loop
CoreExit(why) ==    \* the deferred calls of CoreLoop: (repaired) stop writing if it is on, then RunDoneDeactivate
  /\ cpc' = "gone" /\ st' = "Inactive" /\ runDone' = 0 /\ donegen' = gen
  /\ writing' = IF WritingOutlivesRun THEN writing ELSE FALSE
  /\ act' = [a |-> "CoreExit", why |-> why]

CoreTakeBlock ==  \* rendezvous nextBlock: producer at send, core in select (vpoint CoreLoop.block)
  /\ Live /\ cpc = "select" /\ ppc = "send" /\ (Replayable => ~nbC)
  /\ cpc' = "blk" /\ ppc' = "wait" /\ act' = [a |-> "CoreTakeBlock"]
  /\ UNCHANGED <<st, runDone, abortC, nbC, flag, spc, ctos, nblk, kpc, kres, rpc, rres, runs, panicked, gen, kgen, donegen, writing, npoll>>

CoreBlockDone ==  \* ProcessSegments returned (vpoint CoreLoop.blockDone)
  /\ Live /\ cpc = "blk" /\ cpc' = "select" /\ act' = [a |-> "CoreBlockDone"]
  /\ UNCHANGED <<st, runDone, abortC, nbC, flag, spc, ctos, ppc, nblk, kpc, kres, rpc, rres, runs, panicked, gen, kgen, donegen, writing, npoll>>

CoreTakeErr ==    \* error block: CoreLoop returns, deferred RunDoneDeactivate
  /\ Live /\ cpc = "select" /\ ppc = "senderr"
  /\ ppc' = "done" /\ CoreExit("errblock")
  /\ UNCHANGED <<abortC, nbC, flag, spc, ctos, nblk, kpc, kres, rpc, rres, runs, panicked, gen, kgen, npoll>>

CoreSeeClosed ==  \* nextBlock closed: CoreLoop returns
  /\ Live /\ cpc = "select" /\ nbC /\ CoreExit("closed")
  /\ UNCHANGED <<abortC, nbC, flag, spc, ctos, ppc, nblk, kpc, kres, rpc, rres, runs, panicked, gen, kgen, npoll>>

CoreTakeReq(c) == \* rendezvous queuedRequests (vpoint CoreLoop.request)
  /\ Live /\ cpc = "select" /\ rpc[c] \in {"checked", "waiting"} /\ (Replayable => ~nbC)
  /\ cpc' = "req" /\ rpc' = [rpc EXCEPT ![c] = "sent"]
  /\ \E n \in (IF DoubleSend THEN {1, 2} ELSE {1}) : ctos' = n
  /\ act' = [a |-> "CoreTakeReq", c |-> c, nres |-> ctos']
  /\ UNCHANGED <<st, runDone, abortC, nbC, flag, spc, ppc, nblk, kpc, kres, rres, runs, panicked, gen, kgen, donegen, writing, npoll>>

CoreSendResult(c) ==  \* rendezvous queuedResults: closure sends, a client waiting for its result receives
  /\ Live /\ cpc = "req" /\ ctos > 0 /\ rpc[c] = "sent"
  /\ ctos' = ctos - 1 /\ rpc' = [rpc EXCEPT ![c] = "done"] /\ rres' = [rres EXCEPT ![c] = "result"]
  /\ writing' = IF c \in WriteClients THEN TRUE ELSE writing      \* the closure ran WriteControl(START) before it answers
  /\ act' = [a |-> "CoreSendResult", c |-> c]
  /\ UNCHANGED <<st, runDone, abortC, nbC, flag, spc, cpc, ppc, nblk, kpc, kres, runs, panicked, gen, kgen, donegen, npoll>>

CoreReqDone ==    \* closure returned (vpoint CoreLoop.requestDone)
  /\ Live /\ cpc = "req" /\ ctos = 0 /\ cpc' = "select" /\ act' = [a |-> "CoreReqDone"]
  /\ UNCHANGED <<st, runDone, abortC, nbC, flag, spc, ctos, ppc, nblk, kpc, kres, rpc, rres, runs, panicked, gen, kgen, donegen, writing, npoll>>

\* ------------------------------------------------------------------ stoppers
StopCall(s) ==    \* SourceControl.Stop's flag check, then AnySource.Stop's state switch under the lock
  /\ Live /\ kpc[s] = "idle"
  /\ IF RPCLayer /\ ~flag
     THEN /\ kpc' = [kpc EXCEPT ![s] = "returned"] /\ kres' = [kres EXCEPT ![s] = "refused-flag"]
          /\ UNCHANGED <<st, abortC, panicked, writing, npoll>>
     ELSE CASE st = "Inactive" -> /\ kpc' = [kpc EXCEPT ![s] = "post"] /\ kres' = [kres EXCEPT ![s] = "not-active"]
                                  /\ UNCHANGED <<st, abortC, panicked, writing, npoll>>
            [] st = "Starting" -> /\ panicked' = TRUE /\ UNCHANGED <<st, abortC, kpc, kres, writing, npoll>>
            [] st = "Stopping" -> /\ kpc' = [kpc EXCEPT ![s] = "post"] /\ kres' = [kres EXCEPT ![s] = "ok"]
                                  /\ UNCHANGED <<st, abortC, panicked, writing, npoll>>
            [] st = "Active"   -> IF StopCheckThenAct
                                  THEN /\ kpc' = [kpc EXCEPT ![s] = "decided"] /\ kres' = [kres EXCEPT ![s] = "ok"]
                                       /\ UNCHANGED <<st, abortC, panicked>>
                                  ELSE /\ st' = "Stopping" /\ abortC' = TRUE
                                       /\ kpc' = [kpc EXCEPT ![s] = "signalled"] /\ kres' = [kres EXCEPT ![s] = "ok"]
                                       /\ UNCHANGED panicked
  /\ act' = [a |-> "StopCall", s |-> s, r |-> kres'[s]]
  /\ kgen' = [kgen EXCEPT ![s] = gen]
  /\ UNCHANGED <<runDone, nbC, flag, spc, cpc, ctos, ppc, nblk, rpc, rres, runs, gen, donegen, writing, npoll>>

StopAct(s) ==     \* deviation only: the second half of a torn Stop acts on the state it read a while ago
  /\ Live /\ kpc[s] = "decided"
  /\ st' = "Stopping" /\ abortC' = TRUE
  /\ kpc' = [kpc EXCEPT ![s] = "signalled"] /\ kgen' = [kgen EXCEPT ![s] = gen]
  /\ act' = [a |-> "StopAct", s |-> s]
  /\ UNCHANGED <<runDone, nbC, flag, spc, cpc, ctos, ppc, nblk, kres, rpc, rres, runs, panicked, gen, donegen, writing, npoll>>

StopWaited(s) ==  \* RunDoneWait returned (vpoint Stop.waited)
  /\ Live /\ kpc[s] = "signalled" /\ (IF SharedWaitGroup THEN runDone = 0 ELSE donegen >= kgen[s])
  /\ kpc' = [kpc EXCEPT ![s] = "post"] /\ act' = [a |-> "StopWaited", s |-> s]
  /\ writing' = FALSE                                             \* if ds.writingState.Active { WriteControl(STOP) }
  /\ UNCHANGED <<st, runDone, abortC, nbC, flag, spc, cpc, ctos, ppc, nblk, kres, rpc, rres, runs, panicked, gen, kgen, donegen, npoll>>

StopReturn(s) ==  \* handlePossibleStoppedSource (RPC layer): flag := FALSE when the source is not Active
  /\ Live /\ kpc[s] = "post"
  /\ kpc' = [kpc EXCEPT ![s] = "returned"]
  /\ flag' = IF RPCLayer /\ flag /\ st # "Active" THEN FALSE ELSE flag
  /\ act' = [a |-> "StopReturn", s |-> s]
  /\ UNCHANGED <<st, runDone, abortC, nbC, spc, cpc, ctos, ppc, nblk, kres, rpc, rres, runs, panicked, gen, kgen, donegen, writing, npoll>>

\* ------------------------------------------------------------------ clients (runLaterIfActive)
ReqCall(c) ==
  /\ Live /\ rpc[c] = "idle"
  /\ IF flag
     THEN rpc' = [rpc EXCEPT ![c] = "checked"] /\ UNCHANGED rres
     ELSE rpc' = [rpc EXCEPT ![c] = "done"] /\ rres' = [rres EXCEPT ![c] = "no-source"]
  /\ act' = [a |-> "ReqCall", c |-> c, r |-> IF rpc'[c] = "checked" THEN "queued" ELSE "no-source"]
  /\ UNCHANGED <<st, runDone, abortC, nbC, flag, spc, cpc, ctos, ppc, nblk, kpc, kres, runs, panicked, gen, kgen, donegen, writing, npoll>>

ReqGiveUp(c) ==   \* repaired runLaterIfActive: while waiting to hand over the closure it notices the source is gone
  /\ Live /\ ~StaleFlag /\ rpc[c] \in {"checked", "waiting"} /\ cpc \in {"gone", "none"}
  /\ (PollOnce => npoll[c] = 0)          \* a poll that does not repeat has been used up
  /\ rpc' = [rpc EXCEPT ![c] = "done"] /\ rres' = [rres EXCEPT ![c] = "no-source"]
  /\ act' = [a |-> "ReqGiveUp", c |-> c]
  /\ UNCHANGED <<st, runDone, abortC, nbC, flag, spc, cpc, ctos, ppc, nblk, kpc, kres, runs, panicked, gen, kgen, donegen, writing, npoll>>

ReqPoll(c) ==     \* the waiting client's ticker fires while the source is still there: it keeps waiting
  /\ Live /\ rpc[c] \in {"checked", "waiting"} /\ st # "Inactive" /\ npoll[c] < MaxPolls
  /\ rpc' = [rpc EXCEPT ![c] = "waiting"] /\ npoll' = [npoll EXCEPT ![c] = npoll[c] + 1]
  /\ act' = [a |-> "ReqPoll", c |-> c]
  /\ UNCHANGED <<st, runDone, abortC, nbC, flag, spc, cpc, ctos, ppc, nblk, kpc, kres, rres, runs, panicked, gen, kgen, donegen, writing>>

Next == \/ StartCall \/ StartSample \/ StartPrepare \/ StartActivate \/ StartReturn
        \/ \E ph \in {"sample", "prepare"} : StartFail(ph)
        \/ ProducerTick \/ ProducerAbort
        \/ CoreTakeBlock \/ CoreBlockDone \/ CoreTakeErr \/ CoreSeeClosed \/ CoreReqDone
        \/ \E c \in Clients : CoreTakeReq(c) \/ CoreSendResult(c) \/ ReqCall(c) \/ ReqGiveUp(c) \/ ReqPoll(c)
        \/ \E s \in Stoppers : StopCall(s) \/ StopAct(s) \/ StopWaited(s) \/ StopReturn(s)

\* fairness: every process keeps running if it can (a blocked channel operation is a disabled action).  All
\* counters are bounded, so every behaviour reaches a terminal state; weak fairness per process is enough.
StarterNext == StartSample \/ StartPrepare \/ StartActivate \/ StartReturn
CoreNext == \/ CoreTakeBlock \/ CoreBlockDone \/ CoreTakeErr \/ CoreSeeClosed \/ CoreReqDone
            \/ \E c \in Clients : CoreTakeReq(c) \/ CoreSendResult(c)
Fair == /\ WF_vars(StarterNext) /\ WF_vars(CoreNext) /\ WF_vars(ProducerAbort)
        /\ \A c \in Clients : WF_vars(ReqGiveUp(c))
        /\ \A s \in Stoppers : WF_vars(StopWaited(s) \/ StopReturn(s))
Spec == Init /\ [][Next]_vars /\ Fair

\* ------------------------------------------------------------------ properties
AllStopsReturned == \A s \in Stoppers : kpc[s] = "returned"
SomeStopOK == \E s \in Stoppers : kres[s] = "ok"
C10_start_only_inactive == (act.a = "StartCall" /\ act.r = "ok") => st = "Starting"
C10_active_after_start  == (spc = "done" /\ act.a = "StartReturn") => (st \in {"Active", "Stopping", "Inactive"} /\ cpc # "none")
\* once every Stop call has returned (and at least one actually stopped a running source, with no new Start since):
C10_after_stops == (AllStopsReturned /\ SomeStopOK /\ spc \in {"done", "failed"} /\ act.a = "StopReturn"
                     /\ \A s \in Stoppers : kgen[s] = gen)
                     => (st = "Inactive" /\ runDone = 0 /\ cpc \in {"gone", "none"} /\ ppc \in {"done", "none"}
                         /\ (RPCLayer => ~flag))
\* ... and data writing is off.  Stated for every way the Stop calls ended (also those that found the source already
\* gone: "racing with the source ending itself"), as long as no Start came after them.
C10_writing_stopped == (AllStopsReturned /\ spc \in {"done", "failed"} /\ act.a = "StopReturn" /\ st = "Inactive"
                         /\ cpc \in {"gone", "none"} /\ \A s \in Stoppers : kgen[s] = gen) => ~writing
C10_failed_start_clean == spc = "failed" /\ act.a = "StartFail" => st = "Inactive"
C10_nopanic == ~panicked
C11_mutex == ~(cpc = "req" /\ cpc = "blk")   \* by construction in the model; checked on real traces
\* the same as a state predicate: the model is bounded, so a hang is a terminal state with a call outstanding
Terminal == ~ENABLED Next
C10_no_stuck_stop == Terminal => \A s \in Stoppers : kpc[s] \in {"idle", "returned"}
C11_no_stuck_request == Terminal => (cpc # "req" /\ \A c \in Clients : rpc[c] \in {"idle", "done"})
\* liveness: every Stop call returns; every request is answered; (under Fair)
C10_stop_returns == \A s \in Stoppers : (kpc[s] # "idle") ~> (kpc[s] = "returned" \/ panicked)
C11_answered     == \A c \in Clients : (rpc[c] \in {"checked", "waiting", "sent"}) ~> (rpc[c] = "done" \/ panicked)
\* the core loop is never parked inside a request closure forever
C11_no_wedge     == (cpc = "req") ~> (cpc # "req" \/ panicked)

\* ------------------------------------------------------------------ witness goals
\* Negated reachability goals: checked as "invariants", TLC returns a shortest behaviour that reaches the situation;
\* the replay driver executes it on the code and then lets everything run free (c10.py / c11.py: "witness" schedules).
NotG1 == ~(ppc = "send" /\ abortC /\ cpc = "req")          \* Stop signalled while the producer is parked in its send and the core runs a request
NotG2 == ~(ppc = "send" /\ abortC /\ cpc = "blk")          \* ... and the core is processing a block
NotG3 == ~(\E a, b \in Stoppers : a # b /\ kpc[a] = "signalled" /\ kpc[b] = "post")
NotG4 == ~(\E c \in Clients : rpc[c] \in {"checked", "waiting"} /\ cpc = "gone")
NotG5 == ~(\E c \in Clients : rpc[c] \in {"checked", "waiting"} /\ abortC /\ cpc = "select" /\ ~nbC)
NotG6 == ~(spc = "launched" /\ cpc = "gone")
NotG7 == ~(\E c \in Clients : rpc[c] = "sent" /\ abortC)
NotG8 == ~(gen = 2 /\ \E s \in Stoppers : kpc[s] = "signalled")
NotG9 == ~(ppc = "send" /\ abortC /\ cpc = "select")
NotG10 == ~(\E c \in Clients : rpc[c] \in {"checked", "waiting"} /\ ppc = "send" /\ cpc = "select")   \* request and block both ready
NotG11 == ~(act.a = "StartCall" /\ act.r = "refused-state" /\ st = "Stopping")          \* Start arrives while the source is stopping (flag already cleared by another Stop)
NotG13 == ~(act.a = "CoreSendResult" /\ act.c \in WriteClients /\ \E s \in Stoppers : kpc[s] = "signalled")   \* writing is switched on after a Stop has signalled
NotG14 == ~(\E c \in Clients : rpc[c] = "waiting" /\ npoll[c] >= 1 /\ cpc = "gone")   \* a client has polled a live source at least once, then the core loop is gone without taking its request
NotG12 == ~(act.a = "StartCall" /\ act.r = "refused-state" /\ st = "Active")
=============================================================================
