-------------------------- MODULE GroupReportTrace --------------------------
(* C09, RPC layer: group-trigger requests issued through the real SourceControl methods on a running source.
     GBegin  scen, nchan
     GReq    op (add | del | stop | fb2err | err2fb | none | restart), pairs <<source, receiver>>..., ok, reported (pairs of the LATEST GROUPTRIGGER update any
             client has been sent), actual (pairs the broker uses after the request), nreports
   Expected set (the property's set-theoretic result): add = union with the pairs that are in range and not self-connections,
   del = difference, stop = empty.  A request that carries an out-of-range index may either apply its valid pairs (what the
   code does: it carries on and returns the first error) or refuse everything; both keep "out-of-range indices never take
   effect".  Whatever the outcome, what clients were last told must be what is in use.  *)
EXTENDS Integers, Sequences, FiniteSets, TLC, Json
Log == ndJsonDeserialize("trace.ndjson")
VARIABLES l, nchan, conn, scen
vars == <<l, nchan, conn, scen>>
Report(line, preds, sc) == \A p \in preds : PrintT(<<"VIOL", line, p, sc>>)
Iff(b, s) == IF b THEN {s} ELSE {}
Init == l = 1 /\ nchan = 0 /\ conn = {} /\ scen = 0
Set(ps) == {<<ps[i][1], ps[i][2]>> : i \in 1..Len(ps)}
InRange(p) == p[1] >= 0 /\ p[1] < nchan /\ p[2] >= 0 /\ p[2] < nchan
Valid(ps) == {p \in Set(ps) : InRange(p) /\ p[1] # p[2]}
AllFine(ps) == \A p \in Set(ps) : InRange(p)
\* error/feedback coupling (Lancero): channels 2k (error) and 2k+1 (feedback) of every pixel
ErrP == {<<2 * k, 2 * k + 1>> : k \in 0..((nchan \div 2) - 1)}       \* error -> feedback
FbP == {<<2 * k + 1, 2 * k>> : k \in 0..((nchan \div 2) - 1)}        \* feedback -> error
Full(e) == CASE e.op = "add" -> conn \cup Valid(e.pairs)
             [] e.op = "del" -> conn \ Set(e.pairs)
             [] e.op = "fb2err" -> (conn \ ErrP) \cup FbP
             [] e.op = "err2fb" -> (conn \ FbP) \cup ErrP
             [] e.op = "none" -> conn \ (ErrP \cup FbP)
             [] OTHER -> {}                                            \* stop, restart (a fresh broker)
Allowed(e) == IF AllFine(e.pairs) THEN {Full(e)} ELSE {Full(e), conn}
Step ==
  /\ l <= Len(Log) /\ l' = l + 1
  /\ LET e == Log[l] IN
     IF e.ev = "GBegin" THEN nchan' = e.nchan /\ conn' = {} /\ scen' = e.scen
     ELSE /\ Report(l, Iff(Set(e.actual) \notin Allowed(e), "C09_set")
                       \cup Iff(Set(e.reported) # Set(e.actual), "C09_reported"), scen)
          \* (whether a request with an out-of-range index is ANSWERED with an error is not part of C09: deleting a pair
          \* that cannot exist is a no-op the code answers with success)
          /\ conn' = Set(e.actual) /\ UNCHANGED <<nchan, scen>>
Next == Step
Spec == Init /\ [][Next]_vars
NScen == Cardinality({i \in 1..Len(Log) : Log[i].ev = "GBegin"})
Consumed == /\ TLCGet("stats").diameter - 1 = Len(Log)
            /\ PrintT(<<"DONE", Len(Log), NScen>>)
=============================================================================
