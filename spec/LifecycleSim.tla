---------------------------- MODULE LifecycleSim ----------------------------
(* Behaviour generator for C10 / C11 (tlc -simulate): Lifecycle's actions plus a history of
   [action, model state the driver compares with, whether the C10_after_stops antecedent holds]. *)
EXTENDS Lifecycle, Json
CONSTANT SimDepth
VARIABLE hist
Obs == [act |-> act, st |-> st, flag |-> flag, cpc |-> cpc, ppc |-> ppc,
        afterstops |-> (AllStopsReturned /\ SomeStopOK /\ spc \in {"done", "failed"} /\ \A s \in Stoppers : kgen[s] = gen),
        quiet |-> (st = "Active")]
SimInit == Init /\ hist = <<>>
SimNext == Next /\ hist' = Append(hist, Obs')
SimSpec == SimInit /\ [][SimNext]_<<vars, hist>>
Emit == (Len(hist) < SimDepth /\ ENABLED Next) \/ PrintT(<<"SCEN", ToJson([steps |-> hist])>>)
=============================================================================
