----------------------------- MODULE StatusSim -----------------------------
(* Behaviour generator for C16 (tlc -simulate): Status's actions plus a history variable. *)
EXTENDS Status, Json
CONSTANT SimDepth
VARIABLE hist
SimInit == Init /\ hist = <<[a |-> "Init", main0 |-> main.k]>>
SimNext == Next /\ hist' = Append(hist, act')
SimSpec == SimInit /\ [][SimNext]_<<vars, hist>>
Emit == Len(hist) < SimDepth \/ PrintT(<<"SCEN", ToJson([steps |-> hist])>>)
=============================================================================
