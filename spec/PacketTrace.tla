----------------------------- MODULE PacketTrace -----------------------------
(* Trace validation for C15: judges what the decoder and the accessors did on every case of Packet.tla's grammar, on
   byte-level mutations, and on constructor round trips.
     Decode     kind (grammar | mutation), case, nbytes, declhdr / declpay (declared lengths), consumed, err, ok, panics,
                and when ok: hdrlen, plen, frames, chaninfo <<nchan, offset>>, length, ndata, dataword, hasshape, hasformat ...
     Roundtrip  ctor, newdata_err, decode_err, rt (field -> reproduced?), panics *)
EXTENDS Integers, Sequences, FiniteSets, TLC, Json
Log == ndJsonDeserialize("trace.ndjson")
VARIABLES l
vars == <<l>>
Report(line, preds, sc) == \A p \in preds : PrintT(<<"VIOL", line, p, sc>>)
Iff(b, s) == IF b THEN {s} ELSE {}
Init == l = 1
MustFailTLV == {"fmt_bad", "shape0", "chanoff_pad", "len0", "toolong"}

DecodePreds(e) ==
  Iff(Len(e.panics) > 0, "C15_total")
  \cup Iff(e.consumed > e.nbytes, "C15_consumed")
  \cup Iff(e.ok /\ e.consumed > e.hdrlen + e.plen, "C15_consumed")
  \* (a malformed TLV only has to be refused when the declared header length really covers it: hdr = "ok")
  \cup Iff(e.kind = "grammar" /\ e.ok /\ (e.case.hdr \in {"badmagic", "short"}
                                          \/ (e.case.hdr = "ok" /\ \E i \in 1..Len(e.case.tlvs) : e.case.tlvs[i] \in MustFailTLV)), "C15_must_fail")
  \cup Iff(e.kind = "grammar" /\ e.ok /\ e.case.hdr = "ok" /\ e.case.payload = "truncated" /\ e.declpay > 0 /\ e.hasformat, "C15_must_fail")
  \cup (IF ~e.ok \/ Len(e.panics) > 0 THEN {} ELSE
        Iff(e.length # e.hdrlen + e.plen, "C15_consistent")
        \cup Iff(e.frames < 0 \/ e.chaninfo[1] < 0 \/ (e.hasshape /\ e.chaninfo[1] < 1) \/ (~e.hasshape /\ e.frames # 0), "C15_consistent")
        \* sizes agree: frames x channels x word length never exceeds the payload that was declared and read
        \cup Iff(e.hasshape /\ e.hasformat /\ e.dataword > 0 /\ e.ndata >= 0 /\ e.frames * e.chaninfo[1] * e.dataword > e.plen, "C15_consistent")
        \cup Iff(e.ndata >= 0 /\ e.dataword > 0 /\ e.ndata * e.dataword > e.plen, "C15_consistent"))

RtPreds(e) ==
  Iff(Len(e.panics) > 0, "C15_total")
  \cup (IF Len(e.panics) > 0 THEN {} ELSE
        Iff(e.decode_err # "", "C15_roundtrip")
        \cup (IF e.decode_err # "" THEN {} ELSE
              Iff(\E f \in DOMAIN e.rt : ~e.rt[f], "C15_roundtrip")))

Step == /\ l <= Len(Log) /\ l' = l + 1
        /\ LET e == Log[l] IN Report(l, IF e.ev = "Decode" THEN DecodePreds(e)
                                         ELSE IF e.ev = "Hang" THEN {"C15_terminates"}   \* a call of the code did not return within 10 s
                                         ELSE RtPreds(e), e.scen)
Next == Step
Spec == Init /\ [][Next]_vars
Consumed == /\ TLCGet("stats").diameter - 1 = Len(Log)
            /\ PrintT(<<"DONE", Len(Log), Len(Log)>>)
=============================================================================
