------------------------------ MODULE RingConc ------------------------------
(* The ring buffer with its two users as two processes (ringbuffer/ringbuffer.go: the writer is another process in
   production, the shared memory holds the bytes and both pointers).  RingBuffer.tla treats every call as one step, which
   is all that C18 states ("for any SEQUENCE of writes and reads"); this module refines Write and Read into the steps in
   which they touch the shared memory, so that a read can fall between them:
     writer   WBegin(n)   load the read pointer, decide how many bytes fit (k)
              WCopy       copy k bytes into the ring
              WPublish    store the write pointer                       (as the code is: copy, then publish)
     reader   RBegin      load the write pointer
              RCopy       copy the readable bytes out, store the read pointer
   Switch PublishFirst (FALSE = as the code is): the write pointer is stored before the bytes are copied.
   Bytes are their own global stream positions, so "reads return a prefix of what writes accepted" is: every byte a read
   returns equals its position. *)
EXTENDS Integers, Sequences, FiniteSets, TLC
CONSTANTS Cap, MaxTotal, MaxWrite, PublishFirst
VARIABLES mem, w, r,          \* shared memory: ring cells, write pointer, read pointer
          wpc, wk, wbase,     \* writer: pc ("idle" | "begun" | "half"), bytes accepted, position of the first one
          rpc, rw,            \* reader: pc ("idle" | "begun"), the write pointer it loaded
          nxt, bad
vars == <<mem, w, r, wpc, wk, wbase, rpc, rw, nxt, bad>>
Min(a, b) == IF a < b THEN a ELSE b
Init == /\ mem = [i \in 0..(Cap - 1) |-> 0 - 1] /\ w = 0 /\ r = 0 /\ wpc = "idle" /\ wk = 0 /\ wbase = 0
        /\ rpc = "idle" /\ rw = 0 /\ nxt = 0 /\ bad = FALSE
Copied == [i \in 0..(Cap - 1) |-> IF \E j \in 0..(wk - 1) : (wbase + j) % Cap = i
                                   THEN CHOOSE g \in wbase..(wbase + wk - 1) : g % Cap = i ELSE mem[i]]
WBegin(n) == /\ wpc = "idle" /\ w + n <= MaxTotal
             /\ wk' = Min(n, Cap - (w - r + 1)) /\ wbase' = w /\ wpc' = "begun"
             /\ UNCHANGED <<mem, w, r, rpc, rw, nxt, bad>>
WFirst == /\ wpc = "begun" /\ wpc' = "half"
          /\ IF PublishFirst THEN w' = wbase + wk /\ UNCHANGED mem ELSE mem' = Copied /\ UNCHANGED w
          /\ UNCHANGED <<r, wk, wbase, rpc, rw, nxt, bad>>
WSecond == /\ wpc = "half" /\ wpc' = "idle"
           /\ IF PublishFirst THEN mem' = Copied /\ UNCHANGED w ELSE w' = wbase + wk /\ UNCHANGED mem
           /\ UNCHANGED <<r, wk, wbase, rpc, rw, nxt, bad>>
RBegin == /\ rpc = "idle" /\ rw' = w /\ rpc' = "begun"
          /\ UNCHANGED <<mem, w, r, wpc, wk, wbase, nxt, bad>>
RCopy == /\ rpc = "begun" /\ rpc' = "idle"
         /\ bad' = (bad \/ \E g \in r..(rw - 1) : mem[g % Cap] # g)     \* a returned byte that is not the byte written for its position
         /\ r' = rw /\ nxt' = rw
         /\ UNCHANGED <<mem, w, wpc, wk, wbase, rw>>
Next == (\E n \in 1..MaxWrite : WBegin(n)) \/ WFirst \/ WSecond \/ RBegin \/ RCopy
Spec == Init /\ [][Next]_vars
C18_prefix == ~bad
Bounded == 0 <= w - r /\ w - r <= Cap - 1
=============================================================================
