------------------------------ MODULE Ownership ------------------------------
(* Sharing discipline of a running acquisition (C17), design level: the goroutines of one Abaco-style pipeline and the
   shared data named in the property, with happens-before computed by vector clocks over the synchronisation actions
   the code really has (buffered/unbuffered channel send -> receive, go statement, WaitGroup Done -> Wait, close ->
   receive).  One block travels reader -> assembler -> core -> workers -> core; an archive request is active.
     procs: "R" reader, "A" block assembler, "C" core loop, "W1" "W2" per-channel workers, "X" archive writer
     vars:  "nextFrame" (frame counter), "nSamp" (block sample count), "seg" (the block's segments), "arch" (archive block)
   Deviation switches (TRUE = as the pinned code was):
     ReaderReadsNextFrame  the reader reads the counter that the assembler advances
     WorkersWriteNSamp     every assembler worker writes block.nSamp (here: both workers of the assembler)
     FlagAfterClose        the core clears arch.active after closing the completion channel
   NoConflict: no two accesses to one variable from different goroutines, at least one a write, unordered by
   happens-before.  Memory accesses themselves are invisible to a specification; the Go race detector watches the
   real executions (c17.py).  *)
EXTENDS Integers, Sequences, FiniteSets, TLC
CONSTANTS ReaderReadsNextFrame, WorkersWriteNSamp, FlagAfterClose
Procs == {"R", "A", "A1", "A2", "C", "W1", "W2", "X"}
VARIABLES pc, vc, msg, acc
vars == <<pc, vc, msg, acc>>
Zero == [p \in Procs |-> 0]
Tick(p) == [vc EXCEPT ![p] = [vc[p] EXCEPT ![p] = vc[p][p] + 1]]
Join(a, b) == [q \in Procs |-> IF a[q] > b[q] THEN a[q] ELSE b[q]]
Leq(a, b) == \A q \in Procs : a[q] <= b[q]
Access(p, v, w, clocks) == acc \cup {[p |-> p, v |-> v, w |-> w, c |-> clocks[p]]}

Init == /\ pc = [p \in Procs |-> IF p \in {"R", "C"} THEN "run" ELSE "idle"]
        /\ vc = [p \in Procs |-> Zero] /\ msg = [k \in {"buffers", "nextBlock", "goA1", "goA2", "doneA1", "doneA2", "goW1", "goW2", "doneW1", "doneW2", "goX", "complete"} |-> Zero]
        /\ acc = {}

\* step of process p: tick, optional access, optional send (store clock in msg[k]) or receive (join msg[k])
Step(p, from, to, var, wr, send, recv) ==
  /\ pc[p] = from
  /\ LET c1 == Tick(p)
         c2 == IF recv = "" THEN c1 ELSE [c1 EXCEPT ![p] = Join(c1[p], msg[recv])] IN
     /\ vc' = c2
     /\ acc' = IF var = "" THEN acc ELSE acc \cup {[p |-> p, v |-> var, w |-> wr, c |-> c2[p]]}
     /\ msg' = IF send = "" THEN msg ELSE [msg EXCEPT ![send] = c2[p]]
  /\ pc' = [pc EXCEPT ![p] = to]

Sent(k) == msg[k] # Zero
Next ==
  \* reader: (reads the shared counter when timing packets), demuxes, sends the buffer
  \/ Step("R", "run", "r1", IF ReaderReadsNextFrame THEN "nextFrame" ELSE "", FALSE, "", "")
  \/ Step("R", "r1", "r2", "", FALSE, "buffers", "")
  \/ (Sent("nextBlock") /\ Step("R", "r2", "r3", IF ReaderReadsNextFrame THEN "nextFrame" ELSE "", FALSE, "", ""))   \* next tick, later
  \* assembler: receives the buffer, spawns two per-channel goroutines, waits, advances the counter, sends the block
  \/ (Sent("buffers") /\ Step("A", "idle", "a1", "", FALSE, "goA1", "buffers"))
  \/ Step("A", "a1", "a2", "", FALSE, "goA2", "")
  \/ (Sent("goA1") /\ Step("A1", "idle", "w", "seg", TRUE, "", "goA1"))
  \/ Step("A1", "w", "d", IF WorkersWriteNSamp THEN "nSamp" ELSE "", TRUE, "doneA1", "")
  \/ (Sent("goA2") /\ Step("A2", "idle", "w", "seg2", TRUE, "", "goA2"))
  \/ Step("A2", "w", "d", IF WorkersWriteNSamp THEN "nSamp" ELSE "", TRUE, "doneA2", "")
  \/ (Sent("doneA1") /\ Step("A", "a2", "a3", "", FALSE, "", "doneA1"))
  \/ (Sent("doneA2") /\ Step("A", "a3", "a4", IF WorkersWriteNSamp THEN "" ELSE "nSamp", TRUE, "", "doneA2"))
  \/ Step("A", "a4", "a5", "nextFrame", TRUE, "nextBlock", "")
  \* core: receives the block, archives it, spawns workers, waits for them
  \/ (Sent("nextBlock") /\ Step("C", "run", "c1", "nSamp", FALSE, "", "nextBlock"))
  \/ Step("C", "c1", "c2", "arch", TRUE, "goX", "")                \* ArchiveDataBlock: request set up, writer goroutine launched
  \/ Step("C", "c2", "c3", "seg", FALSE, "goW1", "")
  \/ Step("C", "c3", "c4", "seg2", FALSE, "goW2", "")
  \/ (Sent("goW1") /\ Step("W1", "idle", "d", "seg", FALSE, "doneW1", "goW1"))
  \/ (Sent("goW2") /\ Step("W2", "idle", "d", "seg2", FALSE, "doneW2", "goW2"))
  \/ (Sent("doneW1") /\ Step("C", "c4", "c5", "", FALSE, "", "doneW1"))
  \/ (Sent("doneW2") /\ Step("C", "c5", "c6", "", FALSE, "", "doneW2"))
  \* archive block filled: close(complete) and clear the flag, in the order the switch says
  \/ (IF FlagAfterClose THEN Step("C", "c6", "c7", "", FALSE, "complete", "") ELSE Step("C", "c6", "c7", "arch", TRUE, "", ""))
  \/ (IF FlagAfterClose THEN Step("C", "c7", "c8", "arch", TRUE, "", "") ELSE Step("C", "c7", "c8", "", FALSE, "complete", ""))
  \* archive writer: launched by the core, waits for complete, copies the struct
  \/ (Sent("goX") /\ Step("X", "idle", "x1", "", FALSE, "", "goX"))
  \/ (Sent("complete") /\ Step("X", "x1", "x2", "arch", FALSE, "", "complete"))
Spec == Init /\ [][Next]_vars

Conflict(a, b) == a.v = b.v /\ a.p # b.p /\ (a.w \/ b.w) /\ ~Leq(a.c, b.c) /\ ~Leq(b.c, a.c)
NoConflict == \A a, b \in acc : ~Conflict(a, b)
=============================================================================
