---------------------------- MODULE AnalysisTrace ----------------------------
(* Trace validation for C13: one line per record analysed by the real AnalyzeData; `bad` lists the quantities whose
   reported value is outside the tolerance of the exact value computed by Analysis.tla (compared in rational arithmetic
   by the driver, since TLC has no floating point).  *)
EXTENDS Integers, Sequences, FiniteSets, TLC, Json
Log == ndJsonDeserialize("trace.ndjson")
VARIABLES l
vars == <<l>>
Report(line, preds, sc) == \A p \in preds : PrintT(<<"VIOL", line, p, sc>>)
Init == l = 1
Step == /\ l <= Len(Log) /\ l' = l + 1
        /\ LET e == Log[l] IN
           Report(l, (IF e.panic # "" THEN {"C13_nocrash"} ELSE {}) \cup {"C13_" \o e.bad[i] : i \in 1..Len(e.bad)}, e.scen)
Next == Step
Spec == Init /\ [][Next]_vars
Consumed == /\ TLCGet("stats").diameter - 1 = Len(Log)
            /\ PrintT(<<"DONE", Len(Log), Len(Log)>>)
=============================================================================
