--------------------------- MODULE WriteControlSim ---------------------------
(* Behaviour generator for C05/C06/C20: WriteControl's actions plus a history variable, emitted as JSON
   when the behaviour reaches SimDepth (tlc -simulate). *)
EXTENDS WriteControl, Json
CONSTANT SimDepth
VARIABLE hist
SimInit == Init /\ hist = <<>>
SimNext == Next /\ hist' = Append(hist, act')
SimSpec == SimInit /\ [][SimNext]_<<vars, hist>>
Emit == Len(hist) < SimDepth \/ PrintT(<<"SCEN", ToJson([nchan |-> Cardinality(Chans), proj |-> proj, steps |-> hist])>>)
=============================================================================
