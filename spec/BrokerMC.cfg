SPECIFICATION Spec
CONSTANTS NChan = 3
 Idx <- IdxSet
 MaxEdits = 4
 MaxCycles = 2
 ValidateSource = TRUE
INVARIANTS C09_set C09_reported C09_count C09_nocrash C09_secondaries
VIEW View
CHECK_DEADLOCK FALSE
