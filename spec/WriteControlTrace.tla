------------------------- MODULE WriteControlTrace -------------------------
(* Trace validation for C05 / C06 / C20 (and the header-identity part of C19): replays write-control
   histories recorded from the real AnySource (harness/root/wc_test.go) through the property layer of
   WriteControl.tla.  The expected file contents are computed from the *reported* state at the time
   of each publication, block and label -- never from what the code's channels did.            *)
EXTENDS Integers, Sequences, FiniteSets, TLC, Json

Log == ndJsonDeserialize("trace.ndjson")

Types == {"L22", "L3", "OFF"}
VARIABLES l, cfg, rep, exp, expState, expExt, expDrop, closed, dirsSeen,
          hist   \* session directory -> expected file bodies, frozen when that session ended (STOP, or a START accepted while active)
vars == <<l, cfg, rep, exp, expState, expExt, expDrop, closed, dirsSeen, hist>>

NoRep == [active |-> FALSE, paused |-> FALSE, l22 |-> FALSE, l3 |-> FALSE, off |-> FALSE, dir |-> 0, base |-> 0]
NoCfg == [scen |-> 0, nchan |-> 0]
EmptyExp(n) == [c \in 0..(n-1) |-> [t \in Types |-> <<>>]]
NoClosed == [valid |-> FALSE]

Init == /\ l = 1 /\ cfg = NoCfg /\ rep = NoRep /\ exp = <<>> /\ expState = <<>> /\ expExt = <<>>
        /\ expDrop = <<>> /\ closed = NoClosed /\ dirsSeen = {} /\ hist = [d \in {} |-> 0]

Report(preds) == \A p \in preds : PrintT(<<"VIOL", l, p[1], cfg.scen, p[2]>>)
P(name) == <<name, "">>
When(cond, name) == IF cond THEN {P(name)} ELSE {}
WhenD(cond, name, detail) == IF cond THEN {<<name, detail>>} ELSE {}

RepTypes(r) == (IF r.l22 THEN {"L22"} ELSE {}) \cup (IF r.l3 THEN {"L3"} ELSE {}) \cup (IF r.off THEN {"OFF"} ELSE {})
HasProj(c) == cfg.chans[c + 1].hasproj
Elig(c, t) == t # "OFF" \/ HasProj(c)
Reported(c, t) == rep.active /\ ~rep.paused /\ t \in RepTypes(rep) /\ Elig(c, t)
SeqToSet(s) == {s[i] : i \in 1..Len(s)}

ReqStep(e) ==
  LET r == e.rep
      isStart == e.req = "START" /\ e.ok
      isStop == e.req = "STOP" /\ e.ok
      lab == e.req = "UNPAUSE" /\ e.ok /\ e.label # ""
  IN
  /\ Report(
        When(~e.ok /\ r # rep, "C06_rejected_noop")
        \cup When(isStart /\ ~(r.active /\ ~r.paused /\ r.dir # 0 /\ RepTypes(r) = SeqToSet(e.types)), "C06_effect_start")
        \cup When(isStart /\ (~e.dirnew \/ r.dir \in dirsSeen), "C06_newdir")
        \* the run directory lies below the path of the request, or below the remembered base path when the request names none;
        \* a request with an uncreatable path (wantbase 3) cannot have been accepted
        \cup When(isStart /\ (LET eff == IF e.wantbase = 0 THEN rep.base ELSE e.wantbase IN r.base # eff \/ e.dirbase # eff \/ eff = 3), "C06_effect_start")
        \cup When(isStop /\ r.active, "C06_effect_stop")
        \cup When(isStop /\ e.open # 0, "C06_stop_closes")
        \cup When(e.ok /\ e.req = "PAUSE" /\ rep.active /\ ~(r.active /\ r.paused), "C06_effect_pause")
        \cup When(e.ok /\ e.req = "UNPAUSE" /\ rep.active /\ ~(r.active /\ ~r.paused), "C06_effect_unpause")
        \cup When(e.ok /\ e.req \notin {"START", "STOP", "PAUSE", "UNPAUSE"}, "C06_garbage_accepted")
        \cup When(lab /\ ~rep.active, "C20_label_inactive"))
  /\ rep' = r
  /\ dirsSeen' = IF r.dir # 0 THEN dirsSeen \cup {r.dir} ELSE dirsSeen
  /\ hist' = IF (isStart \/ isStop) /\ rep.active
             THEN [d \in DOMAIN hist \cup {rep.dir} |-> IF d = rep.dir THEN exp ELSE hist[d]] ELSE hist
  /\ IF isStart
     THEN /\ exp' = EmptyExp(cfg.nchan) /\ expState' = <<"START">> /\ expExt' = <<>> /\ expDrop' = <<>>
          /\ closed' = NoClosed
     ELSE IF isStop /\ rep.active
     THEN /\ closed' = [valid |-> TRUE, exp |-> exp, state |-> Append(expState, "STOP"), ext |-> expExt,
                        drop |-> expDrop, dir |-> rep.dir]
          /\ exp' = EmptyExp(cfg.nchan) /\ expState' = <<>> /\ expExt' = <<>> /\ expDrop' = <<>>
     ELSE /\ expState' = IF lab /\ rep.active THEN Append(expState, e.label) ELSE expState
          /\ UNCHANGED <<exp, expExt, expDrop, closed>>
  /\ UNCHANGED cfg

X(e, t) == IF t = "L22" THEN e.x22 ELSE IF t = "L3" THEN e.x3 ELSE e.xoff

HdrBad(e, f, want) == f \notin DOMAIN e.hdr \/ e.hdr[f] # want
HdrPreds(e) ==
  LET ch == cfg.chans[e.c + 1]
      geo == WhenD(HdrBad(e, "rows", ch.nrows), "C05_header", "rows") \cup WhenD(HdrBad(e, "cols", ch.ncols), "C05_header", "cols")
             \cup WhenD(HdrBad(e, "row", ch.row), "C05_header", "row") \cup WhenD(HdrBad(e, "col", ch.col), "C05_header", "col")
             \cup WhenD(HdrBad(e, "subdiv", cfg.subdiv), "C05_header", "subdiv") \cup WhenD(HdrBad(e, "suboff", ch.suboff), "C05_header", "suboff")
             \cup WhenD("timebase_ppm" \notin DOMAIN e.hdr \/ e.hdr.timebase_ppm \notin {-1, 0, 1}, "C05_header", "timebase")
      lens == WhenD(HdrBad(e, "npre", cfg.npre), "C05_header", "npre") \cup WhenD(HdrBad(e, "nsamp", cfg.nsamp), "C05_header", "nsamp")
      ident == WhenD(HdrBad(e, "name", ch.name), "C05_header", "name") \cup WhenD(HdrBad(e, "channum", ch.channum), "C05_header", "channum")
               \cup WhenD(HdrBad(e, "chanidx", e.c), "C05_header", "chanidx") \cup WhenD(HdrBad(e, "nchan", cfg.nchan), "C05_header", "nchan")
      \* the identity and geometry a file header states are those of the status messages (C19)
      c19 == {<<"C19_header_identity", x[2]>> : x \in (geo \cup (IF e.t = "L3" THEN {} ELSE ident))}
  IN c19 \cup
     IF e.t = "L22" THEN geo \cup lens \cup ident \cup WhenD(HdrBad(e, "fps", 1), "C05_header", "fps")
     ELSE IF e.t = "L3" THEN geo \cup WhenD(HdrBad(e, "format", "LJH3"), "C05_header", "format")
     ELSE geo \cup lens \cup ident
          \cup WhenD(HdrBad(e, "nbases", cfg.nbases), "C05_header", "nbases")
          \cup WhenD(HdrBad(e, "prow", cfg.nbases) \/ HdrBad(e, "pcol", cfg.nsamp), "C05_header", "projector shape")
          \cup WhenD(HdrBad(e, "brow", cfg.nsamp) \/ HdrBad(e, "bcol", cfg.nbases), "C05_header", "basis shape")
          \cup WhenD(HdrBad(e, "pcrc", ch.pcrc), "C05_header", "projector values")
          \cup WhenD(HdrBad(e, "bcrc", ch.bcrc), "C05_header", "basis values")
          \cup WhenD(HdrBad(e, "desc", ch.desc), "C05_header", "model description")
          \cup WhenD(HdrBad(e, "format", "OFF"), "C05_header", "format")

Frames(s) == [i \in 1..Len(s) |-> s[i][1]]

FileStep(e) ==
  LET want == IF closed.valid /\ closed.dir = e.dir THEN closed.exp[e.c][e.t] ELSE <<>> IN
  /\ Report(
        When(e.exists /\ e.perr # "", "C05_parse")
        \cup When(e.trailing # 0, "C05_length")
        \cup When(Frames(e.recs) # Frames(want), "C06_behaviour")
        \cup When(Frames(e.recs) # Frames(want), "C05_body")
        \cup When(Frames(e.recs) = Frames(want) /\ e.recs # want, "C05_body")
        \cup (IF e.exists /\ e.perr = "" THEN HdrPreds(e) ELSE {}))
  /\ UNCHANGED <<cfg, rep, exp, expState, expExt, expDrop, closed, dirsSeen, hist>>

SideStep(e) ==
  LET ok == closed.valid /\ closed.dir = e.dir IN
  /\ Report(
        When(~ok, "C20_unexpected_session")
        \cup When(ok /\ (e.ext # closed.ext \/ ~e.ext_ok), "C20_ext")
        \cup When(ok /\ closed.ext # <<>> /\ ~e.ext_exists, "C20_ext")
        \cup When(ok /\ (e.drops # closed.drop \/ ~e.drop_ok), "C20_drop")
        \cup When(ok /\ (e.state # closed.state \/ ~e.state_ok \/ ~e.state_exists), "C20_state")
        \cup When(ok /\ Len(e.state) > 0 /\ (e.state[1] # "START" \/ e.state[Len(e.state)] # "STOP"), "C20_state_shape"))
  /\ UNCHANGED <<cfg, rep, exp, expState, expExt, expDrop, closed, dirsSeen, hist>>

Step ==
  /\ l <= Len(Log)
  /\ l' = l + 1
  /\ LET e == Log[l] IN
     CASE e.ev = "Config" ->
            /\ cfg' = e /\ rep' = NoRep /\ exp' = EmptyExp(e.nchan) /\ expState' = <<>> /\ expExt' = <<>>
            /\ expDrop' = <<>> /\ closed' = NoClosed /\ dirsSeen' = {} /\ hist' = [d \in {} |-> 0]
       [] e.ev = "Req" -> ReqStep(e)
       [] e.ev = "RmRun" ->     \* the operator removed the directory of an earlier run: its number may be used again
            /\ dirsSeen' = dirsSeen \ {e.dir}
            /\ hist' = [d \in (DOMAIN hist) \ {e.dir} |-> hist[d]]
            /\ UNCHANGED <<cfg, rep, exp, expState, expExt, expDrop, closed>>
       [] e.ev = "FileFinal" ->
            \* every session directory is read again at the end: what a channel stored there must be exactly what was
            \* published while that session was the reported one (a writer that outlives its session is caught here)
            /\ LET want == IF e.dir \in DOMAIN hist THEN hist[e.dir][e.c][e.t] ELSE <<>> IN
               Report(When(e.frames # Frames(want), "C06_behaviour") \cup When(e.frames # Frames(want), "C05_body"))
            /\ UNCHANGED <<cfg, rep, exp, expState, expExt, expDrop, closed, dirsSeen, hist>>
       [] e.ev = "FilePause" ->
            \* right after an accepted PAUSE: the files of the session hold every record published to them so far, whole
            \* (the pause flushes; C07: what was accepted before a flush call returns is in the file when it returns)
            /\ LET want == IF rep.active /\ e.dir = rep.dir THEN exp[e.c][e.t] ELSE <<>> IN
               Report(When(e.frames # Frames(want) \/ e.trailing # 0, "C07_pause_flushes"))
            /\ UNCHANGED <<cfg, rep, exp, expState, expExt, expDrop, closed, dirsSeen, hist>>
       [] e.ev = "Label" ->
            /\ Report(When(e.ok /\ ~rep.active, "C20_label_inactive"))
            /\ expState' = IF e.ok /\ rep.active THEN Append(expState, e.label) ELSE expState
            /\ UNCHANGED <<cfg, rep, exp, expExt, expDrop, closed, dirsSeen, hist>>
       [] e.ev = "Block" ->
            /\ expExt' = IF rep.active THEN expExt \o e.ext ELSE expExt
            /\ expDrop' = IF rep.active /\ e.drop > 0 THEN Append(expDrop, <<e.first, e.drop>>) ELSE expDrop
            /\ UNCHANGED <<cfg, rep, exp, expState, closed, dirsSeen, hist>>
       [] e.ev = "Pub" ->
            /\ exp' = [exp EXCEPT ![e.c] = [t \in Types |->
                          \* LJH 2.2 (and OFF) hold fixed-length records only: a shorter record is not accepted by that writer
                          IF Reported(e.c, t) /\ (t = "L3" \/ e.n = cfg.nsamp) THEN Append(exp[e.c][t], <<e.f, X(e, t)>>) ELSE exp[e.c][t]]]
            /\ UNCHANGED <<cfg, rep, expState, expExt, expDrop, closed, dirsSeen, hist>>
       [] e.ev = "File" -> FileStep(e)
       [] e.ev = "Side" -> SideStep(e)
       [] e.ev = "Panic" ->
            /\ Report({P("C06_nocrash")})
            /\ UNCHANGED <<cfg, rep, exp, expState, expExt, expDrop, closed, dirsSeen, hist>>
       [] e.ev \in {"BlockEnd", "End"} ->
            UNCHANGED <<cfg, rep, exp, expState, expExt, expDrop, closed, dirsSeen, hist>>

Spec == Init /\ [][Step]_vars
NScen == Cardinality({i \in 1..Len(Log) : Log[i].ev = "Config"})
Consumed == /\ TLCGet("stats").diameter - 1 = Len(Log)
            /\ PrintT(<<"DONE", Len(Log), NScen>>)
=============================================================================
