--------------------------- MODULE ChannelIdTrace ---------------------------
(* Trace validation for C19.  One line per configuration:
     Ident  scen, kind (lancero | abaco | roach | simple), accepted, panic, overlap (abaco: two groups share a channel),
            table = per data stream [i, name, num, rc = <<row, col, rows, cols>> decoded from the row/column code,
                    truth = <<dev, col, row, kind(0 err / 1 fb or plain), rows, cols[, expected number]>>],
            groups = reported channel groups <<first, n>>  *)
EXTENDS Integers, Sequences, FiniteSets, TLC, Json
Log == ndJsonDeserialize("trace.ndjson")
VARIABLES l
vars == <<l>>
Report(line, preds, sc) == \A p \in preds : PrintT(<<"VIOL", line, p, sc>>)
Iff(b, s) == IF b THEN {s} ELSE {}
Init == l = 1

Preds(e) ==
  LET T == e.table  n == Len(T)  I == 1..n
      hasTruth == \A i \in I : Len(T[i].truth) >= 6
      pix(i) == <<T[i].truth[1], T[i].truth[2], T[i].truth[3]>>
      nums == {T[i].num : i \in I}
      cover == UNION {e.groups[g][1]..(e.groups[g][1] + e.groups[g][2] - 1) : g \in 1..Len(e.groups)}
  IN Iff(e.panic, "C19_nocrash")
     \cup Iff(e.kind = "abaco" /\ e.overlap /\ e.accepted, "C19_reject_collisions")
     \cup (IF ~e.accepted THEN {} ELSE
           Iff(\E i, j \in I : i # j /\ T[i].name = T[j].name, "C19_distinct")
           \cup Iff(\E i \in I : T[i].i # i - 1, "C19_distinct")
           \cup Iff(hasTruth /\ \E i, j \in I : i # j /\ pix(i) = pix(j) /\ T[i].num # T[j].num, "C19_partners")
           \cup Iff(hasTruth /\ \E i, j \in I : pix(i) # pix(j) /\ T[i].num = T[j].num, "C19_no_collision")
           \cup Iff(~hasTruth /\ \E i, j \in I : i # j /\ T[i].num = T[j].num, "C19_no_collision")
           \cup Iff(cover # nums, "C19_groups_cover")
           \cup Iff(\E g, h \in 1..Len(e.groups) : g # h /\
                       (e.groups[g][1]..(e.groups[g][1] + e.groups[g][2] - 1)) \cap (e.groups[h][1]..(e.groups[h][1] + e.groups[h][2] - 1)) # {}, "C19_groups_cover")
           \cup Iff(hasTruth /\ \E i \in I : Len(T[i].rc) = 4 /\
                       (T[i].rc[1] # T[i].truth[3] \/ T[i].rc[2] # T[i].truth[2] \/ T[i].rc[3] # T[i].truth[5] \/ T[i].rc[4] # T[i].truth[6]), "C19_rc_decode")
           \cup Iff(hasTruth /\ e.kind # "simple" /\ \E i \in I : Len(T[i].rc) # 4, "C19_rc_decode")
           \cup Iff(hasTruth /\ \E i \in I : Len(T[i].truth) >= 7 /\ T[i].num # T[i].truth[7], "C19_number"))
Step == /\ l <= Len(Log) /\ l' = l + 1
        /\ Report(l, Preds(Log[l]), Log[l].scen)
Next == Step
Spec == Init /\ [][Next]_vars
Consumed == /\ TLCGet("stats").diameter - 1 = Len(Log)
            /\ PrintT(<<"DONE", Len(Log), Len(Log)>>)
=============================================================================
