SPECIFICATION Spec
CONSTANTS Stoppers = {"s1"}
 Clients = {"c1"}
 ProducerKind = "erroring"
 MaxBlocks = 1
 MaxRuns = 1
 StartMayFail = {}
 RPCLayer = TRUE
 StaleFlag = TRUE
 DoubleSend = FALSE
 SharedWaitGroup = FALSE
 Replayable = FALSE
 WriteClients = {"c1"}
 WritingOutlivesRun = FALSE
 StopCheckThenAct = FALSE
 MaxPolls = 1
 PollOnce = FALSE
INVARIANTS C10_start_only_inactive C10_active_after_start C10_after_stops C10_writing_stopped C10_failed_start_clean C10_nopanic C10_no_stuck_stop C11_no_stuck_request
PROPERTIES C11_answered
CHECK_DEADLOCK FALSE
