---------------------------- MODULE RoachIngest ----------------------------
(* ROACH (microwave-mux) ingest, roach.go: RoachDevice.samplePacket / readPackets.
   Not anchored in one of the listed properties by itself (roach.go is an anchor of C12: every channel of the device
   owns a PhaseUnwrapper that is fed one bundle at a time); this module extends the specification to the third hardware
   path next to AbacoIngest and LanceroIngest.

   Implementation layer, one action per step of the code:
     DevSend(n)      the device emits a UDP packet [s = its sample counter, n samples x NChan words, channel-minor]
     DevLose(n)      a packet is lost on the way (the device's counter advances, nothing arrives)
     Sample          samplePacket(): reads ONE packet, learns nchan, sets nextS = s + n; the packet's data are dropped
     ReadPacket      inner loop of readPackets: one more packet joins the bundle
     BundleTimeout   the 100 ms bundling deadline passes: the bundle becomes one dataBlock
                       firstFrameIndex = sample number of the bundle's FIRST packet
                       raw[c][idx + j] = data[c + NChan * j]  for every packet in turn
                       a warning is printed when firstFrameIndex # nextS; nextS = firstFrameIndex + total samples
   Named deviation (switch, TRUE = as the code is):
     FirstPacketOnly   only the first packet's sample number is looked at: a loss INSIDE a bundle is neither reported
                       nor reflected in the frame numbers of the samples behind it.
   Values are tokens <<true sample number, channel>>, so the property layer can speak about what was delivered.  *)
EXTENDS Integers, Sequences, FiniteSets, TLC

CONSTANTS NChan, MaxPackets, MaxNsamp, MaxLoss, FirstPacketOnly

VARIABLES devS,     \* the device's sample counter (ghost)
          npk,      \* packets emitted or lost so far (bound)
          nlost,    \* packets lost so far (bound)
          net,      \* packets in the socket buffer, in order
          sampled,  \* has samplePacket() run
          bundle,   \* packets read in the current bundling period
          nextS,    \* dev.nextS
          out,      \* per channel: sequence of [f |-> frame number assigned by the code, tok |-> <<true sample, channel>>]
          warned,   \* number of dropped-data warnings printed
          lossSeen, \* ghost: number of losses that lie in front of a packet already turned into a block
          trueNext  \* ghost: sample number that follows the last packet consumed
vars == <<devS, npk, nlost, net, sampled, bundle, nextS, out, warned, lossSeen, trueNext>>

Chans == 0..(NChan - 1)
Data(p) == [k \in 0..(p.n * NChan - 1) |-> <<p.s + (k \div NChan), k % NChan>>]     \* channel-minor packet payload

Init ==
  /\ devS = 100 /\ npk = 0 /\ nlost = 0 /\ net = <<>> /\ sampled = FALSE /\ bundle = <<>> /\ nextS = 0
  /\ out = [c \in Chans |-> <<>>] /\ warned = 0 /\ lossSeen = 0 /\ trueNext = 0

DevSend(n) ==
  /\ npk < MaxPackets
  /\ net' = Append(net, [s |-> devS, n |-> n])
  /\ devS' = devS + n /\ npk' = npk + 1
  /\ UNCHANGED <<nlost, sampled, bundle, nextS, out, warned, lossSeen, trueNext>>

DevLose(n) ==
  /\ npk < MaxPackets /\ nlost < MaxLoss
  /\ devS' = devS + n /\ npk' = npk + 1 /\ nlost' = nlost + 1
  /\ UNCHANGED <<net, sampled, bundle, nextS, out, warned, lossSeen, trueNext>>

Sample ==
  /\ ~sampled /\ net # <<>>
  /\ sampled' = TRUE
  /\ nextS' = Head(net).s + Head(net).n
  /\ trueNext' = Head(net).s + Head(net).n
  /\ net' = Tail(net)
  /\ UNCHANGED <<devS, npk, nlost, bundle, out, warned, lossSeen>>

ReadPacket ==
  /\ sampled /\ net # <<>>
  /\ bundle' = Append(bundle, Head(net))
  /\ net' = Tail(net)
  /\ UNCHANGED <<devS, npk, nlost, sampled, nextS, out, warned, lossSeen, trueNext>>

RECURSIVE Offsets(_, _, _)
Offsets(b, i, acc) == IF i > Len(b) THEN acc ELSE Offsets(b, i + 1, Append(acc, IF i = 1 THEN 0 ELSE acc[i - 1] + b[i - 1].n))
Total(b) == LET o == Offsets(b, 1, <<>>) IN o[Len(b)] + b[Len(b)].n

\* gaps in front of packets of the bundle, counted against what came before (nextS, then each predecessor)
GapsIn(b, prev) ==
  Cardinality({i \in 1..Len(b) : b[i].s # (IF i = 1 THEN prev ELSE b[i - 1].s + b[i - 1].n)})

RECURSIVE ChannelSamples(_, _, _, _, _)
\* samples of channel c from the packets of the bundle, with the frame numbers the code assigns
ChannelSamples(b, offs, first, c, i) ==
  IF i > Len(b) THEN <<>>
  ELSE LET d == Data(b[i])
           base == IF FirstPacketOnly THEN first + offs[i] ELSE b[i].s
       IN [j \in 1..b[i].n |-> [f |-> base + (j - 1), tok |-> d[c + NChan * (j - 1)]]] \o ChannelSamples(b, offs, first, c, i + 1)

BundleTimeout ==
  /\ bundle # <<>>
  /\ LET first == bundle[1].s
         offs == Offsets(bundle, 1, <<>>)
         gaps == GapsIn(bundle, trueNext)
     IN /\ out' = [c \in Chans |-> out[c] \o ChannelSamples(bundle, offs, first, c, 1)]
        /\ warned' = warned + (IF FirstPacketOnly THEN (IF first # nextS /\ nextS > 0 THEN 1 ELSE 0) ELSE gaps)
        /\ nextS' = IF FirstPacketOnly THEN first + Total(bundle) ELSE bundle[Len(bundle)].s + bundle[Len(bundle)].n
        /\ lossSeen' = lossSeen + gaps
        /\ trueNext' = bundle[Len(bundle)].s + bundle[Len(bundle)].n
  /\ bundle' = <<>>
  /\ UNCHANGED <<devS, npk, nlost, net, sampled>>

Next ==
  \/ \E n \in 1..MaxNsamp : DevSend(n) \/ DevLose(n)
  \/ Sample \/ ReadPacket \/ BundleTimeout
Spec == Init /\ [][Next]_vars

\* ----------------------------------------------------------------------------------------------- property layer
\* every word lands in the channel it was sent for, in order, exactly once
Demux == \A c \in Chans : \A i \in 1..Len(out[c]) :
            /\ out[c][i].tok[2] = c
            /\ i > 1 => out[c][i].tok[1] > out[c][i - 1].tok[1]
SameLength == \A c, d \in Chans : Len(out[c]) = Len(out[d])
\* nothing that arrived (after the sampling packet) is dropped or repeated: with no loss the channel streams are contiguous
NoLossContiguous == nlost = 0 => \A c \in Chans : \A i \in 2..Len(out[c]) : out[c][i].tok[1] = out[c][i - 1].tok[1] + 1
\* the frame number given to a sample is the device's sample number
FrameTruth == \A c \in Chans : \A i \in 1..Len(out[c]) : out[c][i].f = out[c][i].tok[1]
\* every loss in front of delivered data was reported
LossReported == warned = lossSeen
NoSpuriousWarning == warned <= lossSeen
TypeOK == nextS >= 0
=============================================================================
