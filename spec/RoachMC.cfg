SPECIFICATION Spec
CONSTANTS
  NChan = 2
  MaxPackets = 6
  MaxNsamp = 2
  MaxLoss = 0
  FirstPacketOnly = TRUE
INVARIANTS TypeOK Demux SameLength NoLossContiguous FrameTruth LossReported NoSpuriousWarning
CHECK_DEADLOCK FALSE
