SPECIFICATION Spec
CONSTANTS Cols = 2
 Rows = 2
 NFrames = 10
 ReadSteps = {12, 40}
 MaxReads = 4
 GapAts = {12, 16}
 GapLens = {2, 6}
 ExtCells <- NoExt
 ExtScanByRow = FALSE
 CounterIgnoresDrop = TRUE
 AlignAssumesOneFrame = FALSE
 CheckEveryFrame = FALSE
INVARIANTS C04_monotone
VIEW View
CHECK_DEADLOCK FALSE
