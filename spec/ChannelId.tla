----------------------------- MODULE ChannelId -----------------------------
(* Channel numbering (C19): transcription of LanceroSource.PrepareChannels (lancero_source.go) -- validation of the
   separation parameters and the numbering loop -- with the declarative predicates of the property.  A behaviour is
   a configuration followed by up to MaxPasses runs of PrepareChannels on the same object.  TLC enumerates every configuration in the bound.
   The other sources (Abaco: one group per packet group, Roach / simulated: one group from 0) have no parameters
   that could collide beyond overlapping Abaco groups; they are covered by the trace specification.  *)
EXTENDS Integers, Sequences, FiniteSets, TLC
CONSTANTS DevNums,      \* possible device numbers
          Geoms,        \* possible <<ncols, nrows>> per device
          FirstRows, SepCards, SepCols,
          MaxPasses,    \* how many times PrepareChannels runs on the same object
          ResetGroups,  \* switch, TRUE = as the code is
          SkipLastCardCheck \* design variant (FALSE = as the code is): "nothing follows the last card, so it may exceed the card separation" - wrong when the cards are not listed in ascending order

VARIABLES cfg, result, done, passes
vars == <<cfg, result, done, passes>>

\* active devices in the order the client listed them (ActiveCards; not necessarily ascending), each with a geometry
Perms(S) == {f \in [1..Cardinality(S) -> S] : \A a, b \in 1..Cardinality(S) : a # b => f[a] # f[b]}
DevSeqs == UNION {{[i \in 1..Cardinality(S) |-> [devnum |-> f[i], ncols |-> g[i][1], nrows |-> g[i][2]]]
                   : f \in Perms(S), g \in [1..Cardinality(S) -> Geoms]} : S \in (SUBSET DevNums) \ {{}}}

Init == /\ cfg \in [devs : DevSeqs, first : FirstRows, sepcards : SepCards, sepcols : SepCols]
        /\ result = [ok |-> FALSE, chans |-> <<>>, groups |-> <<>>] /\ done = FALSE /\ passes = 0

\* validation as in the code
Valid(c) ==
  /\ c.sepcards >= 0 /\ c.sepcols >= 0
  /\ (c.sepcols > 0 => \A i \in 1..Len(c.devs) : c.devs[i].nrows <= c.sepcols)
  /\ (c.sepcards > 0 => \A i \in 1..(IF SkipLastCardCheck THEN Len(c.devs) - 1 ELSE Len(c.devs)) :
         (IF c.sepcols > 0 THEN c.sepcols ELSE c.devs[i].nrows) * c.devs[i].ncols <= c.sepcards)

\* the numbering loop: state <<cnum, thisColFirst, chans, groups>> folded over devices and columns
ColStep(c, st, d, col) ==
  LET cnum0 == IF c.sepcols > 0 THEN st.colfirst + c.sepcols ELSE st.cnum
      rows == [r \in 1..d.nrows |-> [num |-> cnum0 + r - 1, dev |-> d.devnum, col |-> col, row |-> r - 1]] IN
  [cnum |-> cnum0 + d.nrows, colfirst |-> cnum0, chans |-> st.chans \o rows,
   groups |-> Append(st.groups, [first |-> cnum0, n |-> d.nrows])]
RECURSIVE Cols(_, _, _, _)
Cols(c, st, d, col) == IF col >= d.ncols THEN st ELSE Cols(c, ColStep(c, st, d, col), d, col + 1)
DevStart(c, st, d) == IF c.sepcards > 0
                      THEN [st EXCEPT !.cnum = d.devnum * c.sepcards + c.first, !.colfirst = d.devnum * c.sepcards + c.first - c.sepcols]
                      ELSE st
RECURSIVE Devs(_, _, _)
Devs(c, st, i) == IF i > Len(c.devs) THEN st ELSE Devs(c, Cols(c, DevStart(c, st, c.devs[i]), c.devs[i], 0), i + 1)
Number(c) == Devs(c, [cnum |-> c.first, colfirst |-> c.first - c.sepcols, chans |-> <<>>, groups |-> <<>>], 1)

\* PrepareChannels runs again on the same object whenever a Start got past it and failed later (PrepareRun / StartRun),
\* or a run ended by itself, and Start is tried again: Stop() - which also empties the group list - is not in between.
\* ResetGroups (TRUE = as the code is): every call starts from an empty group list.
Prepare == /\ passes < MaxPasses /\ passes' = passes + 1 /\ done' = TRUE /\ UNCHANGED cfg
           /\ result' = IF Valid(cfg)
                        THEN LET n == Devs(cfg, [cnum |-> cfg.first, colfirst |-> cfg.first - cfg.sepcols, chans |-> <<>>,
                                                 groups |-> IF ResetGroups \/ passes = 0 THEN <<>> ELSE result.groups], 1)
                             IN [ok |-> TRUE, chans |-> n.chans, groups |-> n.groups]
                        ELSE [ok |-> FALSE, chans |-> <<>>, groups |-> <<>>]
Next == Prepare
Spec == Init /\ [][Next]_vars

\* ---------------------------------------------------------------- property layer (on the pixel table)
Nums == {result.chans[i].num : i \in 1..Len(result.chans)}
C19_no_collision == (done /\ result.ok) => Cardinality(Nums) = Len(result.chans)
C19_groups_cover == (done /\ result.ok) =>
     /\ UNION {result.groups[i].first..(result.groups[i].first + result.groups[i].n - 1) : i \in 1..Len(result.groups)} = Nums
     /\ \A i, j \in 1..Len(result.groups) : i # j =>
            (result.groups[i].first..(result.groups[i].first + result.groups[i].n - 1))
            \cap (result.groups[j].first..(result.groups[j].first + result.groups[j].n - 1)) = {}
\* the converse is not demanded: a rejected configuration need not collide (the check may be conservative)
GeomsMC == {<<1, 1>>, <<2, 3>>, <<3, 2>>}
GeomsBig == {<<1, 1>>, <<1, 3>>, <<2, 2>>, <<2, 3>>, <<3, 2>>, <<3, 3>>}
=============================================================================
