SPECIFICATION Spec
CONSTANTS
 Chans = {0}
 ProjSets = {{}}
 MaxSteps = 8
 OffResetsPause = TRUE
 CountEntries = TRUE
 MaxRemovals = 1
 Paths = {"A"}
 RejectedSetsBase = FALSE
INVARIANTS C06_newdir
CHECK_DEADLOCK FALSE
