---------------------------- MODULE LanceroTrace ----------------------------
(* Trace validation for C04.  The driver runs the real LanceroSource reader / getNextBlock / distributeData over a
   scripted card and logs
     Config  scen, cols, rows, nsampcard, truth[f] (per physical frame: err values then raw feedback words, readout
             order r0c0 r0c1 ...), whole (physical frames delivered completely, in order: all of them, or those
             not touched by the gap), gap, mix / mix2 (fractions num/den per feedback channel), mixlo / mixhi
             (blocks <= mixlo were made before the second mix request, blocks > mixhi after it was answered)
     Block   k, first (frame number given to the block, relative), n, dropped, data[ch] (channel order), ext
     Panic   msg
     End
   Property layer, per frame slot of every block: the slot must be the next whole delivered frame; error
   channel 2(c*rows+r) carries its error word, feedback channel +1 carries the PREVIOUS slot's feedback word with
   the two flag bits cleared plus the scaled signed error, saturated; external-trigger counts are the rising
   edges of the flag over (frame, row) with the block's own frame numbers.  *)
EXTENDS Integers, Sequences, FiniteSets, TLC, Json

Log == ndJsonDeserialize("trace.ndjson")
VARIABLES l, cfg, pos, lastFb, extLast, nextFirst, dropSeen, dead, lastj
vars == <<l, cfg, pos, lastFb, extLast, nextFirst, dropSeen, dead, lastj>>
Report(line, preds, sc) == \A p \in preds : PrintT(<<"VIOL", line, p, sc>>)
Iff(b, s) == IF b THEN {s} ELSE {}
Init == l = 1 /\ cfg = [scen |-> 0] /\ pos = 0 /\ lastFb = <<>> /\ extLast = FALSE /\ nextFirst = 0 /\ dropSeen = FALSE /\ dead = FALSE /\ lastj = 0

NW == cfg.cols * cfg.rows
ErrCh(r, c) == 2 * (c * cfg.rows + r) + 1          \* 1-based index into data
FbCh(r, c) == ErrCh(r, c) + 1
Q(r, c) == r * cfg.cols + c + 1                     \* 1-based readout position
Phys(i) == cfg.whole[pos + i] + 1                   \* 1-based index into truth of the i-th slot of this block
TErr(i, r, c) == cfg.truth[Phys(i)][Q(r, c)]
TFb(i, r, c) == cfg.truth[Phys(i)][NW + Q(r, c)]
U16(x) == ((x + 65536) % 65536)
Masked(w) == w - (w % 4)

MixOf(mixes, ch) == LET S == {j \in 1..Len(mixes) : mixes[j].ch = ch} IN
                    IF S = {} THEN [num |-> 0, den |-> 1] ELSE LET j == CHOOSE x \in S : TRUE IN [num |-> mixes[j].num, den |-> mixes[j].den]
\* mix2 overrides mix for the channels it names
Mix2Of(ch) == LET S == {j \in 1..Len(cfg.mix2) : cfg.mix2[j].ch = ch} IN
              IF S = {} THEN MixOf(cfg.mix, ch) ELSE LET j == CHOOSE x \in S : TRUE IN [num |-> cfg.mix2[j].num, den |-> cfg.mix2[j].den]

FbOK(out, prev, err, m) ==
  IF m.num = 0 THEN out = prev
  ELSE LET D == m.den * cfg.nsampcard  N == prev * D + err * m.num IN
       IF N >= 65535 * D THEN out = 65535
       ELSE IF N < 0 THEN out = 0
       ELSE out = N \div D \/ out = (N + D - 1) \div D

\* previous feedback word (masked) of (r,c) for slot i: slot i-1 of this block, or the state carried from the last block
PrevFb(i, r, c) == IF i = 1 THEN lastFb[Q(r, c)] ELSE Masked(TFb(i - 1, r, c))

FbAllOK(e, second) ==
  \A i \in 1..e.n : \A r \in 0..(cfg.rows - 1) : \A c \in 0..(cfg.cols - 1) :
     LET ch == FbCh(r, c) - 1    \* 0-based channel index as used in mix settings
         m == IF second THEN Mix2Of(ch) ELSE MixOf(cfg.mix, ch) IN
     FbOK(e.data[FbCh(r, c)][i], PrevFb(i, r, c), TErr(i, r, c), m)

ErrAllOK(e) ==
  \A i \in 1..e.n : \A r \in 0..(cfg.rows - 1) : \A c \in 0..(cfg.cols - 1) :
     e.data[ErrCh(r, c)][i] = U16(TErr(i, r, c))

\* external-trigger flag of (slot i, row r): bit 1 of the feedback word of column 0
Flag(i, r) == ((TFb(i, r, 0) \div 2) % 2) = 1
\* cells of this block in scan order, 1..n*rows ; cell j = (slot (j-1) \div rows + 1, row (j-1) % rows)
CellFlag(j) == Flag(((j - 1) \div cfg.rows) + 1, (j - 1) % cfg.rows)
PrevFlag(j) == IF j = 1 THEN extLast ELSE CellFlag(j - 1)
RECURSIVE ExtFrom(_, _, _)
ExtFrom(e, j, acc) == IF j > e.n * cfg.rows THEN acc
                      ELSE ExtFrom(e, j + 1, IF CellFlag(j) /\ ~PrevFlag(j)
                                             THEN Append(acc, ((e.first + ((j - 1) \div cfg.rows)) * cfg.rows) + ((j - 1) % cfg.rows)) ELSE acc)

\* Under a loss the property asks for re-alignment, not for the output of a perfect reader: whatever is emitted must be
\* physical frames that reached the reader whole, each at most once and in order (how many frames around the loss are
\* given up is not prescribed).  Slots are identified by their error words (not delayed, not mixed): slot i of block e
\* is the first intact frame after the previously matched one whose error words equal the slot's; -1 if there is none.
SlotErr(e, i) == [q \in 1..NW |-> e.data[ErrCh((q - 1) \div cfg.cols, (q - 1) % cfg.cols)][i]]
NextIntact(v, j) == LET S == {k \in (j + 1)..Len(cfg.intact) : [q \in 1..NW |-> U16(cfg.intact[k][q])] = v} IN
                    IF S = {} THEN 0 ELSE CHOOSE k \in S : \A k2 \in S : k <= k2
RECURSIVE Walk(_, _, _)
Walk(e, i, j) == IF i > e.n THEN j ELSE LET k == NextIntact(SlotErr(e, i), j) IN IF k = 0 THEN 0 - 1 ELSE Walk(e, i + 1, k)
WellShaped(e) == Len(e.data) = 2 * NW /\ \A ch \in 1..Len(e.data) : Len(e.data[ch]) = e.n
Realigned(e) == IF lastj < 0 \/ ~WellShaped(e) THEN lastj ELSE Walk(e, 1, lastj)

BlockPreds(e) ==
  LET shape == Len(e.data) = 2 * NW /\ \A ch \in 1..Len(e.data) : Len(e.data[ch]) = e.n
      inRange == pos + e.n <= Len(cfg.whole)
      old == e.k <= cfg.mixhi \/ cfg.mixafter = 0
      new == cfg.mixafter # 0 /\ e.k > cfg.mixlo
  IN Iff(~shape, "C04_shape")
     \cup Iff(shape /\ ~inRange, "C04_invented")
     \cup Iff(shape /\ inRange /\ ~ErrAllOK(e), "C04_once_in_order")
     \cup Iff(shape /\ inRange /\ ErrAllOK(e) /\ ~((old /\ FbAllOK(e, FALSE)) \/ (new /\ FbAllOK(e, TRUE))), "C04_retard_mix")
     \cup Iff(shape /\ inRange /\ ErrAllOK(e) /\ e.ext # ExtFrom(e, 1, <<>>), "C04_ext")
     \cup Iff(lastj >= 0 /\ WellShaped(e) /\ Realigned(e) < 0, "C04_realigned")
     \cup Iff(e.first < nextFirst, "C04_monotone")
     \cup Iff(~cfg.gap /\ (e.first # nextFirst \/ e.dropped # 0), "C04_contiguous")

Step ==
  /\ l <= Len(Log)
  /\ l' = l + 1
  /\ LET e == Log[l] IN
     CASE e.ev = "Config" ->
            /\ cfg' = e /\ pos' = 0 /\ lastFb' = [q \in 1..(e.cols * e.rows) |-> 0] /\ extLast' = FALSE
            /\ nextFirst' = 0 /\ dropSeen' = FALSE /\ dead' = FALSE /\ lastj' = 0
       [] e.ev = "Block" ->
            /\ IF dead THEN TRUE ELSE Report(l, BlockPreds(e), cfg.scen)
            /\ LET ok == ~dead /\ Len(e.data) = 2 * NW /\ pos + e.n <= Len(cfg.whole) /\ e.n > 0 IN
               /\ lastFb' = IF ok THEN [q \in 1..NW |-> Masked(cfg.truth[Phys(e.n)][NW + q])] ELSE lastFb
               /\ extLast' = IF ok THEN Flag(e.n, cfg.rows - 1) ELSE extLast
               /\ dead' = (dead \/ ~ok)        \* after a malformed block the reference position is unknown: stop judging contents
            /\ pos' = pos + e.n /\ nextFirst' = e.first + e.n
            /\ dropSeen' = (dropSeen \/ e.dropped > 0)
            /\ lastj' = Realigned(e)
            /\ UNCHANGED cfg
       [] e.ev = "Panic" ->
            /\ Report(l, {"C04_nocrash"}, cfg.scen) /\ dead' = TRUE
            /\ UNCHANGED <<cfg, pos, lastFb, extLast, nextFirst, dropSeen, lastj>>
       [] e.ev = "End" ->
            /\ IF dead THEN TRUE ELSE
               Report(l, Iff(pos < Len(cfg.whole) - 4, "C04_complete")
                         \cup Iff(cfg.gap /\ pos > cfg.beforegap + 1 /\ ~dropSeen, "C04_loss_reported"), cfg.scen)
            /\ UNCHANGED <<cfg, pos, lastFb, extLast, nextFirst, dropSeen, dead, lastj>>
Next == Step
Spec == Init /\ [][Next]_vars
NScen == Cardinality({i \in 1..Len(Log) : Log[i].ev = "Config"})
Consumed == /\ TLCGet("stats").diameter - 1 = Len(Log)
            /\ PrintT(<<"DONE", Len(Log), NScen>>)
=============================================================================
