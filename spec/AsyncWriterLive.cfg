SPECIFICATION FairSpec
CONSTANTS Cap = 2
 Parts = 3
 NRec = 2
 Atomic = TRUE
 Ticker = TRUE
 MaxFlush = 1
PROPERTIES FlushReturns CloseReturns
CHECK_DEADLOCK FALSE
