----------------------------- MODULE EdgeMulti -----------------------------
(* Edge-multi triggering (C08): transcription of edge_multi_trigger.go
   (edgeMultiFindNextTriggerInd, edgeMultiShouldRecord, EMTState.edgeMultiComputeRecordSpecs) over the
   stream buffer of DataStream (append, TrimKeepingN(2*nsamp+10)).

   The kink refinement (zeroThreshold) is a floating-point fit that cannot be transcribed; it enters as an
   oracle: a shift in {-1, 0, +1} applied to the trigger index.  ZFirst is the shift of a trigger found on the
   first searchable sample after a (re)configuration, ZAll the shift of every other trigger (a shift only
   depends on the samples around the trigger, so it is the same in every partition of the stream).
   Signals are staircases: each edge is a jump by Threshold (either sign); adjacent jumps form ramps.

   Property layer: recs (record specs emitted so far), truth; block independence is a 2-safety property,
   checked by self-composition: OneBlock(truth) is the same algorithm run from the reset state over the whole
   stream as one block.
   Deviation switch: FirstSampleGuard = FALSE is the pinned code (a trigger on the first searchable sample may
   be shifted to one sample earlier, giving a record that starts at index -1).  *)
EXTENDS Integers, Sequences, FiniteSets, TLC
CONSTANTS NPre, NSamp, Threshold, NMono, Mode, MaxLen, BlockSizes, MaxEdges, KeepN, ZFirst, ZAll, FirstSampleGuard,
          PairWindow   \* two edges placed in the same block are at most this far apart (bounds the branching)
\* Mode: "two" | "var" | "iso"
VARIABLES truth, buf, bufFirst, nfi, t, u, v, recs, crashed, level, edgesLeft, act
vars == <<truth, buf, bufFirst, nfi, t, u, v, recs, crashed, level, edgesLeft, act>>
Min2(a, b) == IF a <= b THEN a ELSE b
Max2(a, b) == IF a >= b THEN a ELSE b
At(s, i) == s[i + 1]

Init == /\ truth = <<>> /\ buf = <<>> /\ bufFirst = 0 /\ nfi = 0 /\ t = 0 /\ u = 0 /\ v = 0
        /\ recs = <<>> /\ crashed = FALSE /\ level = 1000 /\ edgesLeft = MaxEdges /\ act = [a |-> "Init"]

\* signal generator: each edge is a jump of +Threshold that lasts (staircase)
Places(b, k) == {{}} \cup (IF k >= 1 THEN {{p} : p \in 1..b} ELSE {})
                \cup (IF k >= 2 THEN UNION {{{p, q} : q \in p..(IF p + PairWindow < b THEN p + PairWindow ELSE b)} : p \in 1..b} ELSE {})
RECURSIVE Gen(_, _, _, _)
Gen(b, S, lv, i) == IF i > b THEN <<>> ELSE
   LET nl == IF i \in S THEN lv + Threshold ELSE lv IN <<nl>> \o Gen(b, S, nl, i + 1)

\* ---- transcription ----
\* monotone run length j (1..maxN) starting after index i
RECURSIVE MonoLen(_, _, _, _)
Rising == Threshold >= 1
IsMono(s, k) == IF Rising THEN At(s, k) > At(s, k - 1) ELSE At(s, k) < At(s, k - 1)
MonoLen(s, i, j, maxN) == IF ~IsMono(s, i + j) \/ j >= maxN THEN j ELSE MonoLen(s, i, j + 1, maxN)
\* returns [found, ind, nextI]
FirstSearch == IF FirstSampleGuard /\ (ZFirst # 0 \/ ZAll # 0) THEN NPre + 1 ELSE NPre
RECURSIVE FindNext(_, _, _, _, _)
FindNext(s, i, iLast, iFirst0, f0) ==
   IF i > iLast THEN [found |-> FALSE, ind |-> 0, nextI |-> Max2(iLast + 1, iFirst0)]
   ELSE LET diff == At(s, i) - At(s, i - 1) IN
        IF (Rising /\ diff >= Threshold) \/ (~Rising /\ diff <= Threshold)
        THEN LET fm == MonoLen(s, i, 1, NSamp - NPre) IN
             IF fm >= NMono THEN [found |-> TRUE, ind |-> i + (IF i + f0 = NPre THEN ZFirst ELSE ZAll), nextI |-> i + fm + 1]
             ELSE FindNext(s, i + 1, iLast, iFirst0, f0)
        ELSE FindNext(s, i + 1, iLast, iFirst0, f0)

ShouldRecord(tt, uu, vv) ==
   LET lastNPost == Min2(NSamp - NPre, uu - tt)
       npre == Min2(NPre, uu - tt - lastNPost)
       npost == Min2(NSamp - NPre, vv - uu)
   IN IF uu = 0 \/ uu = vv \/ uu = tt THEN [ok |-> FALSE, f |-> 0, npre |-> 0, n |-> 0]
      ELSE IF Mode = "var" THEN [ok |-> TRUE, f |-> uu, npre |-> npre, n |-> npre + npost]
      ELSE IF Mode = "two" THEN [ok |-> TRUE, f |-> uu, npre |-> NPre, n |-> NSamp]
      ELSE IF npre >= NPre /\ npre + npost >= NSamp THEN [ok |-> TRUE, f |-> uu, npre |-> NPre, n |-> NSamp]
      ELSE [ok |-> FALSE, f |-> 0, npre |-> 0, n |-> 0]

\* loop: state [iFirst, t,u,v, specs]
RECURSIVE Loop(_, _, _, _, _, _, _, _)
Loop(s, f0, iFirst, iLast, tt, uu, vv, specs) ==
   LET x == FindNext(s, iFirst, iLast, iFirst, f0) IN
   IF ~x.found THEN [iFirst |-> x.nextI, t |-> tt, u |-> uu, v |-> vv, specs |-> specs]
   ELSE LET t2 == uu  u2 == vv  v2 == x.ind + f0
            r == ShouldRecord(t2, u2, v2)
        IN Loop(s, f0, x.nextI, iLast, t2, u2, v2, IF r.ok THEN Append(specs, r) ELSE specs)

Compute(s, f0) ==
   LET i0 == nfi - f0
       reset == i0 < NPre
       iFirst == IF reset THEN FirstSearch ELSE i0
       tt == IF reset THEN 0 ELSE t  uu == IF reset THEN 0 ELSE u  vv == IF reset THEN 0 ELSE v
       iLast == Len(s) - 1 - (NSamp - NPre)
       L == Loop(s, f0, iFirst, iLast, tt, uu, vv, <<>>)
       nfi2 == L.iFirst + f0
       corner == 0 < L.v /\ L.v < nfi2 - NSamp
       r == ShouldRecord(L.u, L.v, nfi2)
   IN [specs |-> IF corner /\ r.ok THEN Append(L.specs, r) ELSE L.specs,
       t |-> L.t, u |-> IF corner THEN L.v ELSE L.u, v |-> L.v, nfi |-> nfi2]

InRange(s, f0, r) == LET a == r.f - f0 - r.npre IN a >= 0 /\ a + r.n <= Len(s)

Deliver == \E b \in BlockSizes : \E S \in Places(b, edgesLeft) :
   /\ Len(truth) + b <= MaxLen /\ ~crashed
   /\ LET blk == Gen(b, S, level, 1)
          s == buf \o blk
          nd == Len(s)
          c == Compute(s, bufFirst)
          drop == Max2(0, nd - KeepN)
      IN /\ truth' = truth \o blk /\ level' = blk[b] /\ edgesLeft' = edgesLeft - Cardinality(S)
         /\ recs' = recs \o c.specs /\ t' = c.t /\ u' = c.u /\ v' = c.v /\ nfi' = c.nfi
         /\ crashed' = \E k \in 1..Len(c.specs) : ~InRange(s, bufFirst, c.specs[k])
         /\ buf' = SubSeq(s, drop + 1, nd) /\ bufFirst' = bufFirst + drop
         /\ act' = [a |-> "Block", n |-> b, steps |-> S]
Next == Deliver
Spec == Init /\ [][Next]_vars

\* the same algorithm from the reset state over the whole stream as one block
OneBlock(s) ==
   LET iLast == Len(s) - 1 - (NSamp - NPre)
       L == Loop(s, 0, FirstSearch, iLast, 0, 0, 0, <<>>)
       nfi2 == L.iFirst
       corner == 0 < L.v /\ L.v < nfi2 - NSamp
       r == ShouldRecord(L.u, L.v, nfi2)
   IN IF corner /\ r.ok THEN Append(L.specs, r) ELSE L.specs

\* properties
C08_increasing == \A k \in 1..(Len(recs) - 1) : recs[k].f < recs[k + 1].f
C08_full_length == Mode # "var" => \A k \in 1..Len(recs) : recs[k].n = NSamp /\ recs[k].npre = NPre
C08_var_disjoint == Mode = "var" => \A k \in 1..(Len(recs) - 1) :
     recs[k].f - recs[k].npre + recs[k].n <= recs[k + 1].f - recs[k + 1].npre
C08_index == ~crashed
C08_independent == crashed \/ recs = OneBlock(truth)
View == <<buf, bufFirst, nfi, t, u, v, crashed, level, edgesLeft, Len(truth), Len(recs),
          IF recs = <<>> THEN 0 ELSE recs[Len(recs)].f, C08_increasing, C08_full_length, C08_var_disjoint, C08_independent>>
ZM1 == -1
ThrNeg == -5
=============================================================================
