---------------------------- MODULE WriteControl ----------------------------
(* Write control of a running source (C06), the run-log side files (C20) and the sequence part of
   the output files (C05):  AnySource.WriteControl / writeControlStart, DataPublisher.Set*/Remove*/
   SetPause/PublishData, WritingState.Start/Stop/SetExperimentStateLabel, HandleExternalTriggers,
   HandleDataDrop.

   Implementation layer: the reported state `rep` (WritingState.Active/Paused/Write*/FilenamePattern),
   per-channel WritingPaused flag `wp` and writer set `wr` (LJH22/LJH3/OFF non-nil), directory
   counter, file bodies of the current session, the three side files.
   Property layer: ghost `want*` variables = what the files must contain according to the *reported*
   state at the time of each publication / block / label.                                        *)
EXTENDS Integers, Sequences, FiniteSets, TLC

CONSTANTS Chans,            \* channel indices
          ProjSets,         \* possible sets of channels that have projectors loaded (chosen at Init)
          MaxSteps,         \* bound on history length
          OffResetsPause,   \* FALSE = tree before the fix: SetOFF does not clear WritingPaused
          CountEntries,     \* design variant (FALSE = as the code is): next run number = number of entries of the date directory
          MaxRemovals,      \* how many run directories the operator removes in a history
          Paths,            \* base paths a START request may name (besides "keep" = no path in the request, "bad" = a path below which no directory can be made)
          RejectedSetsBase  \* deviation (FALSE = as the code is): a START refused for its uncreatable path has already replaced the remembered base path

Types == {"L22", "L3", "OFF"}
TypeSets == SUBSET Types
Labels == {"A"}

VARIABLES proj, rep, wp, wr, ndirs, body, want, stateF, extF, dropF, wantState, wantExt, wantDrop,
          closed,            \* what STOP left behind for the last session: [body, state, ext, drop] or "none"
          steps, np, act, lastOK, repBefore,
          onDisk, diskBefore, nrm   \* run directories of the day that exist (1-based numbers); their value before the step; removals so far
vars == <<proj, rep, wp, wr, ndirs, body, want, stateF, extF, dropF, wantState, wantExt, wantDrop,
          closed, steps, np, act, lastOK, repBefore, onDisk, diskBefore, nrm>>

NoClosed == [valid |-> FALSE, body |-> <<>>, want |-> <<>>, state |-> <<>>, wantState |-> <<>>,
             ext |-> <<>>, wantExt |-> <<>>, drop |-> <<>>, wantDrop |-> <<>>]
NoDir == <<"", 0>>      \* a run directory is <<base path, run number>>
NoRep == [active |-> FALSE, paused |-> FALSE, types |-> {}, dir |-> NoDir, base |-> ""]
PathArgs == Paths \cup {"keep", "bad"}
Empty == [c \in Chans |-> [t \in Types |-> <<>>]]

Init == /\ proj \in ProjSets
        /\ rep = NoRep /\ wp = [c \in Chans |-> FALSE] /\ wr = [c \in Chans |-> {}]
        /\ ndirs = 0 /\ body = Empty /\ want = Empty
        /\ stateF = <<>> /\ extF = <<>> /\ dropF = <<>>
        /\ wantState = <<>> /\ wantExt = <<>> /\ wantDrop = <<>>
        /\ closed = NoClosed /\ steps = 0 /\ np = 0
        /\ act = [k |-> "init"] /\ lastOK = TRUE /\ repBefore = NoRep /\ onDisk = {} /\ diskBefore = {} /\ nrm = 0

Elig(c, t) == t # "OFF" \/ c \in proj
\* makeDirectory probes 0000, 0001, ... and takes the first name that does not exist (CountEntries = FALSE, as the code
\* is); the variant takes the number of entries of the date directory as the next number
NextDir(b) == IF CountEntries THEN <<b, Cardinality({d \in onDisk : d[1] = b}) + 1>>
              ELSE <<b, CHOOSE n \in 1..(MaxSteps + 1) : <<b, n>> \notin onDisk /\ \A m \in 1..(n - 1) : <<b, m>> \in onDisk>>
Tick(a, ok) == /\ steps' = steps + 1 /\ act' = a /\ lastOK' = ok /\ repBefore' = rep /\ diskBefore' = onDisk

Rejected(a) == /\ Tick(a, FALSE)
               /\ UNCHANGED <<proj, rep, wp, wr, ndirs, body, want, stateF, extF, dropF,
                              wantState, wantExt, wantDrop, closed, np, onDisk, nrm>>

\* ------------------------------------------------------------------ requests, as the code does them
\* p: the request's Path ("keep" = none: the base path of the last accepted START is used again)
Start(T, p) ==
  LET a == [k |-> "req", req |-> "START", types |-> T, path |-> p]
      eff == IF p = "keep" THEN rep.base ELSE p IN
  /\ ~(p = "keep" /\ rep.base = "")          \* (a first START without a path is left out: it would write below the working directory)
  /\ IF T = {} \/ (\E c \in Chans : wr[c] # {}) \/ ("OFF" \in T /\ proj = {})
     THEN Rejected(a)
     ELSE IF eff = "bad"
     THEN IF RejectedSetsBase
          THEN /\ Tick(a, FALSE) /\ rep' = [rep EXCEPT !.base = "bad"]
               /\ UNCHANGED <<proj, wp, wr, ndirs, body, want, stateF, extF, dropF, wantState, wantExt, wantDrop, closed, np, onDisk, nrm>>
          ELSE Rejected(a)
     ELSE
       /\ Tick(a, TRUE)
       /\ ndirs' = ndirs + 1 /\ nrm' = nrm
       /\ onDisk' = onDisk \cup {NextDir(eff)}
       /\ wr' = [c \in Chans |-> {t \in T : Elig(c, t)}]
       /\ wp' = [c \in Chans |->
                   IF "L22" \in T \/ "L3" \in T \/ (OffResetsPause /\ "OFF" \in T /\ c \in proj)
                   THEN FALSE ELSE wp[c]]
       /\ rep' = [active |-> TRUE, paused |-> FALSE, types |-> T, dir |-> NextDir(eff), base |-> eff]
       /\ body' = Empty /\ want' = Empty
       /\ stateF' = <<"START">> /\ wantState' = <<"START">>
       /\ extF' = <<>> /\ dropF' = <<>> /\ wantExt' = <<>> /\ wantDrop' = <<>>
       /\ closed' = NoClosed
       /\ UNCHANGED <<proj, np>>

Stop ==
  /\ Tick([k |-> "req", req |-> "STOP"], TRUE)
  /\ wr' = [c \in Chans |-> {}]
  /\ rep' = [NoRep EXCEPT !.base = rep.base]        \* the base path is remembered across sessions
  /\ closed' = IF rep.active
               THEN [valid |-> TRUE, body |-> body, want |-> want, state |-> Append(stateF, "STOP"),
                     wantState |-> Append(wantState, "STOP"), ext |-> extF, wantExt |-> wantExt,
                     drop |-> dropF, wantDrop |-> wantDrop]
               ELSE closed
  /\ UNCHANGED <<proj, wp, ndirs, body, want, stateF, extF, dropF, wantState, wantExt, wantDrop, np, onDisk, nrm>>

Pause ==
  /\ Tick([k |-> "req", req |-> "PAUSE"], TRUE)
  /\ wp' = [c \in Chans |-> TRUE]
  /\ rep' = [rep EXCEPT !.paused = TRUE]
  /\ UNCHANGED <<proj, wr, ndirs, body, want, stateF, extF, dropF, wantState, wantExt, wantDrop, closed, np, onDisk, nrm>>

Unpause(lab) ==   \* lab = "" for the plain request
  LET a == [k |-> "req", req |-> "UNPAUSE", label |-> lab] IN
  IF lab # "" /\ ~rep.active
  THEN Rejected(a)
  ELSE /\ Tick(a, TRUE)
       /\ wp' = [c \in Chans |-> FALSE]
       /\ rep' = [rep EXCEPT !.paused = FALSE]
       /\ stateF' = IF lab # "" THEN Append(stateF, lab) ELSE stateF
       /\ wantState' = IF lab # "" THEN Append(wantState, lab) ELSE wantState
       /\ UNCHANGED <<proj, wr, ndirs, body, want, extF, dropF, wantExt, wantDrop, closed, np, onDisk, nrm>>

\* the operator removes (or moves away) the directory of an earlier run that is not being written
RemoveRun(d) ==
  /\ nrm < MaxRemovals /\ d \in onDisk /\ ~(rep.active /\ rep.dir = d)
  /\ Tick([k |-> "rmrun", dir |-> d], TRUE)
  /\ onDisk' = onDisk \ {d} /\ nrm' = nrm + 1
  /\ UNCHANGED <<proj, rep, wp, wr, ndirs, body, want, stateF, extF, dropF, wantState, wantExt, wantDrop, closed, np>>

Garbage == Rejected([k |-> "req", req |-> "BOGUS"])
\* the UNPAUSE branch has its own rejection: "UNPAUSE" followed by anything that is not " label" is refused inside the
\* branch, before any flag is touched (a second place where "rejected" has to mean "nothing changed")
UnpauseMalformed == Rejected([k |-> "req", req |-> "UNPAUSEX"])

Label(lab) ==
  LET a == [k |-> "label", label |-> lab] IN
  IF ~rep.active THEN Rejected(a)
  ELSE /\ Tick(a, TRUE)
       /\ stateF' = Append(stateF, lab) /\ wantState' = Append(wantState, lab)
       /\ UNCHANGED <<proj, rep, wp, wr, ndirs, body, want, extF, dropF, wantExt, wantDrop, closed, np, onDisk, nrm>>

\* one data block: every channel publishes one record (id np+1); ext triggers and drop count handled
Block(ext, drop) ==
  /\ Tick([k |-> "block", ext |-> ext, drop |-> drop], TRUE)
  /\ np' = np + 1
  /\ body' = [c \in Chans |-> [t \in Types |->
                 IF t \in wr[c] /\ ~wp[c] THEN Append(body[c][t], np + 1) ELSE body[c][t]]]
  /\ want' = [c \in Chans |-> [t \in Types |->
                 IF rep.active /\ ~rep.paused /\ t \in rep.types /\ Elig(c, t)
                 THEN Append(want[c][t], np + 1) ELSE want[c][t]]]
  /\ extF' = IF rep.dir # NoDir THEN extF \o ext ELSE extF
  /\ wantExt' = IF rep.active THEN wantExt \o ext ELSE wantExt
  /\ dropF' = IF drop > 0 /\ rep.active THEN Append(dropF, drop) ELSE dropF
  /\ wantDrop' = IF drop > 0 /\ rep.active THEN Append(wantDrop, drop) ELSE wantDrop
  /\ UNCHANGED <<proj, rep, wp, wr, ndirs, stateF, wantState, closed, onDisk, nrm>>

Next == /\ steps < MaxSteps
        /\ \/ \E T \in TypeSets : \E p \in PathArgs : Start(T, p)
           \/ Stop \/ Pause \/ Unpause("") \/ \E lab \in Labels : Unpause(lab)
           \/ Garbage \/ UnpauseMalformed
           \/ \E d \in onDisk : RemoveRun(d)
           \/ \E lab \in Labels : Label(lab)
           \/ \E ext \in {<<>>, <<1>>, <<1, 2>>} : \E drop \in {0, 1} : Block(ext, drop)

Spec == Init /\ [][Next]_vars

\* ------------------------------------------------------------------ property layer
\* C06: what channels do (would a record published now be stored in file t of channel c?) agrees
\* with the reported state.
WouldStore(c, t) == t \in wr[c] /\ ~wp[c]
Reported(c, t) == rep.active /\ ~rep.paused /\ t \in rep.types /\ Elig(c, t)
C06_behaviour == \A c \in Chans : \A t \in Types : WouldStore(c, t) <=> Reported(c, t)
C06_bodies    == body = want
C06_rejected_noop == lastOK \/ rep = repBefore
C06_newdir    == (act.k = "req" /\ act.req = "START" /\ lastOK) => rep.dir \notin diskBefore   \* a newly created directory
C06_stop_closes == (act.k = "req" /\ act.req = "STOP") => (\A c \in Chans : wr[c] = {}) /\ ~rep.active
C06_effect ==
   /\ (act.k = "req" /\ lastOK /\ act.req = "START") => rep.active /\ ~rep.paused /\ rep.types = act.types
   \* the run directory lies below the path of the request, or below the remembered base path when the request names none
   /\ (act.k = "req" /\ lastOK /\ act.req = "START") =>
          LET eff == IF act.path = "keep" THEN repBefore.base ELSE act.path IN rep.base = eff /\ rep.dir[1] = eff
   /\ (act.k = "req" /\ lastOK /\ act.req = "PAUSE" /\ repBefore.active) => rep.active /\ rep.paused
   /\ (act.k = "req" /\ lastOK /\ act.req = "UNPAUSE" /\ repBefore.active) => rep.active /\ ~rep.paused
C20_files == /\ stateF = wantState /\ extF = wantExt /\ dropF = wantDrop
             /\ (closed.valid => /\ closed.state = closed.wantState /\ closed.ext = closed.wantExt
                                    /\ closed.drop = closed.wantDrop /\ closed.body = closed.want)
C20_state_shape == closed.valid => Head(closed.state) = "START" /\ closed.state[Len(closed.state)] = "STOP"

View == <<onDisk, diskBefore, nrm, proj, rep, wp, wr, ndirs, body, want, stateF, extF, dropF, wantState, wantExt, wantDrop, closed, steps, np, lastOK, repBefore, act>>
=============================================================================
