SPECIFICATION SimSpec
CONSTANTS Cap = 2
 MaxBlocks = 3
 MaxRuns = 2
 Clients = {"m1", "m2", "m3"}
 BadArgs = {"m3"}
 MixDepth = 2
 MixAnyTime = FALSE
 UncheckedLengths = FALSE
 SilencePanics = FALSE
 MaxFails = 1
 FailedStartStuck = FALSE
INVARIANTS Emit
CHECK_DEADLOCK FALSE
