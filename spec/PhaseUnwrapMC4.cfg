SPECIFICATION Spec
CONSTANTS W = 6
 Frac = 6
 Drop = 2
 Bias = 0
 ResetAfter = 3
 PulsePositive = TRUE
 Invert = TRUE
 Enable = FALSE
INVARIANTS NoBad
VIEW View
CHECK_DEADLOCK FALSE
