SPECIFICATION Spec
CONSTANTS Chans = {0, 1}
 ProjSets = {{}, {1}}
 MaxSteps = 5
 OffResetsPause = TRUE
 CountEntries = FALSE
 MaxRemovals = 1
 Paths = {"A"}
 RejectedSetsBase = FALSE
INVARIANTS C06_behaviour C06_bodies C06_rejected_noop C06_newdir C06_stop_closes C06_effect C20_files C20_state_shape
CHECK_DEADLOCK FALSE
