-------------------------- MODULE LanceroLifecycle --------------------------
(* Life cycle of a Lancero (TDM) source and its mix-fraction requests (lancero_source.go: StartRun / launchLanceroReader /
   getNextBlock / stop / ConfigureMixFraction; data_source.go: Start / CoreLoop / Stop; rpc_server.go:
   SourceControl.ConfigureMixFraction).  The chain is

     reader goroutine (50 ms ticker) -> buffersChan (capacity Cap) -> ONE getNextBlock goroutine per core-loop iteration,
     which selects over {buffersChan, mixRequests, a 10 s panic timer} -> nextBlock -> core loop

   and the mix-fraction request is the only control request that does NOT travel through the queuedRequests rendezvous
   of Lifecycle.tla: the RPC goroutine puts the request on the buffered channel mixRequests and then waits for a reply
   on currentMix; the only goroutine that ever answers is the getNextBlock goroutine of the moment.  Both channels are
   re-made by Sample() at every start.

   Switches (the first two: TRUE = as the code was before the repair 5f33603, which this model and its driver found; the
   configuration LanceroLifeTree.cfg is the tree as it is now, LanceroLifeMixAnyTime.cfg / LanceroLifeUnchecked.cfg are the
   former behaviour, kept as deviations that must violate C11_mix_answered / C11_no_crash):
     MixAnyTime        the request is put on the channel whatever the state of the source: before the first start the
                       channel is nil, after a run has ended nobody serves it; FALSE = the call is refused unless the
                       source is active, and a caller that waits gives up when the run ends.
     UncheckedLengths  only the channel indices are validated; a request whose two lists differ in length is accepted
                       and indexes past the shorter list inside the getNextBlock goroutine (a panic in a goroutine of
                       the server); FALSE = refused with an error by the validation.
     SilencePanics     when the card stops delivering, the reader ("too long since last succesful read") and the
                       getNextBlock goroutine ("timeout, no data from lancero") both panic after 10 s; FALSE = they keep
                       waiting.  Not anchored in a listed property (a deliberate fail-stop of the code); kept as a
                       named deviation so that the model says what the code does.                                        *)
EXTENDS Integers, Sequences, FiniteSets, TLC
CONSTANTS Cap, MaxBlocks, MaxRuns, Clients, BadArgs, MixDepth, MixAnyTime, UncheckedLengths, SilencePanics,
          MaxFails,          \* how many Starts fail in PrepareChannels (a channel separation too small for the card geometry: accepted by Configure, refused - and repaired - by PrepareChannels)
          FailedStartStuck   \* deviation (FALSE = as the code is): that error path of Start forgets to set the state back to Inactive
VARIABLES hw,        \* "flowing" | "silent"
          rd,        \* reader goroutine: "run" | "done"
          buf,       \* items in buffersChan
          bclosed,   \* buffersChan closed
          gn,        \* the current getNextBlock goroutine: "none" | "wait" | "send"
          core,      \* core loop: "call" | "select" | "blk" | "gone"
          nbClosed,  \* nextBlock closed
          abort,     \* abortSelf closed
          collOn,    \* collector and adapter of the card running (StartRun sets, ls.stop() clears)
          st,        \* "Active" | "Stopping" | "Inactive" ("Starting" only as the stuck state of the deviation FailedStartStuck)
          nfail,     \* failed Starts so far
          kpc,       \* the one Stop caller: "idle" | "waiting" | "returned"
          made,      \* blocks produced in this run (bound)
          gen,       \* number of starts so far; 0 = Sample() never ran: the mix channels are nil
          mixq,      \* mixRequests: clients whose request is queued
          mixr,      \* replies sitting in currentMix
          mpc,       \* per client: "idle" | "sending" | "waiting" | "returned" | "refused"
          mgen,      \* per client: generation of the channels it is using
          panicked
vars == <<hw, rd, buf, bclosed, gn, core, nbClosed, abort, collOn, st, nfail, kpc, made, gen, mixq, mixr, mpc, mgen, panicked>>
run == <<rd, buf, bclosed, gn, core, nbClosed, abort, collOn, st, nfail, made>>
mix == <<mixq, mixr, mpc, mgen>>

Init == /\ hw = "flowing" /\ rd = "done" /\ buf = 0 /\ bclosed = FALSE /\ gn = "none" /\ core = "gone" /\ nbClosed = FALSE
        /\ abort = FALSE /\ collOn = FALSE /\ st = "Inactive" /\ nfail = 0 /\ kpc = "idle" /\ made = 0 /\ gen = 0
        /\ mixq = <<>> /\ mixr = 0 /\ mpc = [c \in Clients |-> "idle"] /\ mgen = [c \in Clients |-> 0] /\ panicked = FALSE
Live == ~panicked
AllGone == rd = "done" /\ gn = "none" /\ core = "gone"

\* --------------------------------------------------------------------------------------------- start / stop
\* Start(): Sample (re-makes the mix channels), PrepareRun, StartRun (adapter + collector on, reader launched), CoreLoop
StartOK == /\ Live /\ st = "Inactive" /\ AllGone /\ ~collOn /\ gen < MaxRuns /\ kpc # "waiting" /\ hw = "flowing"
           /\ gen' = gen + 1 /\ mixq' = <<>> /\ mixr' = 0
           /\ rd' = "run" /\ buf' = 0 /\ bclosed' = FALSE /\ gn' = "none" /\ core' = "call" /\ nbClosed' = FALSE
           /\ abort' = FALSE /\ collOn' = TRUE /\ st' = "Active" /\ kpc' = "idle" /\ made' = 0
           /\ UNCHANGED <<hw, nfail, mpc, mgen, panicked>>
\* Start() that fails in PrepareChannels: Sample has run (card sampled and stopped again, mix channels re-made), nothing was launched
StartFail == /\ Live /\ st = "Inactive" /\ AllGone /\ ~collOn /\ gen < MaxRuns /\ nfail < MaxFails /\ kpc # "waiting"
             /\ nfail' = nfail + 1 /\ gen' = gen + 1 /\ mixq' = <<>> /\ mixr' = 0
             /\ st' = (IF FailedStartStuck THEN "Starting" ELSE "Inactive")
             /\ UNCHANGED <<hw, rd, buf, bclosed, gn, core, nbClosed, abort, collOn, kpc, made, mpc, mgen, panicked>>
StopCall == /\ Live /\ kpc = "idle" /\ gen > 0
            /\ IF st = "Active" THEN st' = "Stopping" /\ abort' = TRUE /\ kpc' = "waiting"
               ELSE kpc' = "returned" /\ UNCHANGED <<st, abort>>
            /\ UNCHANGED <<hw, rd, buf, bclosed, gn, core, nbClosed, collOn, nfail, made, gen, mix, panicked>>
StopWaited == Live /\ kpc = "waiting" /\ core = "gone" /\ kpc' = "returned"
              /\ UNCHANGED <<hw, run, gen, mix, panicked>>

\* --------------------------------------------------------------------------------------------- the data chain
HwSilence == Live /\ hw = "flowing" /\ st = "Active" /\ hw' = "silent" /\ UNCHANGED <<run, kpc, gen, mix, panicked>>
ReaderTick == Live /\ rd = "run" /\ hw = "flowing" /\ buf < Cap /\ made < MaxBlocks /\ buf' = buf + 1 /\ made' = made + 1
              /\ UNCHANGED <<hw, rd, bclosed, gn, core, nbClosed, abort, collOn, st, nfail, kpc, gen, mix, panicked>>
ReaderAbort == Live /\ rd = "run" /\ abort /\ rd' = "done" /\ bclosed' = TRUE
               /\ UNCHANGED <<hw, buf, gn, core, nbClosed, abort, collOn, st, nfail, kpc, made, gen, mix, panicked>>
ReaderPanic == Live /\ SilencePanics /\ rd = "run" /\ hw = "silent" /\ ~abort /\ panicked' = TRUE
               /\ UNCHANGED <<hw, run, kpc, gen, mix>>
CoreCall == Live /\ core = "call" /\ gn = "none" /\ gn' = "wait" /\ core' = "select"
            /\ UNCHANGED <<hw, rd, buf, bclosed, nbClosed, abort, collOn, st, nfail, kpc, made, gen, mix, panicked>>
GnTake == Live /\ gn = "wait" /\ buf > 0 /\ buf' = buf - 1 /\ gn' = "send"
          /\ UNCHANGED <<hw, rd, bclosed, core, nbClosed, abort, collOn, st, nfail, kpc, made, gen, mix, panicked>>
GnClosed == Live /\ gn = "wait" /\ buf = 0 /\ bclosed /\ gn' = "none" /\ nbClosed' = TRUE /\ collOn' = FALSE      \* ls.stop()
            /\ UNCHANGED <<hw, rd, buf, bclosed, core, abort, st, nfail, kpc, made, gen, mix, panicked>>
GnPanic == Live /\ SilencePanics /\ gn = "wait" /\ buf = 0 /\ ~bclosed /\ mixq = <<>> /\ hw = "silent" /\ panicked' = TRUE
           /\ UNCHANGED <<hw, run, kpc, gen, mix>>
\* the getNextBlock goroutine serves one mix request and goes round its loop again
GnMix == /\ Live /\ gn = "wait" /\ mixq # <<>> /\ mixr < MixDepth        \* (currentMix has the same capacity: a full one makes the goroutine wait)
         /\ mixq' = Tail(mixq)
         /\ IF Head(mixq) \in BadArgs THEN panicked' = TRUE /\ mixr' = mixr       \* index out of range in the goroutine
            ELSE mixr' = mixr + 1 /\ panicked' = panicked
         /\ UNCHANGED <<hw, run, kpc, gen, mpc, mgen>>
CoreTakeBlock == Live /\ core = "select" /\ gn = "send" /\ gn' = "none" /\ core' = "blk"
                 /\ UNCHANGED <<hw, rd, buf, bclosed, nbClosed, abort, collOn, st, nfail, kpc, made, gen, mix, panicked>>
CoreBlockDone == Live /\ core = "blk" /\ core' = "call"
                 /\ UNCHANGED <<hw, rd, buf, bclosed, gn, nbClosed, abort, collOn, st, nfail, kpc, made, gen, mix, panicked>>
CoreSeeClosed == Live /\ core = "select" /\ nbClosed /\ core' = "gone" /\ st' = "Inactive"
                 /\ UNCHANGED <<hw, rd, buf, bclosed, gn, nbClosed, abort, collOn, nfail, kpc, made, gen, mix, panicked>>

\* --------------------------------------------------------------------------------------------- mix-fraction clients
Refuse(c) == mpc' = [mpc EXCEPT ![c] = "refused"] /\ UNCHANGED <<mixq, mixr, mgen>>
\* validation, then the decision to use the channels
MixCall(c) == /\ Live /\ mpc[c] = "idle"
              /\ IF c \in BadArgs /\ ~UncheckedLengths THEN Refuse(c)
                 ELSE IF ~MixAnyTime /\ st # "Active" THEN Refuse(c)
                 ELSE mpc' = [mpc EXCEPT ![c] = "sending"] /\ mgen' = [mgen EXCEPT ![c] = gen] /\ UNCHANGED <<mixq, mixr>>
              /\ UNCHANGED <<hw, run, kpc, gen, panicked>>
\* ls.mixRequests <- mfo : needs the channel to exist (gen > 0) and to have room
MixSend(c) == /\ Live /\ mpc[c] = "sending" /\ mgen[c] = gen /\ gen > 0 /\ Len(mixq) < MixDepth
              /\ mixq' = Append(mixq, c) /\ mpc' = [mpc EXCEPT ![c] = "waiting"] /\ UNCHANGED <<mixr, mgen>>
              /\ UNCHANGED <<hw, run, kpc, gen, panicked>>
\* <-ls.currentMix (replies are not matched to callers: any waiting caller of this generation may take one)
MixRecv(c) == /\ Live /\ mpc[c] = "waiting" /\ mgen[c] = gen /\ mixr > 0
              /\ mixr' = mixr - 1 /\ mpc' = [mpc EXCEPT ![c] = "returned"] /\ UNCHANGED <<mixq, mgen>>
              /\ UNCHANGED <<hw, run, kpc, gen, panicked>>
\* design variant only: a caller that is sending or waiting gives up once its run is over
MixGiveUp(c) == /\ Live /\ ~MixAnyTime /\ mpc[c] \in {"sending", "waiting"} /\ (st = "Inactive" \/ mgen[c] # gen)
                /\ Refuse(c) /\ UNCHANGED <<hw, run, kpc, gen, panicked>>

Next == StartOK \/ StartFail \/ StopCall \/ StopWaited \/ HwSilence \/ ReaderTick \/ ReaderAbort \/ ReaderPanic \/ CoreCall \/ GnTake
        \/ GnClosed \/ GnPanic \/ GnMix \/ CoreTakeBlock \/ CoreBlockDone \/ CoreSeeClosed
        \/ \E c \in Clients : MixCall(c) \/ MixSend(c) \/ MixRecv(c) \/ MixGiveUp(c)
Spec == Init /\ [][Next]_vars

Terminal == ~ENABLED Next
\* ----------------------------------------------------------------------------------------------- property layer
\* C10: whichever way a run ended, its goroutines are gone, the card is stopped (so that it can be started again), Stop returned
C10_run_ends_clean == (Terminal /\ ~panicked /\ core = "gone" /\ gen > 0) =>
                         (rd = "done" /\ gn = "none" /\ ~collOn /\ st = "Inactive" /\ kpc \in {"idle", "returned"})
C10_no_stuck == (Terminal /\ ~panicked) => (core = "gone" \/ (kpc = "idle" /\ (hw = "flowing" \/ ~SilencePanics)))
\* C11: every mix request is answered (result or error), whenever it arrives
C11_mix_answered == (Terminal /\ ~panicked) => \A c \in Clients : mpc[c] \in {"idle", "returned", "refused"}
\* C11: no request content takes the server down (checked with SilencePanics = FALSE: the only panic left is the request's)
C11_no_crash == ~panicked
\* C10: a Start that failed leaves the source inactive (and so able to be started later)
C10_failed_start_clean == st # "Starting"
\* a well-formed request made while the source is active and not being stopped is answered with the mix, not refused
\* (the design variant must not "fix" the hang by refusing everything)
MixServedWhileRunning == \A c \in Clients : (mpc[c] = "refused" /\ c \notin BadArgs) => ~MixAnyTime
\* reachability goals (negated; TLC "violates" them and prints a witness)
NotW1 == ~(\E c \in Clients : mpc[c] = "returned" /\ gen = 2)        \* a request answered in the second run
NotW2 == ~(\E c \in Clients : mpc[c] = "returned" /\ st = "Stopping")
TypeOK == /\ buf \in 0..Cap /\ mixr \in 0..MixDepth /\ Len(mixq) <= MixDepth /\ gen \in 0..MaxRuns
=============================================================================
