SPECIFICATION SimSpec
CONSTANTS NPre = 4
 NSamp = 8
 Threshold = 5
 NMono = 1
 Mode = "var"
 MaxLen = 120
 BlockSizes = {1, 2, 3, 7, 8, 9, 17, 25, 40}
 MaxEdges = 6
 KeepN = 26
 ZFirst = 0
 ZAll = 0
 FirstSampleGuard = TRUE
 PairWindow = 14
 SimDepth = 40
INVARIANTS Emit
CHECK_DEADLOCK FALSE
