SPECIFICATION Spec
CONSTANTS Cap = 4
 MaxTotal = 9
 MaxWrite = 3
 PublishFirst = TRUE
INVARIANTS C18_prefix Bounded
CHECK_DEADLOCK FALSE
