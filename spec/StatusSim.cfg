SPECIFICATION SimSpec
CONSTANTS Persistent = {"STATUS", "TRIGGER", "TRIANGLE", "WRITING", "ABACO"}
 NoSave = {"ALIVE", "TRIGGERRATE"}
 Transient = {"NEWDASTARD"}
 Values = {1, 2, 3}
 MaxPub = 12
 MaxSaves = 4
 MaxCrashes = 3
 SaveMovesMain = FALSE
 InitialMain = {"empty", "conf0"}
 SimDepth = 24
INVARIANTS Emit
CHECK_DEADLOCK FALSE
