SPECIFICATION Spec
CONSTANTS NGroups = 2
 Fpp <- FppEq1
 MaxSN = 6
 MaxTicks = 4
 MaxBatch = 3
 Last0s = {0}
 FillCountsLeftovers = TRUE
 DropCountPerTick = FALSE
INVARIANTS C03_content
VIEW View
CHECK_DEADLOCK FALSE
