SPECIFICATION Spec
