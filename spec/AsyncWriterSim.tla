---------------------------- MODULE AsyncWriterSim ----------------------------
EXTENDS AsyncWriter, Json
CONSTANT SimDepth
VARIABLE hist
SimInit == Init /\ hist = <<>>
SimNext == Next /\ hist' = Append(hist, act')
SimSpec == SimInit /\ [][SimNext]_<<vars, hist>>
Emit == Len(hist) < SimDepth \/ PrintT(<<"SCEN", ToJson([cap |-> Cap, steps |-> hist])>>)
=============================================================================
