SPECIFICATION SimSpec
CONSTANTS Cap = 2
 Parts = 1
 NRec = 12
 Atomic = TRUE
 Ticker = TRUE
 MaxFlush = 3
 SimDepth = 30
INVARIANTS Emit
CHECK_DEADLOCK FALSE
