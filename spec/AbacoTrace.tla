---------------------------- MODULE AbacoTrace ----------------------------
(* Trace validation for C03.  The driver runs the real AbacoSource reader loop (readerMainLoop,
   getNextBlock, distributeData) over a scripted PacketProducer and logs
     Config  scen, ng, fpp[g], cg[c] (group of channel c), F (first global sequence number every group must
             output), last0[g] (last sampled sn), frame0, M and neg (sample coding), origin
     Tick    arr[g] = global sequence numbers handed to the reader in this tick (driver input)
     Block   first, n, dropped, data[c] = the block's samples per channel (observed)
     Panic   msg
     End     flushed, L[g] (last sequence number sent; the script ends with a tick in which every group
             receives its last packet, so everything up to L must have been emitted)
   The property layer is evaluated per frame, not per packet: frame p (0-based, counted from the common
   start) of group g is frame p % fpp of sequence number F + p \div fpp.  An implementation may cut
   blocks anywhere.  Filler content is free.  *)
EXTENDS Integers, Sequences, FiniteSets, TLC, Json

Log == ndJsonDeserialize("trace.ndjson")

VARIABLES l, scen, cfg, arrived, pos, nextFrame, rep, fill, dead
vars == <<l, scen, cfg, arrived, pos, nextFrame, rep, fill, dead>>

Report(line, preds, sc) == \A p \in preds : PrintT(<<"VIOL", line, p, sc>>)
Iff(b, s) == IF b THEN {s} ELSE {}
MaxOf(S) == CHOOSE x \in S : \A y \in S : y <= x
RECURSIVE Sum(_, _)
Sum(f, S) == IF S = {} THEN 0 ELSE LET x == CHOOSE y \in S : TRUE IN f[x] + Sum(f, S \ {x})

Val(c, sn, k) == ((sn % 60) * 4 + k) * 8 + c
Exp(c, sn, k) == IF cfg.neg THEN (cfg.M - Val(c, sn, k)) % cfg.M ELSE Val(c, sn, k)

Init == l = 1 /\ scen = 0 /\ cfg = [ng |-> 0] /\ arrived = <<>> /\ pos = 0 /\ nextFrame = 0 /\ rep = 0 /\ fill = 0
        /\ dead = FALSE

SnOf(g, p) == cfg.F + p \div cfg.fpp[g]
Groups == 1..cfg.ng

BlockPreds(e) ==
  LET nch == Len(cfg.cg)
      lensOK == Len(e.data) = nch /\ \A c \in 1..nch : Len(e.data[c]) = e.n
      contentBad == \E c \in 1..Len(e.data) : \E i \in 1..Len(e.data[c]) :
                      LET g == cfg.cg[c] p == pos + i - 1 IN
                      /\ SnOf(g, p) \in arrived[g]
                      /\ e.data[c][i] # Exp(c, SnOf(g, p), p % cfg.fpp[g])
      beyond == e.n > 0 /\ \E g \in Groups : arrived[g] = {} \/ SnOf(g, pos + e.n - 1) > MaxOf(arrived[g])
  IN Iff(~lensOK, "C03_aligned") \cup Iff(contentBad, "C03_content") \cup Iff(beyond, "C03_count")
     \cup Iff(e.first # nextFrame, "C03_contiguous")

FillIn(e) == Sum([g \in Groups |-> Cardinality({i \in 1..e.n : SnOf(g, pos + i - 1) \notin arrived[g]})], Groups)

PreFill == Sum([g \in Groups |-> cfg.fpp[g] * Cardinality({sn \in (cfg.last0[g] + 1)..(cfg.F - 1) : sn \notin arrived[g]})], Groups)

Step ==
  /\ l <= Len(Log)
  /\ l' = l + 1
  /\ LET e == Log[l] IN
     CASE e.ev = "Config" ->
            /\ scen' = e.scen /\ cfg' = e /\ arrived' = [g \in 1..e.ng |-> {}] /\ pos' = 0
            /\ nextFrame' = e.frame0 /\ rep' = 0 /\ fill' = 0 /\ dead' = FALSE
       [] e.ev = "Tick" ->
            /\ arrived' = [g \in Groups |-> arrived[g] \cup {e.arr[g][i] : i \in 1..Len(e.arr[g])}]
            /\ UNCHANGED <<scen, cfg, pos, nextFrame, rep, fill, dead>>
       [] e.ev = "Block" ->
            /\ Report(l, BlockPreds(e) \cup Iff(rep + e.dropped < fill + FillIn(e), "C03_dropped"), scen)
            /\ pos' = pos + e.n /\ nextFrame' = e.first + e.n
            /\ rep' = rep + e.dropped /\ fill' = fill + FillIn(e)
            /\ UNCHANGED <<scen, cfg, arrived, dead>>
       [] e.ev = "Panic" ->
            /\ Report(l, {"C03_nocrash"}, scen) /\ dead' = TRUE
            /\ UNCHANGED <<scen, cfg, arrived, pos, nextFrame, rep, fill>>
       [] e.ev = "FailStop" ->    \* the reader's deliberate panic on a full hand-off channel (consumer 100 buffers behind): the run is over,
            \* nothing more is demanded; every block handed over before has been judged
            /\ dead' = TRUE /\ UNCHANGED <<scen, cfg, arrived, pos, nextFrame, rep, fill>>
       [] e.ev = "End" ->
            /\ IF dead \/ ~e.flushed THEN TRUE ELSE
                Report(l, Iff(\E g \in Groups : pos # (e.L[g] - cfg.F + 1) * cfg.fpp[g], "C03_count")
                          \cup Iff(rep < fill \/ rep > fill + PreFill, "C03_dropped"), scen)
            /\ UNCHANGED <<scen, cfg, arrived, pos, nextFrame, rep, fill, dead>>

Next == Step
Spec == Init /\ [][Next]_vars

NScen == Cardinality({i \in 1..Len(Log) : Log[i].ev = "Config"})
Consumed == /\ TLCGet("stats").diameter - 1 = Len(Log)
            /\ PrintT(<<"DONE", Len(Log), NScen>>)
=============================================================================
