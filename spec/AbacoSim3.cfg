SPECIFICATION SimSpec
CONSTANTS NGroups = 3
 Fpp <- FppEq3
 MaxSN = 14
 MaxTicks = 6
 MaxBatch = 4
 Last0s = {0, 1, 2}
 FillCountsLeftovers = FALSE
 DropCountPerTick = FALSE
 SimDepth = 25
INVARIANTS Emit
CHECK_DEADLOCK FALSE
