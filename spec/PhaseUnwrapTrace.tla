-------------------------- MODULE PhaseUnwrapTrace --------------------------
(* Trace validation for C12: the driver runs the real PhaseUnwrapper (16-bit) on whole sequences, as one call and
   split into calls, and logs
     Config  scen, frac, drop, enable, biaslevel (the constructor argument), bias (read back from the object, informative), resetafter, pulsepos, invert
     Run     split (call lengths), inp, out
   The predicates are declarative statements about (inp, out); the unwrapper's internal state is not consulted:
   offset_i = out_i - v_i, where v_i is the input after inversion / mask / bit drop.  *)
EXTENDS Integers, Sequences, FiniteSets, TLC, Json
Log == ndJsonDeserialize("trace.ndjson")
VARIABLES l, cfg, first
vars == <<l, cfg, first>>
Report(line, preds, sc) == \A p \in preds : PrintT(<<"VIOL", line, p, sc>>)
Iff(b, s) == IF b THEN {s} ELSE {}
Init == l = 1 /\ cfg = [scen |-> 0] /\ first = <<>>

M == 65536
TwoPi == 2 ^ (cfg.frac - cfg.drop)
OnePi == TwoPi \div 2
\* The configured bias: the constructor's biasLevel argument in dropped units, reduced into (-TwoPi, TwoPi) keeping its sign
\* (Go: int16(biasLevel >> drop) % int16(twoPi)).  It is computed here from the logged ARGUMENT, not read back from the
\* object, so that a constructor which derives other limits than the configured ones is noticed.
Int16(x) == LET y == ((x % M) + M) % M IN IF y >= 32768 THEN y - M ELSE y
TruncRem(a, m) == IF a >= 0 THEN a % m ELSE 0 - ((0 - a) % m)
Bias == TruncRem(Int16(cfg.biaslevel \div (2 ^ cfg.drop)), TwoPi)
Upper == Bias + OnePi
Lower == Bias - OnePi
Home == IF cfg.pulsepos THEN (TwoPi % M) ELSE ((M - ((2 * TwoPi) % M)) % M)
U(x) == (((x % M) + M) % M)
Signed(x) == IF x >= 32768 THEN x - M ELSE x
Inv(raw) == IF cfg.invert THEN 65535 - raw ELSE raw
Pre(raw) == ((Inv(raw) % (2 ^ cfg.frac)) \div (2 ^ cfg.drop))

Off(e, i) == U(e.out[i] - Pre(e.inp[i]))
RECURSIVE RunLen(_, _)
RunLen(e, i) == IF i = 0 THEN 0 ELSE IF Off(e, i) = Home THEN 0 ELSE RunLen(e, i - 1) + 1
\* run lengths are needed for every i: compute them once, left to right
RECURSIVE Runs(_, _, _)
Runs(e, i, acc) == IF i > Len(e.inp) THEN acc
                   ELSE Runs(e, i + 1, Append(acc, IF Off(e, i) = Home THEN 0 ELSE (IF i = 1 THEN 1 ELSE acc[i - 1] + 1)))

RunPreds(e) ==
  IF Len(e.out) # Len(e.inp) THEN {"C12_length"} ELSE
  IF ~cfg.enable \/ cfg.drop = 0
  THEN Iff(\E i \in 1..Len(e.inp) : e.out[i] # (IF cfg.drop = 0 THEN Inv(e.inp[i]) ELSE Pre(e.inp[i])), "C12_disabled")
  ELSE LET n == Len(e.inp)
           runs == Runs(e, 1, <<>>)
           resetDue(i) == Off(e, i) = Home /\ Off(e, i - 1) # Home /\ runs[i - 1] >= cfg.resetafter
           outstep(i) == Signed(U(e.out[i] - e.out[i - 1]))
       IN Iff(\E i \in 1..n : (Off(e, i) % TwoPi) # 0, "C12_mod")
          \cup Iff(\E i \in 2..n : ~resetDue(i) /\ (outstep(i) > Upper \/ outstep(i) < Lower), "C12_step_range")
          \cup Iff(\E i \in 1..n : runs[i] > cfg.resetafter + 1, "C12_reset")

Step ==
  /\ l <= Len(Log)
  /\ l' = l + 1
  /\ LET e == Log[l] IN
     CASE e.ev = "Config" -> cfg' = e /\ first' = <<>>
       [] e.ev = "Run" ->
            /\ Report(l, RunPreds(e) \cup Iff(first # <<>> /\ e.out # first[1], "C12_split"), cfg.scen)
            /\ first' = IF first = <<>> THEN <<e.out>> ELSE first
            /\ UNCHANGED cfg
       [] e.ev = "Panic" -> Report(l, {"C12_nocrash"}, cfg.scen) /\ UNCHANGED <<cfg, first>>
Next == Step
Spec == Init /\ [][Next]_vars
NScen == Cardinality({i \in 1..Len(Log) : Log[i].ev = "Config"})
Consumed == /\ TLCGet("stats").diameter - 1 = Len(Log)
            /\ PrintT(<<"DONE", Len(Log), NScen>>)
=============================================================================
