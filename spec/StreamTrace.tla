----------------------------- MODULE StreamTrace -----------------------------
(* Trace validation for C01 / C02 / C09 (and the record-level part of C08): a recorded execution of the real
   trigger pipeline (harness/root/stream_test.go: blocks in, control requests, records out, primary lists
   per cycle) judged by the *declarative* property layer:
     truth[c]   all samples delivered to channel c so far (ground truth, from the Block events)
     trig[c]    trigger settings in force, epoch[c] the stream position where they took effect
     prims[c]   primary trigger positions emitted in the current epoch
     conn       the set of group-trigger connections computed set-theoretically from the requests
   Nothing here is transcribed from the triggering code: criteria are the documented definitions.   *)
EXTENDS Integers, Sequences, FiniteSets, TLC, Json

Log == ndJsonDeserialize("trace.ndjson")

VARIABLES l, cfg, npre, nsamp, trig, truth, epoch, aepoch, oldcov, mxpre, prims, checked, conn, cyc, everConn, runA, runB,
          blocks   \* blocks delivered so far in this run: [first, n, ts] (ts = time stamp of the block's first sample, ns)
vars == <<l, cfg, npre, nsamp, trig, truth, epoch, aepoch, oldcov, mxpre, prims, checked, conn, cyc, everConn, runA, runB, blocks>>

Init == /\ blocks = <<>> /\ l = 1 /\ cfg = [scen |-> 0, nchan |-> 0, run |-> "B"] /\ npre = 0 /\ nsamp = 0 /\ trig = <<>> /\ truth = <<>>
        /\ epoch = <<>> /\ aepoch = <<>> /\ oldcov = <<>> /\ mxpre = 0 /\ prims = <<>> /\ checked = <<>> /\ conn = {} /\ cyc = <<>> /\ everConn = FALSE
        /\ runA = <<>> /\ runB = <<>>

Report(preds) == \A p \in preds : PrintT(<<"VIOL", l, p[1], cfg.scen, p[2]>>)
When(c, n) == IF c THEN {<<n, "">>} ELSE {}
WhenD(c, n, d) == IF c THEN {<<n, d>>} ELSE {}
Max(a, b) == IF a > b THEN a ELSE b
Min(a, b) == IF a < b THEN a ELSE b
Chans == 0..(cfg.nchan - 1)

\* ---------------------------------------------------------------- criteria (documented definitions)
Sh(v) == IF cfg.signed THEN (v + 32768) % 65536 ELSE v
X(c, p) == Sh(truth[c + 1][p + 1])                       \* sample at 0-based position p, sign-shifted
EdgeCrit(c, p) == /\ p >= 3 /\ p < Len(truth[c + 1])
                  /\ LET d == X(c, p) + X(c, p - 1) - X(c, p - 2) - X(c, p - 3) t == trig[c + 1] IN
                     \/ (t.edgerising /\ d >= t.edgelevel)
                     \/ (t.edgefalling /\ d <= 0 - t.edgelevel)
LevelCrit(c, p) == /\ p >= 1 /\ p < Len(truth[c + 1])
                   /\ LET th == Sh(trig[c + 1].levellevel) IN
                      IF trig[c + 1].levelrising THEN X(c, p) >= th /\ X(c, p - 1) < th
                      ELSE X(c, p) <= th /\ X(c, p - 1) > th
Plain(c) == ~trig[c + 1].em
Sound(c, p) == \/ ~Plain(c)
               \/ trig[c + 1].auto
               \/ (trig[c + 1].edge /\ EdgeCrit(c, p))
               \/ (trig[c + 1].level /\ LevelCrit(c, p))
\* oldcov: triggers emitted before a change of the record lengths, each with the longer of the two record lengths (the
\* statement does not say which length the dead time of such a trigger has: either is accepted)
Covered(c, p) == \/ p \in prims[c + 1] \/ \E t \in prims[c + 1] : t < p /\ p <= t + nsamp
                 \/ \E x \in oldcov[c + 1] : x[1] <= p /\ p <= x[1] + x[2]
Near(c, p) == \/ \E t \in prims[c + 1] : t - nsamp <= p /\ p <= t + nsamp
              \/ \E x \in oldcov[c + 1] : x[1] - x[2] <= p /\ p <= x[1] + x[2]
AutoD(c) == Max(trig[c + 1].autodelay, nsamp)

\* positions newly decided at the end of this cycle: everything whose record and dead time lie 2 records back
Decided(c) == Len(truth[c + 1]) - 2 * nsamp
NewRange(c) == checked[c + 1]..(Decided(c) - 1)

CyclePreds(e) ==
  UNION {
    LET t == trig[c + 1] pr == e.prim[c + 1] ps == prims[c + 1] \cup {pr[i] : i \in 1..Len(pr)} IN
      \* soundness of this cycle's primaries
      WhenD(\E i \in 1..Len(pr) : ~Sound(c, pr[i]), "C02_sound", ToString(c))
      \cup WhenD(\E i \in 1..Len(pr) : pr[i] < 0 \/ pr[i] >= Len(truth[c + 1]), "C01_frame", ToString(c))
      \* one sample is the trigger of at most one primary record (a record emitted a second time is an invented one)
      \cup WhenD(Plain(c) /\ ((\E i \in 1..Len(pr) : pr[i] \in prims[c + 1]) \/ (\E i, j \in 1..Len(pr) : i < j /\ pr[i] = pr[j])),
                 "C02_no_duplicate", ToString(c))
      \* edge-only: no overlapping records between reconfigurations
      \cup WhenD(Plain(c) /\ t.edge /\ ~t.level /\ ~t.auto /\
                 (\E a, b \in ps : a < b /\ b - a < nsamp), "C02_no_overlap", ToString(c))
      \* auto, no veto: bounded gap between successive triggers, from the start of the epoch on
      \cup WhenD(Plain(c) /\ t.auto /\ t.autoveto = 0 /\
                 (\E a \in ps : \E b \in ps : a < b /\ b - a > AutoD(c) + nsamp /\ ~\E m \in ps : a < m /\ m < b),
                 "C02_auto_gap", ToString(c))
      \cup WhenD(Plain(c) /\ t.auto /\ t.autoveto = 0 /\
                 LET last == IF ps = {} THEN aepoch[c + 1] ELSE CHOOSE m \in ps : \A k \in ps : k <= m IN
                 Len(truth[c + 1]) - Max(last, aepoch[c + 1]) > AutoD(c) + 2 * nsamp + npre, "C02_auto_gap_tail", ToString(c))
    : c \in Chans }

\* From where on completeness is judged in the current epoch: one record after a reconfiguration (triggers emitted under
\* the old settings may still cast their dead time), but from the very first searchable sample when the settings have been
\* in force since the start of the stream (fresh start, or settings restored from the saved configuration): there is no
\* earlier trigger then.
\* (the one-record allowance after a reconfiguration in mid-stream is kept in oldcov as a pseudo-trigger at the position
\* of the reconfiguration, so that a later change of the record lengths cannot shorten it)
JudgeFrom(c) == 0
\* completeness is judged with prims' (this cycle's primaries included)
CompletePreds ==
  UNION {
    LET t == trig[c + 1] IN
      WhenD(Plain(c) /\ t.edge /\ (\E p \in NewRange(c) : p >= JudgeFrom(c) /\ p >= mxpre /\ EdgeCrit(c, p)' /\ ~Covered(c, p)'),
            "C02_edge_complete", ToString(c))
      \cup WhenD(Plain(c) /\ t.level /\ (\E p \in NewRange(c) : p >= JudgeFrom(c) /\ p >= mxpre /\ LevelCrit(c, p)' /\ ~Near(c, p)'),
            "C02_level_complete", ToString(c))
    : c \in Chans }

Count(s, x) == Cardinality({i \in 1..Len(s) : s[i] = x})
BagPreds(e) ==
  UNION {
    LET recs == cyc[c + 1]
        srcs == {s \in Chans : <<s, c>> \in conn}
        frames == {recs[i] : i \in 1..Len(recs)} \cup {e.prim[c + 1][i] : i \in 1..Len(e.prim[c + 1])}
                  \cup UNION {{e.prim[s + 1][i] : i \in 1..Len(e.prim[s + 1])} : s \in srcs}
        want(f) == Count(e.prim[c + 1], f)
        wantSec(f) == LET RECURSIVE Sum(_) Sum(S) == IF S = {} THEN 0 ELSE LET s == CHOOSE x \in S : TRUE IN Count(e.prim[s + 1], f) + Sum(S \ {s}) IN Sum(srcs)
    IN WhenD(\E f \in frames : Count(recs, f) # want(f) + wantSec(f), "C09_secondaries", ToString(c))
    : c \in Chans }

RecPreds(e) ==
  LET c == e.c  start == e.f - e.npre  em == trig[c + 1].em  varlen == em /\ trig[c + 1].emmode = 1 IN
    When(Len(e.s) # e.n, "C01_len")
    \cup When(~em /\ (e.n # nsamp \/ e.npre # npre), "C01_len")
    \cup When(em /\ ~varlen /\ (e.n # nsamp \/ e.npre # npre), "C08_full_length")
    \cup When(varlen /\ (e.n > nsamp \/ e.npre > npre \/ e.n < 1 \/ e.npre < 0), "C01_len")
    \cup When(start < 0 \/ start + e.n > Len(truth[c + 1]), "C01_frame")
    \cup When(start >= 0 /\ start + e.n <= Len(truth[c + 1]) /\ e.s # SubSeq(truth[c + 1], start + 1, start + e.n), "C01_excerpt")
    \* the time the block stamps assign to the trigger sample: extrapolated at the nominal period from the stamp of the block
    \* that delivered the sample, or from the stamp of the block being processed when the record was cut (the latest one)
    \cup When(blocks = <<>> \/ ~\E k \in 1..Len(blocks) :
                 /\ (k = Len(blocks) \/ (blocks[k].first <= e.f /\ e.f < blocks[k].first + blocks[k].n))
                 /\ e.t = blocks[k].ts + (e.f - blocks[k].first) * cfg.period, "C01_time")
    \cup When(e.signed # cfg.signed, "C01_label")

\* connection edits as a set
InRange(x) == x >= 0 /\ x < cfg.nchan
ConnAfter(e) == IF e.op = "stop" THEN {}
                ELSE IF ~InRange(e.s) \/ ~InRange(e.r) \/ e.s = e.r THEN conn
                ELSE IF e.op = "add" THEN conn \cup {<<e.s, e.r>>} ELSE conn \ {<<e.s, e.r>>}
RepSet(e) == {<<e.rep[i][1], e.rep[i][2]>> : i \in 1..Len(e.rep)}

\* C08: run A (one block) and run B (partitioned) must give the same records; per-channel order / disjointness
RecTuple(e) == <<e.c, e.f, e.npre, e.n, e.s>>
ChanRecs(run, c) == SelectSeq(run, LAMBDA r : r[1] = c)
EMPreds(run) ==
  UNION {
    LET rs == ChanRecs(run, c) IN
      WhenD(\E i \in 1..(Len(rs) - 1) : rs[i][2] >= rs[i + 1][2], "C08_increasing", ToString(c))
      \cup WhenD(trig[c + 1].em /\ trig[c + 1].emmode = 1 /\
                 (\E i \in 1..(Len(rs) - 1) : rs[i][2] - rs[i][3] + rs[i][4] > rs[i + 1][2] - rs[i + 1][3]
                                              \/ rs[i][2] - rs[i][3] + rs[i][4] > rs[i + 1][2]), "C08_var_disjoint", ToString(c))
    : c \in {c \in Chans : trig[c + 1].em} }

AnyEM == \E c \in Chans : trig[c + 1].em

Step ==
  /\ l <= Len(Log) /\ l' = l + 1
  /\ blocks' = (IF Log[l].ev = "Config" THEN <<>>
                ELSE IF Log[l].ev = "Block" THEN Append(blocks, [first |-> Log[l].first, n |-> Log[l].n, ts |-> Log[l].ts]) ELSE blocks)
  /\ LET e == Log[l] IN
     CASE e.ev = "Config" ->
            /\ cfg' = e /\ npre' = e.npre /\ nsamp' = e.nsamp /\ trig' = e.trig
            /\ truth' = [c \in 1..e.nchan |-> <<>>] /\ epoch' = [c \in 1..e.nchan |-> 0] /\ aepoch' = [c \in 1..e.nchan |-> 0]
            /\ oldcov' = [c \in 1..e.nchan |-> {}] /\ mxpre' = e.npre
            /\ prims' = [c \in 1..e.nchan |-> {}] /\ checked' = [c \in 1..e.nchan |-> 0]
            /\ conn' = {} /\ cyc' = [c \in 1..e.nchan |-> <<>>] /\ everConn' = FALSE
            /\ runA' = IF e.run = "A" THEN <<>> ELSE runA
            /\ runB' = <<>>
       [] e.ev = "Trig" ->
            /\ trig' = [c \in 1..cfg.nchan |-> IF e.ok /\ \E i \in 1..Len(e.chans) : e.chans[i] = c - 1 THEN e.t ELSE trig[c]]
            /\ epoch' = [c \in 1..cfg.nchan |-> IF e.ok /\ \E i \in 1..Len(e.chans) : e.chans[i] = c - 1 THEN Len(truth[c]) ELSE epoch[c]]
            /\ aepoch' = [c \in 1..cfg.nchan |-> IF e.ok /\ \E i \in 1..Len(e.chans) : e.chans[i] = c - 1 THEN Len(truth[c]) ELSE aepoch[c]]
            /\ oldcov' = [c \in 1..cfg.nchan |-> IF e.ok /\ Len(truth[c]) > 0 /\ \E i \in 1..Len(e.chans) : e.chans[i] = c - 1
                                                 THEN oldcov[c] \cup {<<Len(truth[c]), nsamp>>} ELSE oldcov[c]]
            /\ UNCHANGED mxpre
            /\ prims' = [c \in 1..cfg.nchan |-> IF e.ok /\ \E i \in 1..Len(e.chans) : e.chans[i] = c - 1 THEN {} ELSE prims[c]]
            /\ UNCHANGED <<cfg, npre, nsamp, truth, checked, conn, cyc, everConn, runA, runB>>
       [] e.ev = "Len" ->
            /\ npre' = IF e.ok THEN e.npre ELSE npre
            /\ nsamp' = IF e.ok THEN e.nsamp ELSE nsamp
            /\ LET changed == e.ok /\ (e.npre # npre \/ e.nsamp # nsamp) IN
               \* a change of the record lengths is not an excuse for losing a pulse: the trigger-settings epoch (from which
               \* completeness is judged) stays; the triggers emitted so far keep a dead time of the longer record length
               /\ UNCHANGED epoch
               \* the first samples of the stream were searched (and passed over) with the pre-trigger length of their time
               /\ mxpre' = IF e.ok THEN Max(mxpre, e.npre) ELSE mxpre
               /\ aepoch' = [c \in 1..cfg.nchan |-> IF changed THEN Len(truth[c]) + Max(nsamp, e.nsamp) ELSE aepoch[c]]
               /\ oldcov' = [c \in 1..cfg.nchan |-> IF changed THEN oldcov[c] \cup {<<t, Max(nsamp, e.nsamp)>> : t \in prims[c]} ELSE oldcov[c]]
               /\ prims' = [c \in 1..cfg.nchan |-> IF changed THEN {} ELSE prims[c]]
               \* a change of the record lengths restarts the edge-multi search on the retained history (edges recorded
               \* with the old lengths may be recorded again with the new ones): order and disjointness of the record
               \* sequence are statements about the records BETWEEN reconfigurations, judged here and started afresh
               /\ IF changed /\ AnyEM THEN Report(EMPreds(IF cfg.run = "A" THEN runA ELSE runB)) ELSE TRUE
               /\ runA' = IF changed /\ cfg.run = "A" THEN <<>> ELSE runA
               /\ runB' = IF changed /\ cfg.run = "B" THEN <<>> ELSE runB
            /\ UNCHANGED <<cfg, trig, truth, checked, conn, cyc, everConn>>
       [] e.ev = "Conn" ->
            /\ Report(When(RepSet(e) # ConnAfter(e), "C09_set")
                      \cup When(Len(e.rep) # Cardinality(RepSet(e)), "C09_reported"))
            /\ conn' = ConnAfter(e) /\ everConn' = TRUE
            /\ UNCHANGED <<cfg, npre, nsamp, trig, truth, epoch, aepoch, oldcov, mxpre, prims, checked, cyc, runA, runB>>
       [] e.ev = "Block" ->
            /\ truth' = [c \in 1..cfg.nchan |-> truth[c] \o e.d[c]]
            /\ cyc' = [c \in 1..cfg.nchan |-> <<>>]
            /\ UNCHANGED <<cfg, npre, nsamp, trig, epoch, aepoch, oldcov, mxpre, prims, checked, conn, everConn, runA, runB>>
       [] e.ev = "Rec" ->
            /\ Report(RecPreds(e))
            /\ cyc' = [cyc EXCEPT ![e.c + 1] = Append(cyc[e.c + 1], e.f)]
            /\ runA' = IF cfg.run = "A" THEN Append(runA, RecTuple(e)) ELSE runA
            /\ runB' = IF cfg.run = "B" THEN Append(runB, RecTuple(e)) ELSE runB
            /\ UNCHANGED <<cfg, npre, nsamp, trig, truth, epoch, aepoch, oldcov, mxpre, prims, checked, conn, everConn>>
       [] e.ev = "Cycle" ->
            /\ prims' = [c \in 1..cfg.nchan |-> prims[c] \cup {e.prim[c][i] : i \in 1..Len(e.prim[c])}]
            /\ checked' = [c \in 1..cfg.nchan |-> Max(checked[c], Decided(c - 1))]
            /\ UNCHANGED <<cfg, npre, nsamp, trig, truth, epoch, aepoch, oldcov, mxpre, conn, cyc, everConn, runA, runB>>
            /\ Report(CyclePreds(e) \cup (IF e.crashed THEN {} ELSE BagPreds(e)) \cup CompletePreds)
       [] e.ev = "Panic" ->
            /\ Report({<<"C01_nocrash", e.where>>} \cup WhenD(AnyEM, "C08_nocrash", e.where) \cup WhenD(everConn, "C09_nocrash", e.where))
            /\ UNCHANGED <<cfg, npre, nsamp, trig, truth, epoch, aepoch, oldcov, mxpre, prims, checked, conn, cyc, everConn, runA, runB>>
       [] e.ev = "EMDrop" ->
            \* edge-multi across data drops (frame numbers jump between blocks): only crash-freedom is demanded (C08)
            /\ Report(WhenD(e.panic # "", "C08_nocrash", "data drop") \cup WhenD(e.panic # "", "C01_nocrash", "data drop"))
            /\ UNCHANGED <<cfg, npre, nsamp, trig, truth, epoch, aepoch, oldcov, mxpre, prims, checked, conn, cyc, everConn, runA, runB>>
       [] e.ev = "End" ->
            /\ Report((IF AnyEM THEN EMPreds(IF e.run = "A" THEN runA ELSE runB) ELSE {})
                      \cup When(e.run = "B" /\ cfg.oneblock /\ \E c \in Chans : ChanRecs(runA, c) # ChanRecs(runB, c), "C08_independent"))
            /\ UNCHANGED <<cfg, npre, nsamp, trig, truth, epoch, aepoch, oldcov, mxpre, prims, checked, conn, cyc, everConn, runA, runB>>

Spec == Init /\ [][Step]_vars
NScen == Cardinality({i \in 1..Len(Log) : Log[i].ev = "Config"})
Consumed == TLCGet("stats").diameter - 1 = Len(Log) /\ PrintT(<<"DONE", Len(Log), NScen>>)
=============================================================================
