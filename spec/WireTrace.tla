------------------------------ MODULE WireTrace ------------------------------
(* Trace validation for C14.  One line per message built by the real code:
     Msg  kind (record | summary), via (direct | zmq), nparts, header (bytes), payload (bytes), fields (field -> its
          little-endian bytes computed independently by the driver with encoding/binary and math.Float32bits),
          signed, payload_expect (the samples / coefficients encoded independently), version, chan2 (first two bytes)  *)
EXTENDS Wire, FiniteSets, TLC, Json
Log == ndJsonDeserialize("trace.ndjson")
VARIABLES l
vars == <<l>>
Report(line, preds, sc) == \A p \in preds : PrintT(<<"VIOL", line, p, sc>>)
Iff(b, s) == IF b THEN {s} ELSE {}
Init == l = 1
Rows(T) == {T[i] : i \in 1..Len(T)}
FieldBad(e, row) == LET f == row[1] off == row[2] w == row[3] IN
   \/ f \notin DOMAIN e.fields
   \/ Len(e.header) < off + w
   \/ SubSeq(e.header, off + 1, off + w) # e.fields[f]
Preds(e) ==
  LET T == IF e.kind = "record" THEN RecordHeader ELSE SummaryHeader
      hl == IF e.kind = "record" THEN RecordHeaderLen ELSE SummaryHeaderLen IN
  Iff(e.nparts # 2, "C14_two_parts")
  \cup Iff(Len(e.header) # hl, "C14_len")
  \cup {"C14_field_" \o row[1] : row \in {r \in Rows(T) : FieldBad(e, r)}}
  \cup Iff(e.payload # e.payload_expect, "C14_payload")
  \cup Iff(e.kind = "record" /\ Len(e.header) >= 4 /\ e.header[4] # DTypeCode(e.signed), "C14_dtype")
  \cup Iff(Len(e.header) >= 3 /\ e.header[3] # 0, "C14_version")
  \cup Iff(Len(e.header) < 2 \/ SubSeq(e.header, 1, 2) # e.chan2, "C14_prefix")
Step == /\ l <= Len(Log) /\ l' = l + 1
        /\ Report(l, Preds(Log[l]), Log[l].scen)
Next == Step
Spec == Init /\ [][Next]_vars
Consumed == /\ TLCGet("stats").diameter - 1 = Len(Log)
            /\ PrintT(<<"DONE", Len(Log), Len(Log)>>)
=============================================================================
