SPECIFICATION Spec
CONSTANTS Cap = 3
 MaxBlocks = 7
 PanicLater = FALSE
 CloseInAbortOnly = FALSE
INVARIANTS C10_run_ends_clean C10_no_stuck
CHECK_DEADLOCK FALSE
