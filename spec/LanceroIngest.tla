--------------------------- MODULE LanceroIngest ---------------------------
(* Lancero ingest (C04), implementation layer: the reader goroutine of launchLanceroReader (AvailableBuffer, the
   3-frame minimum, FindFrameBits, the re-alignment branch, demultiplexing of whole frames, ReleaseBytes) and the
   frame-number / external-trigger part of distributeData, over an abstract word stream.

   A word is [f, r, c] (frame, row, column); it carries the frame bit iff r = 0 and the external-trigger flag of (f, r).
   The card delivers the physical stream with one cut of GapLen words at word offset GapAt (GapLen = 0: no loss).
   Reads: the production point advances by any step of ReadSteps (in words) before each reader tick.

   Deviation switches (TRUE = as the pinned code was):
     ExtScanByRow        the external-trigger scan reads readout word number `row` instead of (row, column 0)
     CounterIgnoresDrop  the running frame counter is not advanced by the dropped-frame estimate
     AlignAssumesOneFrame  the re-alignment branch computes dropFromEnd = frameSize - dropFromStart and panics when <= 0
   Design switch (FALSE = as the code is, also after the repairs):
     CheckEveryFrame     the reader verifies the frame-bit pattern of every frame before demultiplexing and re-aligns
                         wherever it breaks (what the property needs; the code only looks at the start of a read: F5b)
   Property layer: out (slots emitted, each a sequence of NW words), blocks, extOut and the predicates C04_*.  *)
EXTENDS Integers, Sequences, FiniteSets, TLC

CONSTANTS Cols, Rows, NFrames, ReadSteps, MaxReads, GapAts, GapLens, ExtCells,   \* the loss (GapAt, GapLen) is chosen at Init from GapAts x GapLens
          ExtScanByRow, CounterIgnoresDrop, AlignAssumesOneFrame, CheckEveryFrame

VARIABLES GapAt, GapLen, prod, rel, reads, nextFrame, prevPhys, out, blocks, extLast, extOut, crashed, act
vars == <<GapAt, GapLen, prod, rel, reads, nextFrame, prevPhys, out, blocks, extLast, extOut, crashed, act>>
NW == Cols * Rows
Word(i) == [f |-> i \div NW, r |-> (i % NW) \div Cols, c |-> i % Cols]          \* i-th physical word, 0-based
Phys == [i \in 1..(NFrames * NW) |-> Word(i - 1)]
Delivered == IF GapLen = 0 THEN Phys
             ELSE SubSeq(Phys, 1, GapAt) \o SubSeq(Phys, GapAt + GapLen + 1, Len(Phys))
FrameBit(w) == w.r = 0
Flag(w) == <<w.f, w.r>> \in ExtCells
WholeFrames == {f \in 0..(NFrames - 1) : GapLen = 0 \/ (f + 1) * NW <= GapAt \/ f * NW >= GapAt + GapLen}


Init == /\ GapAt \in GapAts /\ GapLen \in GapLens /\ (GapLen % NW # 0 \/ GapLen = 0) /\ (GapLen = 0 => GapAt = CHOOSE x \in GapAts : \A y \in GapAts : x <= y)
        /\ GapAt + GapLen <= (NFrames - 3) * NW
        /\ prod = 0 /\ rel = 0 /\ reads = 0 /\ nextFrame = 0 /\ prevPhys = 0 /\ out = <<>> /\ blocks = <<>>
        /\ extLast = FALSE /\ extOut = <<>> /\ crashed = FALSE /\ act = [a |-> "Init"]

\* ---------------------------------------------------------------- FindFrameBits on a buffer b (1-based sequence of words)
\* q: index (0-based) of the first frame-bit word that follows a word without frame bit; 0 if none
FirstStart(b) == LET S == {i \in 2..Len(b) : FrameBit(b[i]) /\ ~FrameBit(b[i - 1]) /\ \E j \in 1..(i - 1) : ~FrameBit(b[j])} IN
                 IF S = {} THEN 0 ELSE (CHOOSE i \in S : \A j \in S : i <= j) - 1
RunLen(b, q) == LET S == {k \in 0..(Len(b) - q) : \A j \in 1..k : FrameBit(b[q + j])} IN CHOOSE k \in S : \A j \in S : j <= k
NextStart(b, q, n) == LET S == {i \in (q + n + 1)..Len(b) : FrameBit(b[i]) /\ ~FrameBit(b[i - 1])} IN
                      IF S = {} THEN 0 ELSE (CHOOSE i \in S : \A j \in S : i <= j) - 1
WellFormed(b, k) == \* the k-th frame-sized slice of b (0-based k) has the frame-bit pattern of one frame
   \A j \in 1..NW : FrameBit(b[k * NW + j]) <=> (j <= Cols)

\* ---------------------------------------------------------------- one reader tick
Produce == /\ ~crashed /\ reads < MaxReads
           /\ \E s \in ReadSteps : prod' = IF prod + s > Len(Delivered) THEN Len(Delivered) ELSE prod + s
           /\ reads' = reads + 1
           /\ act' = [a |-> "Produce", to |-> prod']
           /\ UNCHANGED <<rel, nextFrame, prevPhys, out, blocks, extLast, extOut, crashed>>

\* external-trigger scan of `n` slots starting at slot index s0 of `slots`, frame numbers from `first`
RECURSIVE ExtScan(_, _, _, _, _)
ExtScan(slots, j, first, last, acc) ==
  IF j > Len(slots) * Rows THEN [acc |-> acc, last |-> last]
  ELSE LET k == (j - 1) \div Rows      \* slot
           row == (j - 1) % Rows
           w == slots[k + 1][IF ExtScanByRow THEN (IF row + 1 <= NW THEN row + 1 ELSE 1) ELSE row * Cols + 1]
           fl == Flag(w) IN
       ExtScan(slots, j + 1, first, fl, IF fl /\ ~last THEN Append(acc, (first + k) * Rows + row) ELSE acc)

Emit(b, drop) ==   \* b starts on what the reader believes is a frame boundary
  LET nfr == Len(b) \div NW
      slots == [k \in 1..nfr |-> SubSeq(b, (k - 1) * NW + 1, k * NW)]
      physNow == IF prod = 0 THEN 0 ELSE Delivered[prod].f
      est == IF drop THEN physNow - prevPhys ELSE 0
      first == nextFrame + est
      sc == ExtScan(slots, 1, first, extLast, <<>>) IN
  /\ out' = out \o slots
  /\ blocks' = Append(blocks, [first |-> first, n |-> nfr, dropped |-> est])
  /\ nextFrame' = nextFrame + nfr + (IF CounterIgnoresDrop THEN 0 ELSE est)
  /\ prevPhys' = physNow
  /\ extOut' = extOut \o sc.acc /\ extLast' = sc.last
  /\ rel' = rel + (IF drop THEN 0 ELSE 0) + nfr * NW

Tick ==
  /\ ~crashed /\ prod > rel
  /\ LET b == SubSeq(Delivered, rel + 1, prod) IN
     IF Len(b) < 3 * NW
     THEN /\ act' = [a |-> "Tick", what |-> "too-small"] /\ UNCHANGED <<prod, rel, reads, nextFrame, prevPhys, out, blocks, extLast, extOut, crashed>>
     ELSE LET q == FirstStart(b)
              n == IF q = 0 THEN (IF FrameBit(b[1]) THEN RunLen(b, 0) ELSE 0) ELSE RunLen(b, q)
              p == NextStart(b, q, n) IN
          IF n = 0 \/ p = 0 \/ n # Cols \/ (p - q) # NW
          THEN \* geometry check failed: the whole buffer is released, nothing reported
               /\ rel' = rel + Len(b) /\ act' = [a |-> "Tick", what |-> "discard"]
               /\ UNCHANGED <<prod, reads, nextFrame, prevPhys, out, blocks, extLast, extOut, crashed>>
          ELSE IF q = NW
          THEN \* aligned (as far as the reader looks)
               /\ (IF CheckEveryFrame
                   THEN LET good == CHOOSE k \in 0..(Len(b) \div NW) : (\A j \in 0..(k - 1) : WellFormed(b, j)) /\ (k = Len(b) \div NW \/ ~WellFormed(b, k)) IN
                        IF good = 0
                        THEN /\ rel' = rel + q /\ UNCHANGED <<nextFrame, prevPhys, out, blocks, extLast, extOut>>
                        ELSE Emit(SubSeq(b, 1, good * NW), FALSE)
                   ELSE Emit(b, FALSE))
               /\ act' = [a |-> "Tick", what |-> "aligned"] /\ UNCHANGED <<prod, reads, crashed>>
          ELSE \* misaligned start: drop up to the first frame start
               IF AlignAssumesOneFrame /\ NW - q <= 0
               THEN /\ crashed' = TRUE /\ act' = [a |-> "Tick", what |-> "panic"]
                    /\ UNCHANGED <<prod, rel, reads, nextFrame, prevPhys, out, blocks, extLast, extOut>>
               ELSE LET tail == IF AlignAssumesOneFrame THEN NW - q ELSE (Len(b) - q) % NW
                        b2 == SubSeq(b, q + 1, Len(b) - tail)
                        nfr == Len(b2) \div NW
                        slots == [k \in 1..nfr |-> SubSeq(b2, (k - 1) * NW + 1, k * NW)]
                        physNow == Delivered[prod].f
                        est == physNow - prevPhys
                        first == nextFrame + est
                        sc == ExtScan(slots, 1, first, extLast, <<>>) IN
                    /\ out' = out \o slots
                    /\ blocks' = Append(blocks, [first |-> first, n |-> nfr, dropped |-> est])
                    /\ nextFrame' = nextFrame + nfr + (IF CounterIgnoresDrop THEN 0 ELSE est)
                    /\ prevPhys' = physNow /\ extOut' = extOut \o sc.acc /\ extLast' = sc.last
                    /\ rel' = rel + q + nfr * NW
                    /\ act' = [a |-> "Tick", what |-> "realigned"] /\ UNCHANGED <<prod, reads, crashed>>

Next == (Produce \/ Tick) /\ UNCHANGED <<GapAt, GapLen>>
Spec == Init /\ [][Next]_vars

\* ---------------------------------------------------------------- property layer
\* What a perfect reader of the frame bits would emit: scan the delivered words; a frame is Cols words with the frame
\* bit followed by NW - Cols words without it; anything else is skipped up to the next such pattern.  (A frame glued
\* from two by the loss, with the pattern intact, is well-formed as far as the stream shows: no reader can tell.)
PatternAt(d, i) == i + NW - 1 <= Len(d) /\ \A j \in 1..NW : FrameBit(d[i + j - 1]) <=> (j <= Cols)
RECURSIVE Apparent(_, _, _)
Apparent(d, i, acc) == IF i + NW - 1 > Len(d) THEN acc
                       ELSE IF PatternAt(d, i) THEN Apparent(d, i + NW, Append(acc, SubSeq(d, i, i + NW - 1)))
                       ELSE Apparent(d, i + 1, acc)
Reference == Apparent(Delivered, 1, <<>>)
\* every slot emitted is, in order, the next apparent frame: nothing misaligned, skipped, repeated or invented
C04_follows == Len(out) <= Len(Reference) /\ \A k \in 1..Len(out) : out[k] = Reference[k]
C04_monotone == \A k \in 1..(Len(blocks) - 1) : blocks[k + 1].first >= blocks[k].first + blocks[k].n
C04_nocrash == ~crashed
\* external triggers: one count per rising edge of the flag over the emitted (slot, row) sequence
RECURSIVE Edges(_, _, _, _)
Edges(k, row, last, acc) ==
  IF k > Len(out) THEN acc
  ELSE LET fl == Flag(out[k][row * Cols + 1])
       IN Edges(IF row = Rows - 1 THEN k + 1 ELSE k, IF row = Rows - 1 THEN 0 ELSE row + 1, fl, acc + (IF fl /\ ~last THEN 1 ELSE 0))
C04_ext_count == ~crashed => Len(extOut) = Edges(1, 0, FALSE, 0)
NoGapContiguous == GapLen = 0 => \A k \in 1..Len(blocks) : blocks[k].dropped = 0

View == <<GapAt, GapLen, prod, rel, reads, nextFrame, prevPhys, out, blocks, extLast, extOut, crashed>>
Ext1 == {<<1, 1>>, <<1, 2>>, <<3, 0>>}
Ext2 == {<<2, 1>>, <<4, 0>>, <<4, 1>>}
NoExt == {}
=============================================================================
