SPECIFICATION Spec
CONSTANTS NGroups = 2
 Fpp <- FppEq1
 MaxSN = 6
 MaxTicks = 4
 MaxBatch = 3
 Last0s = {0}
 FillCountsLeftovers = FALSE
 DropCountPerTick = TRUE
INVARIANTS C03_dropped
VIEW View
CHECK_DEADLOCK FALSE
