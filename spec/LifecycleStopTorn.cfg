SPECIFICATION Spec
CONSTANTS Stoppers = {"s1", "s2"}
 Clients = {"c1"}
 ProducerKind = "simple"
 MaxBlocks = 2
 MaxRuns = 3
 StartMayFail = {"sample", "prepare"}
 RPCLayer = TRUE
 StaleFlag = FALSE
 DoubleSend = FALSE
 SharedWaitGroup = FALSE
 Replayable = FALSE
 WriteClients = {"c1"}
 WritingOutlivesRun = FALSE
 StopCheckThenAct = TRUE
 MaxPolls = 1
 PollOnce = FALSE
INVARIANTS C10_start_only_inactive C10_active_after_start C10_after_stops C10_writing_stopped C10_failed_start_clean C10_nopanic C10_no_stuck_stop C11_no_stuck_request
CHECK_DEADLOCK FALSE
