---------------------------- MODULE EdgeMultiSim ----------------------------
(* Behaviour generator for C08 (tlc -simulate): EdgeMulti's actions plus a history of delivered blocks. *)
EXTENDS EdgeMulti, Json
CONSTANT SimDepth
VARIABLE hist
SimInit == Init /\ hist = <<>>
SimNext == \/ (Next /\ hist' = Append(hist, act'))
           \/ (~ENABLED Next /\ UNCHANGED vars /\ hist' = Append(hist, [a |-> "Idle"]))   \* pad: every trace reaches SimDepth
SimSpec == SimInit /\ [][SimNext]_<<vars, hist>>
Emit == Len(hist) < SimDepth \/
        PrintT(<<"SCEN", ToJson([npre |-> NPre, nsamp |-> NSamp, thr |-> Threshold, nmono |-> NMono, mode |-> Mode, steps |-> hist])>>)
=============================================================================
