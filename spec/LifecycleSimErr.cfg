SPECIFICATION SimSpec
CONSTANTS Stoppers = {"s1", "s2"}
 Clients = {"c1", "c2"}
 ProducerKind = "erroring"
 MaxBlocks = 3
 MaxRuns = 3
 StartMayFail = {"prepare"}
 RPCLayer = TRUE
 StaleFlag = FALSE
 DoubleSend = FALSE
 SharedWaitGroup = FALSE
 Replayable = TRUE
 WriteClients = {"c1"}
 WritingOutlivesRun = FALSE
 StopCheckThenAct = FALSE
 MaxPolls = 1
 PollOnce = FALSE
 SimDepth = 40
INVARIANTS Emit
CHECK_DEADLOCK FALSE
