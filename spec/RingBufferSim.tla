--------------------------- MODULE RingBufferSim ---------------------------
(* Behaviour generator for C18: RingBuffer's actions plus a history variable, emitted as JSON when the
   behaviour reaches SimDepth (run with tlc -simulate).  The Go driver replays each emitted history on
   the real ring buffer. *)
EXTENDS RingBuffer, Json
CONSTANT SimDepth
VARIABLE hist
SimInit == Init /\ hist = <<act>>          \* the first entry is the Create call (with the first capacity)
SimNext == Next /\ hist' = Append(hist, act')
SimSpec == SimInit /\ [][SimNext]_<<vars, hist>>
Emit == Len(hist) < SimDepth \/ PrintT(<<"SCEN", ToJson([cap |-> hist[1].cap, ops |-> Tail(hist)])>>)
=============================================================================
