SPECIFICATION Spec
CONSTANTS Cap = 2
 MaxBlocks = 3
 MaxRuns = 3
 Clients = {"m1", "m2", "m3"}
 BadArgs = {"m2"}
 MixDepth = 1
 MixAnyTime = FALSE
 UncheckedLengths = FALSE
 SilencePanics = FALSE
 MaxFails = 1
 FailedStartStuck = FALSE
INVARIANTS TypeOK C10_failed_start_clean C10_run_ends_clean C10_no_stuck C11_mix_answered C11_no_crash MixServedWhileRunning
CHECK_DEADLOCK FALSE
