SPECIFICATION Spec
CONSTANTS Cap = 2
 MaxBlocks = 2
 MaxRuns = 2
 Clients = {"m1", "m2"}
 BadArgs = {"m2"}
 MixDepth = 2
 MixAnyTime = FALSE
 UncheckedLengths = FALSE
 SilencePanics = FALSE
 MaxFails = 1
 FailedStartStuck = FALSE
INVARIANTS TypeOK C10_failed_start_clean C10_run_ends_clean C10_no_stuck C11_mix_answered C11_no_crash MixServedWhileRunning
CHECK_DEADLOCK FALSE
