SPECIFICATION Spec
CONSTANTS Cols = 2
 Rows = 2
 NFrames = 10
 ReadSteps = {0, 5, 12, 17, 40}
 MaxReads = 4
 GapAts = {12, 13, 14, 15, 16, 17, 18, 19, 20, 21}
 GapLens = {0, 1, 2, 3, 5, 6, 7}
 ExtCells <- NoExt
 ExtScanByRow = FALSE
 CounterIgnoresDrop = FALSE
 AlignAssumesOneFrame = FALSE
 CheckEveryFrame = TRUE
INVARIANTS C04_follows C04_monotone C04_nocrash
VIEW View
CHECK_DEADLOCK FALSE
