SPECIFICATION Spec
CONSTANTS
  NChan = 2
  MaxPackets = 6
  MaxNsamp = 2
  MaxLoss = 2
  FirstPacketOnly = TRUE
INVARIANTS TypeOK Demux SameLength FrameTruth LossReported
CHECK_DEADLOCK FALSE
