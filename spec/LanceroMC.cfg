SPECIFICATION Spec
CONSTANTS Cols = 2
 Rows = 2
 NFrames = 9
 ReadSteps = {0, 3, 5, 10, 12, 17}
 MaxReads = 5
 GapAts = {0}
 GapLens = {0}
 ExtCells <- Ext1
 ExtScanByRow = FALSE
 CounterIgnoresDrop = FALSE
 AlignAssumesOneFrame = FALSE
 CheckEveryFrame = FALSE
INVARIANTS C04_follows C04_monotone C04_nocrash C04_ext_count NoGapContiguous
VIEW View
CHECK_DEADLOCK FALSE
