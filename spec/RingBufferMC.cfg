SPECIFICATION Spec
CONSTANTS Caps = {2, 4, 5, 8}
 MaxN = 9
 MaxTotal = 40
 DiscardRewinds = FALSE
 MaxCreates = 2
 CreateKeepsPointers = FALSE
INVARIANTS NoBad Bounded Holds Ghost
VIEW View
CHECK_DEADLOCK FALSE
