------------------------------- MODULE Stream -------------------------------
(* One channel's trigger pipeline across block edges (C01, C02): DataStream.AppendSegment,
   edgeTriggerComputeAppend / firstPotentialTriggerFrame, TriggerData (LastTrigger), TrimStream.

   Implementation layer: buf/bufFirst (retained stream), lastTrig, keepN (how much history TrimStream keeps:
   a function of the control history -- KeepFresh after a fresh start with restored settings, KeepConf after
   ConfigureTriggers/ConfigurePulseLengths; both are MEASURED from the built code by the harness and passed
   in), one Deliver action per block = append + scan + cut records + trim; Reconfigure = ConfigureTriggers.
   Property layer: truth (every sample delivered), trigs/recs (what was emitted) and the C01/C02 predicates.
   Signals are staircases with at most MaxSteps unit steps at arbitrary positions (one edge-criterion sample
   per step at EdgeLevel 2), so every alignment of a pulse with a block edge is enumerated.            *)
EXTENDS Integers, Sequences, FiniteSets, TLC

CONSTANTS NPre, NSamp, MaxLen, BlockSizes, EdgeLevel, MaxSteps,
          KeepFresh,     \* samples kept by TrimStream after a fresh start with restored trigger settings
          KeepConf,      \* samples kept after a (re)configuration
          Starts,        \* subset of {"restored", "configured"}: control histories explored
          MaxReconf      \* ConfigureTriggers requests allowed in the middle of the stream

VARIABLES truth, buf, bufFirst, lastTrig, trigs, recs, keepN, level, stepsLeft, epoch, nreconf, act
vars == <<truth, buf, bufFirst, lastTrig, trigs, recs, keepN, level, stepsLeft, epoch, nreconf, act>>

Far == -100000
Init == /\ truth = <<>> /\ buf = <<>> /\ bufFirst = 0 /\ lastTrig = Far /\ trigs = {} /\ recs = {}
        /\ \E s \in Starts : /\ keepN = IF s = "restored" THEN KeepFresh ELSE KeepConf
                             /\ act = [a |-> "Start", how |-> s]
        /\ level = 0 /\ stepsLeft = MaxSteps /\ epoch = 0 /\ nreconf = 0

Max2(a, b) == IF a > b THEN a ELSE b
At(s, i) == s[i + 1]                                   \* Go-style 0-based indexing
Places(b, k) == {{}} \cup (IF k >= 1 THEN {{p} : p \in 1..b} ELSE {})
                     \cup (IF k >= 2 THEN {{p, q} : p \in 1..b, q \in 1..b} ELSE {})
RECURSIVE Gen(_, _, _, _)
Gen(b, S, lv, i) == IF i > b THEN <<>> ELSE LET nl == IF i \in S THEN lv + 1 ELSE lv IN <<nl>> \o Gen(b, S, nl, i + 1)

\* ---------------------------------------------------------------- implementation layer
EdgeAt(s, i) == At(s, i) + At(s, i - 1) - At(s, i - 2) - At(s, i - 3) >= EdgeLevel
FirstPot(b0) == LET n == (lastTrig - b0) + NSamp IN IF n < NPre THEN NPre ELSE n
RECURSIVE Scan(_, _, _)
Scan(s, i, hi) == IF i >= hi THEN {} ELSE
                  IF EdgeAt(s, i) THEN {i} \cup Scan(s, i + NSamp + 1, hi) ELSE Scan(s, i + 1, hi)

Deliver == \E b \in BlockSizes : \E S \in Places(b, stepsLeft) :
   /\ Len(truth) + b <= MaxLen
   /\ LET blk == Gen(b, S, level, 1)
          s == buf \o blk
          nd == Len(s)
          found == Scan(s, FirstPot(bufFirst), nd + NPre - NSamp)
          frames == {bufFirst + i : i \in found}
          drop == Max2(0, nd - keepN)
      IN /\ truth' = truth \o blk
         /\ trigs' = trigs \cup frames
         /\ recs' = recs \cup {[f |-> bufFirst + i, s |-> SubSeq(s, i - NPre + 1, i - NPre + NSamp)] : i \in found}
         /\ lastTrig' = IF frames = {} THEN lastTrig ELSE CHOOSE f \in frames : \A g \in frames : g <= f
         /\ buf' = SubSeq(s, drop + 1, nd)
         /\ bufFirst' = bufFirst + drop
         /\ level' = blk[b]
         /\ stepsLeft' = stepsLeft - Cardinality(S)
         /\ act' = [a |-> "Block", n |-> b, steps |-> S]
         /\ UNCHANGED <<keepN, epoch, nreconf>>

\* ConfigureTriggers with the same settings: LastTrigger := 0 (an absolute frame!), history rule := configured
Reconfigure == /\ nreconf < MaxReconf /\ Len(truth) > 0
               /\ lastTrig' = 0 /\ keepN' = KeepConf /\ epoch' = Len(truth) /\ nreconf' = nreconf + 1
               /\ act' = [a |-> "Reconfigure"]
               /\ UNCHANGED <<truth, buf, bufFirst, trigs, recs, level, stepsLeft>>

Next == Deliver \/ Reconfigure
Spec == Init /\ [][Next]_vars

\* ---------------------------------------------------------------- property layer
Crit(i) == i >= 3 /\ i < Len(truth) /\ EdgeAt(truth, i)
Decided(i) == i >= NPre /\ i >= epoch + NSamp /\ i + 2 * NSamp <= Len(truth)
EpochTrigs == {t \in trigs : t >= epoch - NSamp}
C02_edge_complete == \A i \in 0..(Len(truth) - 1) : (Crit(i) /\ Decided(i)) =>
                        (i \in trigs \/ \E t \in trigs : t < i /\ i <= t + NSamp)
C02_sound == \A t \in trigs : Crit(t)
C02_no_overlap == \A a, c \in trigs : (a < c /\ a >= epoch /\ c >= epoch) => c - a >= NSamp
C01_excerpt == \A r \in recs : r.s = SubSeq(truth, r.f - NPre + 1, r.f - NPre + NSamp)
C01_frame == \A r \in recs : r.f - NPre >= 0 /\ r.f - NPre + NSamp <= Len(truth)

\* decided prefix of truth/trigs cannot influence the future: drop it from the fingerprint
View == <<buf, bufFirst, lastTrig, keepN, level, stepsLeft, epoch, nreconf, Len(truth),
          {t \in trigs : t + 3 * NSamp > Len(truth) /\ t >= epoch - NSamp},
          {i \in 0..(Len(truth) - 1) : Crit(i) /\ i >= NPre /\ i >= epoch + NSamp /\ ~(i \in trigs \/ \E t \in trigs : t < i /\ i <= t + NSamp)}>>
=============================================================================
