SPECIFICATION Spec
CONSTANTS Persistent = {"STATUS", "TRIGGER"}
 NoSave = {"ALIVE"}
 Transient = {"NEWDASTARD"}
 Values = {1, 2}
 MaxPub = 2
 MaxSaves = 2
 MaxCrashes = 2
 SaveMovesMain = TRUE
 InitialMain = {"empty", "conf0"}
INVARIANTS C16_sendall C16_saved C16_crash C16_exists
VIEW View
CHECK_DEADLOCK FALSE
