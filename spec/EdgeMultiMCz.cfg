SPECIFICATION Spec
CONSTANTS NPre = 4
 NSamp = 8
 Threshold = 5
 NMono = 1
 Mode = "var"
 MaxLen = 56
 BlockSizes = {1, 8, 9, 25}
 MaxEdges = 2
 KeepN = 26
 ZFirst <- ZM1
 ZAll = 1
 FirstSampleGuard = TRUE
 PairWindow = 1000
INVARIANTS C08_increasing C08_full_length C08_var_disjoint C08_index C08_independent
VIEW View
CHECK_DEADLOCK FALSE
