SPECIFICATION SimSpec
CONSTANTS NPre = 4
 NSamp = 9
 Threshold = 5
 NMono = 1
 Mode = "iso"
 MaxLen = 120
 BlockSizes = {1, 2, 8, 9, 10, 19, 28}
 MaxEdges = 6
 KeepN = 28
 ZFirst = 0
 ZAll = 0
 FirstSampleGuard = TRUE
 PairWindow = 14
 SimDepth = 40
INVARIANTS Emit
CHECK_DEADLOCK FALSE
