---------------------------- MODULE AbacoIngest ----------------------------
(* Abaco packet ingest (C03): abaco.go AbacoGroup / AbacoSource.readerMainLoop / distributeData.

   Packets are abstract: [sn, fake].  A group's sender emits sequence numbers 1, 2, 3 ... (global
   numbering, i.e. after the per-group seqnumsync offset has been subtracted); any of them may be lost;
   the survivors arrive in order, batched into read ticks in any way (empty ticks, one group lagging).

   Implementation layer (one action per step of one reader tick):
     Arrive(g)   - ReadAllPackets + distributePackets for one group: the survivors among the next k
                   sequence numbers are appended to the group's queue.
     Process     - the rest of the ticker arm: fillMissingPackets per group in *map order* until a group
                   with an empty queue is met (then the tick is abandoned); first-sn alignment
                   (trimPacketsBefore); min-over-groups frame count; demuxData (whole packets only, panic
                   if the frame count falls inside a packet); the message to buffersChan with the number of
                   dropped frames counted; distributeData stamps the frame index and advances nextFrame.
   Deviation switches (TRUE = as the pinned code was before repair):
     FillCountsLeftovers - fillMissingPackets restarts its expectation at lastSN+1 but walks the whole
                   queue, so packets left over from earlier ticks advance the expectation a second time
                   and a later gap is not filled.
     DropCountPerTick    - the dropped-frame counter is local to one tick: fills made in a tick that is
                   abandoned (another group had no data, or nothing to demux) are never reported.
   Property layer: arrived[g] (ground truth), out[g] (packets consumed, in order), rep (dropped frames
   reported so far) and the predicates C03_* below. *)
EXTENDS Integers, Sequences, FiniteSets, TLC

CONSTANTS NGroups,             \* groups are 1..NGroups
          Fpp,                 \* frames per packet, a tuple indexed by group (bound with <- in the cfg)
          MaxSN,               \* senders stop at this sequence number
          MaxTicks, MaxBatch,  \* bounds: ticks per behaviour, new sequence numbers per group and tick
          Last0s,              \* possible values of lastSN after the sampling phase (packets <= it were sampled)
          FillCountsLeftovers, DropCountPerTick

Groups == 1..NGroups

VARIABLES hi,        \* highest sequence number the sender of g has emitted (arrived or lost)
          arrived,   \* set of sequence numbers of g that arrived
          queue,     \* AbacoGroup.queue: sequence of [sn, fake]
          lastSN,    \* AbacoGroup.lastSN
          first0,    \* first global sn any group will output (fixed at Init: max over groups of lastSN + 1)
          ag,        \* group whose arrival is next in this tick; NGroups+1 = arrivals done, Process next
          tick,
          out,       \* packets consumed by demuxData per group
          nblocks, nextFrame,
          pend,      \* dropped frames counted but not yet reported
          rep,       \* dropped frames reported with blocks so far
          trimf,     \* ghost: filler frames made for sequence numbers before the common start and trimmed away again
          panic,
          act        \* output only
vars == <<hi, arrived, queue, lastSN, first0, ag, tick, out, nblocks, nextFrame, pend, rep, trimf, panic, act>>

Pkt(sn, fake) == [sn |-> sn, fake |-> fake]
MaxOf(S) == CHOOSE x \in S : \A y \in S : y <= x
MinOf(S) == CHOOSE x \in S : \A y \in S : x <= y
RECURSIVE SeqOfSet(_)
SeqOfSet(S) == IF S = {} THEN <<>> ELSE LET m == MinOf(S) IN <<Pkt(m, FALSE)>> \o SeqOfSet(S \ {m})
NFake(q) == Cardinality({i \in 1..Len(q) : q[i].fake})
RECURSIVE SumOver(_, _)
SumOver(S, f) == IF S = {} THEN 0 ELSE LET x == CHOOSE y \in S : TRUE IN f[x] + SumOver(S \ {x}, f)

Init == /\ lastSN \in [Groups -> Last0s]
        /\ hi = lastSN
        /\ first0 = MaxOf({lastSN[g] : g \in Groups}) + 1
        /\ arrived = [g \in Groups |-> {}] /\ queue = [g \in Groups |-> <<>>]
        /\ out = [g \in Groups |-> <<>>]
        /\ ag = 1 /\ tick = 0 /\ nblocks = 0 /\ nextFrame = 0 /\ pend = 0 /\ rep = 0 /\ trimf = 0 /\ panic = FALSE
        /\ act = [a |-> "Init", last0 |-> lastSN]

\* ---------------------------------------------------------------- implementation layer
\* fillMissingPackets: walk the whole queue from expectation snexp
RECURSIVE Fill(_, _)
Fill(q, snexp) ==
  IF q = <<>> THEN <<>> ELSE
  LET p == Head(q) IN
  IF snexp < p.sn THEN <<Pkt(snexp, TRUE)>> \o Fill(q, snexp + 1)
  ELSE <<p>> \o Fill(Tail(q), IF FillCountsLeftovers THEN snexp + 1
                              ELSE (IF p.sn >= snexp THEN p.sn + 1 ELSE snexp))

FakeFramesOf(qs) == SumOver(Groups, [g \in Groups |-> Fpp[g] * NFake(qs[g])])
RECURSIVE TrimBefore(_, _)
TrimBefore(q, sn) == IF q = <<>> \/ Head(q).sn >= sn THEN q ELSE TrimBefore(Tail(q), sn)

Arrive(g) ==
  /\ ag = g /\ ~panic /\ tick < MaxTicks
  /\ \E k \in 0..MaxBatch :
       /\ hi[g] + k <= MaxSN
       /\ \E lost \in SUBSET ((hi[g] + 1)..(hi[g] + k)) :
            LET got == ((hi[g] + 1)..(hi[g] + k)) \ lost IN
            /\ hi' = [hi EXCEPT ![g] = hi[g] + k]
            /\ arrived' = [arrived EXCEPT ![g] = arrived[g] \cup got]
            /\ queue' = [queue EXCEPT ![g] = queue[g] \o SeqOfSet(got)]
            /\ act' = [a |-> "Arrive", g |-> g, got |-> got, lost |-> lost]
  /\ ag' = g + 1
  /\ UNCHANGED <<lastSN, first0, tick, out, nblocks, nextFrame, pend, rep, trimf, panic>>

\* the tick is abandoned after the groups in `filled` had their gaps filled
Abandon(filled) ==
  LET q2 == [g \in Groups |-> IF g \in filled THEN Fill(queue[g], lastSN[g] + 1) ELSE queue[g]]
      added == SumOver(filled, [g \in Groups |-> Fpp[g] * (NFake(q2[g]) - NFake(queue[g]))]) IN
  /\ queue' = q2
  /\ lastSN' = [g \in Groups |-> IF g \in filled THEN q2[g][Len(q2[g])].sn ELSE lastSN[g]]
  /\ pend' = IF DropCountPerTick THEN 0 ELSE pend + added
  /\ act' = [a |-> "Process", filled |-> filled, emitted |-> 0]
  /\ UNCHANGED <<out, nblocks, nextFrame, rep, trimf, panic>>

Demux ==
  LET q2 == [g \in Groups |-> Fill(queue[g], lastSN[g] + 1)]
      added == SumOver(Groups, [g \in Groups |-> Fpp[g] * (NFake(q2[g]) - NFake(queue[g]))])
      ls2 == [g \in Groups |-> q2[g][Len(q2[g])].sn]
      firstSn == MaxOf({q2[g][1].sn : g \in Groups})
      q3 == [g \in Groups |-> TrimBefore(q2[g], firstSn)]
      fr == MinOf({Len(q3[g]) * Fpp[g] : g \in Groups}) IN
  /\ lastSN' = ls2
  /\ trimf' = trimf + FakeFramesOf(q2) - FakeFramesOf(q3)
  /\ IF fr <= 0
     THEN /\ queue' = q3
          /\ pend' = IF DropCountPerTick THEN 0 ELSE pend + added
          /\ act' = [a |-> "Process", filled |-> Groups, emitted |-> 0]
          /\ UNCHANGED <<out, nblocks, nextFrame, rep, panic>>
     ELSE LET nc == [g \in Groups |-> fr \div Fpp[g]] IN
          /\ panic' = \E g \in Groups : fr % Fpp[g] # 0
          /\ out' = [g \in Groups |-> out[g] \o SubSeq(q3[g], 1, nc[g])]
          /\ queue' = [g \in Groups |-> SubSeq(q3[g], nc[g] + 1, Len(q3[g]))]
          /\ nblocks' = nblocks + 1 /\ nextFrame' = nextFrame + fr
          /\ rep' = rep + (IF DropCountPerTick THEN 0 ELSE pend) + added /\ pend' = 0
          /\ act' = [a |-> "Process", filled |-> Groups, emitted |-> fr]

Process ==
  /\ ag = NGroups + 1 /\ ~panic
  /\ ag' = 1 /\ tick' = tick + 1
  /\ UNCHANGED <<hi, arrived, first0>>
  /\ LET empties == {g \in Groups : queue[g] = <<>>} IN
     IF empties # {}
     THEN \E filled \in SUBSET (Groups \ empties) : Abandon(filled)   \* map order decides which were reached
     ELSE Demux

Next == (\E g \in Groups : Arrive(g)) \/ Process
Spec == Init /\ [][Next]_vars

\* ---------------------------------------------------------------- property layer
Contig(g) == \A i \in 1..(Len(out[g]) - 1) : out[g][i+1].sn = out[g][i].sn + 1
StartsRight(g) == out[g] = <<>> \/ out[g][1].sn = first0
FakeIffLost(g) == \A i \in 1..Len(out[g]) : out[g][i].fake <=> (out[g][i].sn \notin arrived[g])
C03_content == \A g \in Groups : Contig(g) /\ StartsRight(g) /\ FakeIffLost(g)
\* nothing that arrived (from the common start on) is discarded: it is in the output or still queued
C03_nolost  == \A g \in Groups : \A sn \in arrived[g] : sn >= first0 =>
                  \/ \E i \in 1..Len(out[g]) : out[g][i].sn = sn
                  \/ \E i \in 1..Len(queue[g]) : queue[g][i].sn = sn
C03_aligned == panic \/ \A g, h \in Groups : Len(out[g]) * Fpp[g] = Len(out[h]) * Fpp[h]
C03_frames  == panic \/ \A g \in Groups : nextFrame = Len(out[g]) * Fpp[g]
FakeFrames(qs) == FakeFramesOf(qs)
\* fillers are never output unreported, and every filler made is reported (or still pending)
C03_dropped == /\ rep >= FakeFrames(out)
               /\ rep + pend = FakeFrames(out) + FakeFrames(queue) + trimf
C03_nocrash == ~panic

View == <<hi, arrived, queue, lastSN, first0, ag, tick, out, pend, rep, trimf, panic>>

\* tuples for the cfg files
FppEq1 == <<1, 1>>
FppEq2 == <<2, 2>>
FppEq3 == <<1, 1, 1>>
FppNe  == <<1, 2>>
FppOne == <<2>>
=============================================================================
