SPECIFICATION Spec
CONSTANTS W = 7
 Frac = 7
 Drop = 2
 Bias <- BiasNeg
 ResetAfter = 2
 PulsePositive = FALSE
 Invert = TRUE
 Enable = TRUE
INVARIANTS NoBad
VIEW View
CHECK_DEADLOCK FALSE
