----------------------------- MODULE AsyncWriter -----------------------------
(* asyncbufio.Writer + the WriteRecord methods of ljh.Writer / ljh.Writer3 / off.Writer (C07).

   Processes: one producer (the acquisition side: WriteRecord = `Parts` non-blocking Write calls, or a
   single one when Atomic; Flush; Close), the writeLoop goroutine (select: take one item / flushNow ->
   drain+flush+ack / ticker -> drain+flush), and the bufio layer that may spill to the file at any
   time.  The loop may stall anywhere: no fairness is assumed for the safety properties.
   An item is <<record, part>>; part 0 = a whole record enqueued as one slice.                  *)
EXTENDS Integers, Sequences, FiniteSets, TLC

CONSTANTS Cap,      \* capacity of the data channel
          Parts,    \* Write calls per record when not Atomic (3 LJH2.2, 5 LJH3, 8 OFF)
          NRec,     \* records the producer tries to write
          Atomic,   \* TRUE: WriteRecord enqueues the record as one slice (the repaired code)
          Ticker,   \* periodic flush enabled
          MaxFlush  \* explicit Flush calls allowed

VARIABLES q, bufw, file, ppc, prec, ppart, nextRec, lpc, accepted, rejected, snap, quiescent, nflush, act
vars == <<q, bufw, file, ppc, prec, ppart, nextRec, lpc, accepted, rejected, snap, quiescent, nflush, act>>

Init == /\ q = <<>> /\ bufw = <<>> /\ file = <<>> /\ ppc = "idle" /\ prec = 0 /\ ppart = 0 /\ nextRec = 1
        /\ lpc = "select" /\ accepted = <<>> /\ rejected = {} /\ snap = <<>> /\ quiescent = FALSE /\ nflush = 0
        /\ act = [a |-> "init"]

NP == IF Atomic THEN 1 ELSE Parts
Item(r, p) == IF Atomic THEN <<r, 0>> ELSE <<r, p>>

\* ---------------------------------------------------------------- producer
BeginWrite == /\ ppc = "idle" /\ nextRec <= NRec
              /\ ppc' = "w" /\ prec' = nextRec /\ ppart' = 1 /\ nextRec' = nextRec + 1 /\ quiescent' = FALSE
              /\ act' = [a |-> "BeginWrite", rec |-> nextRec]
              /\ UNCHANGED <<q, bufw, file, lpc, accepted, rejected, snap, nflush>>

WritePart == /\ ppc = "w"
             /\ IF Len(q) < Cap
                THEN /\ q' = Append(q, Item(prec, ppart))
                     /\ IF ppart = NP
                        THEN /\ accepted' = Append(accepted, prec) /\ ppc' = "idle" /\ UNCHANGED <<ppart, rejected>>
                        ELSE /\ ppart' = ppart + 1 /\ UNCHANGED <<accepted, ppc, rejected>>
                     /\ act' = [a |-> "WritePart", rec |-> prec, part |-> ppart, ok |-> TRUE]
                ELSE /\ rejected' = rejected \cup {prec} /\ ppc' = "idle"
                     /\ act' = [a |-> "WritePart", rec |-> prec, part |-> ppart, ok |-> FALSE]
                     /\ UNCHANGED <<q, ppart, accepted>>
             /\ quiescent' = FALSE
             /\ UNCHANGED <<bufw, file, prec, nextRec, lpc, snap, nflush>>

CallFlush == /\ ppc = "idle" /\ lpc = "select" /\ nflush < MaxFlush     \* rendezvous on flushNow
             /\ ppc' = "fwait" /\ lpc' = "drainF" /\ snap' = accepted /\ nflush' = nflush + 1 /\ quiescent' = FALSE
             /\ act' = [a |-> "CallFlush"]
             /\ UNCHANGED <<q, bufw, file, prec, ppart, nextRec, accepted, rejected>>

FlushReturn == /\ ppc = "fwait" /\ lpc = "ack"                           \* rendezvous on flushComplete
               /\ ppc' = "idle" /\ lpc' = "select" /\ quiescent' = TRUE
               /\ act' = [a |-> "FlushReturn"]
               /\ UNCHANGED <<q, bufw, file, prec, ppart, nextRec, accepted, rejected, snap, nflush>>

CallClose == /\ ppc = "idle" /\ lpc = "select"                           \* close(flushNow) seen by the select
             /\ ppc' = "cwait" /\ lpc' = "drainC" /\ snap' = accepted /\ quiescent' = FALSE
             /\ act' = [a |-> "CallClose"]
             /\ UNCHANGED <<q, bufw, file, prec, ppart, nextRec, accepted, rejected, nflush>>

CloseReturn == /\ ppc = "cwait" /\ lpc = "ackC"
               /\ ppc' = "closed" /\ lpc' = "done" /\ quiescent' = TRUE
               /\ act' = [a |-> "CloseReturn"]
               /\ UNCHANGED <<q, bufw, file, prec, ppart, nextRec, accepted, rejected, snap, nflush>>

\* ---------------------------------------------------------------- writeLoop
Take == /\ lpc = "select" /\ q # <<>>
        /\ bufw' = Append(bufw, Head(q)) /\ q' = Tail(q) /\ quiescent' = FALSE
        /\ act' = [a |-> "Take"]
        /\ UNCHANGED <<file, ppc, prec, ppart, nextRec, lpc, accepted, rejected, snap, nflush>>

Tick == /\ Ticker /\ lpc = "select" /\ lpc' = "drainT" /\ quiescent' = FALSE
        /\ act' = [a |-> "Tick"]
        /\ UNCHANGED <<q, bufw, file, ppc, prec, ppart, nextRec, accepted, rejected, snap, nflush>>

DrainStep == /\ lpc \in {"drainF", "drainC", "drainT"}
             /\ IF q # <<>>
                THEN /\ bufw' = Append(bufw, Head(q)) /\ q' = Tail(q) /\ UNCHANGED lpc
                ELSE \* the channel was seen empty: bufio.Flush starts; the disk may stall inside it while the
                     \* producer keeps queueing (those items wait for the next flush)
                     /\ lpc' = CASE lpc = "drainF" -> "flushF" [] lpc = "drainC" -> "flushC" [] OTHER -> "flushT"
                     /\ UNCHANGED <<q, bufw>>
             /\ quiescent' = FALSE
             /\ act' = [a |-> "DrainStep"]
             /\ UNCHANGED <<file, ppc, prec, ppart, nextRec, accepted, rejected, snap, nflush>>

FlushDone == /\ lpc \in {"flushF", "flushC", "flushT"}
             /\ file' = file \o bufw /\ bufw' = <<>>
             /\ lpc' = CASE lpc = "flushF" -> "ack" [] lpc = "flushC" -> "ackC" [] OTHER -> "select"
             /\ quiescent' = FALSE
             /\ act' = [a |-> "FlushDone"]
             /\ UNCHANGED <<q, ppc, prec, ppart, nextRec, accepted, rejected, snap, nflush>>

Spill == /\ bufw # <<>>                                                  \* bufio buffer full: oldest bytes reach the file
         /\ file' = Append(file, Head(bufw)) /\ bufw' = Tail(bufw) /\ quiescent' = FALSE
         /\ act' = [a |-> "Spill"]
         /\ UNCHANGED <<q, ppc, prec, ppart, nextRec, lpc, accepted, rejected, snap, nflush>>

LoopNext == Take \/ Tick \/ DrainStep \/ FlushDone \/ Spill
ProdNext == BeginWrite \/ WritePart \/ CallFlush \/ FlushReturn \/ CallClose \/ CloseReturn
Next == LoopNext \/ ProdNext
Spec == Init /\ [][Next]_vars
FairSpec == Spec /\ WF_vars(LoopNext) /\ WF_vars(FlushReturn) /\ WF_vars(CloseReturn)

\* ---------------------------------------------------------------- property layer
Pipeline == file \o bufw \o q
InSeq(s, x) == \E i \in 1..Len(s) : s[i] = x
RecOf(s) == {s[i][1] : i \in 1..Len(s)}
\* s consists of whole records only, in acceptance order
Whole(s) == /\ Len(s) % NP = 0
            /\ \A k \in 0..((Len(s) \div NP) - 1) :
                  /\ \A p \in 1..NP : s[k * NP + p] = Item(s[k * NP + 1][1], p)
            /\ \A i, j \in 1..Len(s) : i < j => s[i][1] <= s[j][1]

C07_reject_or_write == \A r \in rejected : r \notin RecOf(Pipeline)
C07_whole           == quiescent => Whole(file)
C07_order           == \A i, j \in 1..Len(Pipeline) : i < j =>
                           \/ Pipeline[i][1] < Pipeline[j][1]
                           \/ (Pipeline[i][1] = Pipeline[j][1] /\ Pipeline[i][2] < Pipeline[j][2])
C07_flush_durable   == quiescent => \A i \in 1..Len(snap) : \A p \in 1..NP : InSeq(file, Item(snap[i], p))
C07_closed_complete == ppc = "closed" => /\ q = <<>> /\ bufw = <<>>
                                         /\ \A i \in 1..Len(accepted) : \A p \in 1..NP : InSeq(file, Item(accepted[i], p))
\* liveness (FairSpec): a Flush or Close call returns once the consumer keeps running
FlushReturns == (ppc = "fwait") ~> (ppc = "idle")
CloseReturns == (ppc = "cwait") ~> (ppc = "closed")

View == <<q, bufw, file, ppc, prec, ppart, nextRec, lpc, accepted, rejected, snap, quiescent, nflush>>
=============================================================================
