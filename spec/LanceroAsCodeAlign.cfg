SPECIFICATION Spec
CONSTANTS Cols = 1
 Rows = 2
 NFrames = 10
 ReadSteps = {6, 8, 40}
 MaxReads = 4
 GapAts = {7, 8, 9}
 GapLens = {1, 3}
 ExtCells <- NoExt
 ExtScanByRow = FALSE
 CounterIgnoresDrop = FALSE
 AlignAssumesOneFrame = TRUE
 CheckEveryFrame = FALSE
INVARIANTS C04_nocrash
VIEW View
CHECK_DEADLOCK FALSE
