SPECIFICATION SimSpec
CONSTANTS Caps = {3, 7, 16}
 MaxN = 18
 MaxTotal = 1000
 DiscardRewinds = FALSE
 MaxCreates = 2
 CreateKeepsPointers = FALSE
 SimDepth = 14
INVARIANTS Emit
CHECK_DEADLOCK FALSE
