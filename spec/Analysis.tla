------------------------------ MODULE Analysis ------------------------------
(* Per-record analysis quantities (C13) as exact rationals <<numerator, denominator>> over integer records, written from
   the definitions in the property (not from AnalyzeData):
     ptmean   mean of the npre pre-trigger samples
     ptdelta  least-squares slope of the pre-trigger samples against the sample index, times the span (npre - 1)
     avg      mean of the pulse part minus ptmean
     msq      mean of (x - ptmean)^2 over the pulse part           (pulse RMS = sqrt(msq); compared as squares)
     peak     max of the pulse part minus ptmean
   A record is base + d[i]; every quantity except ptmean is invariant under the base, so it is computed on the small
   offsets d (TLC integers are 32 bit); ptmean is reported relative to the base.
   Projectors P (k x n) and basis B (n x k), small integers: coefs = P x, residual = x - B coefs,
   rsd2 = population variance of the residual (residual standard deviation squared).
   This module is a case generator and oracle: TLC prints CaseSet with the expected values; the driver runs the real
   AnalyzeData on base + d and compares in exact rational arithmetic.  *)
EXTENDS Integers, Sequences, FiniteSets, TLC, Json
CONSTANTS Offsets, Shapes, MaxCases

RECURSIVE SumF(_, _, _)
SumF(f(_), lo, hi) == IF lo > hi THEN 0 ELSE f(lo) + SumF(f, lo + 1, hi)
Sum(s, lo, hi) == LET F(i) == s[i] IN SumF(F, lo, hi)
RECURSIVE MaxF(_, _, _)
MaxF(s, lo, hi) == IF lo = hi THEN s[lo] ELSE LET m == MaxF(s, lo + 1, hi) IN IF s[lo] > m THEN s[lo] ELSE m

\* all quantities for offsets d with npre pre-trigger samples, n = Len(d)
Expected(d, npre) ==
  LET n == Len(d)
      np == n - npre
      S == Sum(d, 1, npre)                                  \* ptmean = S / npre
      \* slope numerator: sum (d_i - mean)(i - imean) ; times 12/(npre (npre+1)) as in the closed form of the definition
      A(i) == (npre * d[i] - S) * (2 * i - (npre + 1))       \* = 2 npre (d_i - mean)(i - imean)
      SA == SumF(A, 1, npre)                                 \* sum (d_i-mean)(i-imean) = SA / (2 npre)
      Sp == Sum(d, npre + 1, n)
      Q(i) == (npre * d[i] - S) * (npre * d[i] - S)          \* npre^2 (d_i - ptmean)^2
      SQ == SumF(Q, npre + 1, n)
  IN [ptmean |-> <<S, npre>>,
      \* slope = [SA/(2 npre)] / [npre (npre^2 - 1)/12] ; times (npre - 1)  =>  6 SA / (npre^2 (npre + 1))
      ptdelta |-> IF npre > 1 THEN <<6 * SA, npre * npre * (npre + 1)>> ELSE <<0, 0>>,
      avg |-> <<npre * Sp - np * S, np * npre>>,
      msq |-> <<SQ, np * npre * npre>>,
      peak |-> <<npre * MaxF(d, npre + 1, n) - S, npre>>]

Seqs(n) == [1..n -> Offsets]
CaseSet == UNION {{[d |-> d, npre |-> sh[1], exp |-> Expected(d, sh[1])] : d \in Seqs(sh[2])} : sh \in Shapes}

\* projector cases: x (length n), P (k x n), B (n x k) with entries from small sets
MatMulVec(Mx, v, rows, cols) == [r \in 1..rows |-> LET F(c) == Mx[r][c] * v[c] IN SumF(F, 1, cols)]
ProjExpected(x, P, B, k) ==
  LET n == Len(x)
      c == MatMulVec(P, x, k, n)
      m == MatMulVec(B, c, n, k)
      r == [i \in 1..n |-> x[i] - m[i]]
      Sr == Sum(r, 1, n)
      R2(i) == r[i] * r[i]
      S2 == SumF(R2, 1, n)
  IN [coefs |-> c, rsd2 |-> <<n * S2 - Sr * Sr, n * n>>]

PX == {0, 1, 50}
PE == {-1, 0, 2}
BE == {-1, 1}
ProjCaseSet ==
  {[x |-> x, P |-> P, B |-> B, k |-> 1, exp |-> ProjExpected(x, P, B, 1)] :
       x \in [1..3 -> PX], P \in [1..1 -> [1..3 -> PE]], B \in [1..3 -> [1..1 -> BE]]}
  \cup {[x |-> x, P |-> P, B |-> B, k |-> 2, exp |-> ProjExpected(x, P, B, 2)] :
       x \in [1..2 -> {1, 40}], P \in [1..2 -> [1..2 -> {0, 1, -2}]], B \in [1..2 -> [1..2 -> {0, 1}]]}
VARIABLE emitted
Init == emitted = FALSE
Next == ~emitted /\ emitted' = TRUE /\ PrintT(<<"CASES", ToJson(CaseSet)>>) /\ PrintT(<<"PCASES", ToJson(ProjCaseSet)>>)
Spec == Init /\ [][Next]_emitted
ShapesQ == {<<1, 2>>, <<2, 3>>, <<3, 5>>, <<4, 6>>}
ShapesT == {<<1, 2>>, <<1, 3>>, <<2, 3>>, <<2, 5>>, <<3, 5>>, <<3, 6>>, <<4, 6>>, <<5, 7>>}
OffQ == {-3, 0, 1, 3}
OffT == {-3, -1, 0, 1, 3}
=============================================================================
