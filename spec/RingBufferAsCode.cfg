SPECIFICATION Spec
CONSTANTS Caps = {5}
 MaxN = 6
 MaxTotal = 12
 DiscardRewinds = TRUE
 MaxCreates = 2
 CreateKeepsPointers = FALSE
INVARIANTS NoBad
VIEW View
CHECK_DEADLOCK FALSE
