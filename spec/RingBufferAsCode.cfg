SPECIFICATION Spec
CONSTANTS Caps = {5}
 MaxN = 6
 MaxTotal = 12
 DiscardRewinds = TRUE
INVARIANTS NoBad
VIEW View
CHECK_DEADLOCK FALSE
