SPECIFICATION Spec
CONSTANTS Cap = 2
 MaxBlocks = 4
 PanicLater = TRUE
 CloseInAbortOnly = FALSE
INVARIANTS C10_run_ends_clean C10_no_stuck NoPanic
CHECK_DEADLOCK FALSE
