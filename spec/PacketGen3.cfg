SPECIFICATION Spec
CONSTANTS MaxTLV = 3
CHECK_DEADLOCK FALSE
