--------------------------- MODULE LanceroLifeSim ---------------------------
(* Behaviour generator for the Lancero life-cycle driver: random behaviours of LanceroLifecycle, projected on the
   client-visible actions (Start, Stop, StopWait = the Stop call has returned, Mix:<client>, Silence); printed once
   per behaviour when it has reached a terminal state.                                                            *)
EXTENDS LanceroLifecycle, Json
VARIABLE hist
SimInit == Init /\ hist = <<>>
Rec(a) == hist' = Append(hist, a)
Ended == hist # <<>> /\ hist[Len(hist)] = "End"
SimNext == \/ StartOK /\ Rec("Start")
           \/ StartFail /\ Rec("StartBad")
           \/ StopCall /\ Rec("Stop")
           \/ StopWaited /\ Rec("StopWait")
           \/ HwSilence /\ Rec("Silence")
           \/ \E c \in Clients : MixCall(c) /\ Rec("Mix:" \o c)
           \/ (ReaderTick \/ ReaderAbort \/ ReaderPanic \/ CoreCall \/ GnTake \/ GnClosed \/ GnPanic \/ GnMix \/ CoreTakeBlock
               \/ CoreBlockDone \/ CoreSeeClosed \/ \E c \in Clients : MixSend(c) \/ MixRecv(c) \/ MixGiveUp(c)) /\ UNCHANGED hist
           \/ (~ENABLED Next) /\ ~Ended /\ UNCHANGED vars /\ Rec("End")
SimSpec == SimInit /\ [][SimNext]_<<vars, hist>>
Emit == Ended => PrintT(<<"SCEN", ToJson([steps |-> hist, bad |-> BadArgs])>>)
=============================================================================
