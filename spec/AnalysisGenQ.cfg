SPECIFICATION Spec
CONSTANTS Offsets <- OffQ
 Shapes <- ShapesQ
 MaxCases = 0
CHECK_DEADLOCK FALSE
