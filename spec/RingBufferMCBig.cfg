SPECIFICATION Spec
CONSTANTS Caps = {2, 3, 4, 5, 8, 13}
 MaxN = 15
 MaxTotal = 80
 DiscardRewinds = FALSE
 MaxCreates = 2
 CreateKeepsPointers = FALSE
INVARIANTS NoBad Bounded Holds Ghost
VIEW View
CHECK_DEADLOCK FALSE
