---------------------------- MODULE PhaseUnwrap ----------------------------
(* Phase unwrapping (C12): exact integer transcription of phase_unwrap.go PhaseUnwrapper.UnwrapInPlace with the
   word size as a parameter (the code is 16 bit; the exhaustive check uses a smaller word, the trace specification
   uses 16).  One action = one sample; the unwrapper's state (lastVal, offset, resetCount) is finite, so the
   exhaustive model covers input sequences of every length.
     W        word size in bits (values are 0 .. 2^W - 1, arithmetic wraps)
     Frac     fractionBits: raw & (2^Frac - 1) is the phase fraction (signMask)
     Drop     lowBitsToDrop ; one flux quantum = TwoPi = 2^(Frac-Drop) after the drop
     Bias     the step bias in dropped units (any value in -(TwoPi-1) .. TwoPi-1)
     ResetAfter, PulsePositive, Invert, Enable
   Deviation switch: none (no defect known).  *)
EXTENDS Integers, Sequences, FiniteSets, TLC
CONSTANTS W, Frac, Drop, Bias, ResetAfter, PulsePositive, Invert, Enable

M == 2 ^ W
TwoPi == 2 ^ (Frac - Drop)
OnePi == TwoPi \div 2
Upper == Bias + OnePi
Lower == Bias - OnePi
Home == IF PulsePositive THEN (TwoPi % M) ELSE ((M - ((2 * TwoPi) % M)) % M)
Signed(x) == IF x >= M \div 2 THEN x - M ELSE x          \* intW(x) for x in 0..M-1
U(x) == (((x % M) + M) % M)                                \* uintW(x)
Pre(raw) == LET r == IF Invert THEN (M - 1) - raw ELSE raw IN ((r % (2 ^ Frac)) \div (2 ^ Drop))   \* invert, mask, drop

VARIABLES lastVal, offset, resetCount,   \* the unwrapper
          prevOut, prevV, started, run,  \* ghosts: previous output / pre-processed input, run of samples off home
          bad, act
vars == <<lastVal, offset, resetCount, prevOut, prevV, started, run, bad, act>>

Init == /\ lastVal = 0 /\ offset = (IF Enable /\ Drop > 0 THEN Home ELSE 0) /\ resetCount = 0
        /\ prevOut = 0 /\ prevV = 0 /\ started = FALSE /\ run = 0 /\ bad = {} /\ act = [raw |-> 0, out |-> 0]

Sample(raw) ==
  LET v == Pre(raw) IN
  IF ~Enable \/ Drop = 0
  THEN \* unwrapping off: plain bit drop (no drop at all when Drop = 0: then only the inversion applies)
       LET out == IF Drop = 0 THEN (IF Invert THEN (M - 1) - raw ELSE raw) ELSE v IN
       /\ act' = [raw |-> raw, out |-> out] /\ bad' = {}
       /\ UNCHANGED <<lastVal, offset, resetCount, prevOut, prevV, started, run>>
  ELSE
  LET step == Signed(U(v - lastVal))
      off1 == IF step > Upper THEN U(offset - TwoPi) ELSE IF step < Lower THEN U(offset + TwoPi) ELSE offset
      athome == off1 = Home
      rc1 == IF athome THEN 0 ELSE resetCount + 1
      doreset == ~athome /\ rc1 > ResetAfter
      off2 == IF doreset THEN Home ELSE off1
      out == U(v + off2)
      outstep == Signed(U(out - prevOut))
      run1 == IF off2 = Home THEN 0 ELSE run + 1
  IN /\ lastVal' = v /\ offset' = off2 /\ resetCount' = (IF doreset THEN 0 ELSE rc1)
     /\ prevOut' = out /\ prevV' = v /\ started' = TRUE /\ run' = run1
     /\ act' = [raw |-> raw, out |-> out]
     /\ bad' = (IF (U(out - v) % TwoPi) # 0 THEN {"C12_mod"} ELSE {})
               \cup (IF started /\ ~doreset /\ (U(outstep - Signed(U(v - prevV))) % TwoPi) # 0 THEN {"C12_step_mod"} ELSE {})
               \cup (IF started /\ ~doreset /\ (outstep > Upper \/ outstep < Lower) THEN {"C12_step_range"} ELSE {})
               \cup (IF run1 > ResetAfter + 1 THEN {"C12_reset"} ELSE {})

Next == \E raw \in 0..(M - 1) : Sample(raw)
Spec == Init /\ [][Next]_vars
NoBad == bad = {}
View == <<lastVal, offset, resetCount, prevOut, prevV, started, run, bad>>
BiasNeg == -6
=============================================================================
