SPECIFICATION Spec
CONSTANTS Cap = 2
 Parts = 3
 NRec = 3
 Atomic = TRUE
 Ticker = TRUE
 MaxFlush = 2
INVARIANTS C07_reject_or_write C07_whole C07_order C07_flush_durable C07_closed_complete
VIEW View
CHECK_DEADLOCK FALSE
